/-
hintmask / cntrmask commands of the compiled charstring (C04): a mask operator followed by
⌈nStems/8⌉ data bytes is stepped over by the specification interpreter; a mask directly after the
operands of the last vstem chunk declares these stems first (the "implicit vstem").
-/
import SfntV.Proofs.T2Header

set_option linter.unusedSimpArgs false
set_option linter.unusedVariables false

namespace SfntV.T2Enc
open SfntV SfntV.T2 SfntV.Spec.T2

/-- the mask operator of a mask command -/
def maskOp (cntr : Bool) : Op := if cntr then .cntrmask else .hintmask

/-- number of stem pairs the decoder has seen -/
def nStems (s : St) : Nat := (s.hstem.length + s.vstem.length) / 2

theorem exec_mask (env : Env) (s : St) (cn : Bool) (bs rest : List Nat) (hp : PendOK s)
    (hme : s.moveErr = false) (hst : 1 ≤ s.stage) (hn : 1 ≤ nStems s)
    (hb : bs.length = (nStems s + 7) / 8) (hrest : 0 < rest.length) :
    checkMove (T2.exec strict env s (maskOp cn) (bs ++ rest)) =
      .ok (.cont (drawCmd strict (widthDone env s) (.mask cn bs)) rest) := by
  have hme' : (drawCmd strict (widthDone env s) (.mask cn bs)).moveErr = false := by
    simp only [drawCmd, (widthDone_fields env s).2.2.1, hme]
  rw [show T2.exec strict env s (maskOp cn) (bs ++ rest) =
      .ok (.cont (drawCmd strict (widthDone env s) (.mask cn bs)) rest) from ?_]
  · exact checkMove_cont _ _ hme'
  unfold nStems at hn hb
  have hk : ¬ ((s.hstem.length + s.vstem.length) / 2 + 7) / 8 ≥ (bs ++ rest).length := by
    simp only [List.length_append]; omega
  have hk2 : ((s.hstem.length + s.vstem.length) / 2 + 7) / 8 < bs.length + rest.length := by omega
  have hn0 : ¬ (s.hstem.length + s.vstem.length) / 2 = 0 := by omega
  have hst0 : ¬ s.stage < 1 := by omega
  have htake : (bs ++ rest).take (((s.hstem.length + s.vstem.length) / 2 + 7) / 8) = bs := by
    rw [← hb]; simp
  have hdrop : (bs ++ rest).drop (((s.hstem.length + s.vstem.length) / 2 + 7) / 8) = rest := by
    rw [← hb]; simp
  rcases hp with h | ⟨wv, h, hw⟩
  · cases cn <;> by_cases hws : s.widthSet = true <;>
      simp [T2.exec, maskOp, h, setWidth, strict, stemPairs, hws, hk, hk2, hn0, hst0, htake, hdrop, drawCmd, widthDone]
  · cases cn <;>
      simp [T2.exec, maskOp, h, hw, setWidth, strict, stemPairs, hk, hk2, hn0, hst0, htake, hdrop, drawCmd, widthDone]

/-- A mask command inside the path section: the operator and its ⌈nStems/8⌉ data bytes are stepped over;
the decoded glyph gets the mask command with exactly these bytes; a pending width operand is taken. -/
theorem mask_reaches (env : Env) (s : St) (cn : Bool) (bs rest : List Nat) (hp : PendOK s)
    (hme : s.moveErr = false) (hst : 1 ≤ s.stage) (hn : 1 ≤ nStems s)
    (hb : bs.length = (nStems s + 7) / 8) (hrest : 0 < rest.length) :
    Reaches strict env s (opBytes (maskOp cn) ++ bs ++ rest)
      (drawCmd strict (widthDone env s) (.mask cn bs)) rest := by
  have hlen : s.stack.length ≤ 48 := by rcases hp with h | ⟨wv, h, _⟩ <;> simp [h]
  refine Reaches.single ?_ (by have := opBytes_pos (maskOp cn); simp only [List.length_append]; omega)
  rw [List.append_assoc, step_op env s (maskOp cn) (bs ++ rest) hlen]
  exact exec_mask env s cn bs rest hp hme hst hn hb hrest

/-- The implicit vstem: a mask operator met with the operands of a stem chunk still on the stack (in
front of them possibly the width) behaves exactly as if the vstem(hm) operator had been written. -/
theorem exec_mask_implicit (env : Env) (sL : St) (c : List Int) (cn : Bool) (code : List Nat)
    (hr : HintReady sL) (h2 : 2 ≤ c.length) (hev : c.length % 2 = 0) :
    T2.exec strict env { sL with stack := sL.stack ++ c } (maskOp cn) code =
      T2.exec strict env (stemDecl env true sL c) (maskOp cn) code := by
  obtain ⟨hp, hst, hme⟩ := hr
  have hng : ¬ sL.stage > 1 := by omega
  have hodd : (c.length % 2 == 1) = false := by simp [hev]
  have hodd1 : ((c.length + 1) % 2 == 1) = true := by
    have : (c.length + 1) % 2 = 1 := by omega
    simp [this]
  have hev1 : (c.length + 1) % 2 = 1 := by omega
  rcases hp with h | ⟨wv, h, hw⟩
  · cases cn <;> by_cases hws : sL.widthSet = true <;>
      simp [T2.exec, maskOp, h, hng, setWidth, strict, stemDecl, widthDone, hodd, hev, hws, stemPairs,
        show c.length ≥ 2 by omega, show 2 ≤ c.length by omega]
  · cases cn <;>
      simp [T2.exec, maskOp, h, hw, hng, setWidth, strict, stemDecl, widthDone, hodd1, hev, hev1, stemPairs,
        show c.length + 1 ≥ 2 by omega, show 2 ≤ c.length + 1 by omega]

end SfntV.T2Enc
