/-
C02 (decoders are total): proofs about the checked-index model of `name.Decode` /
`name.utf16Decode` (`SfntV.Total.NameCff.decode`, `.utf16Decode`).
-/
import SfntV.Model.TotalName
import SfntV.Proofs.TotalGdef

namespace SfntV.Total.NameCff
open SfntV SfntV.Total
open SfntV.Total.Gdef (idx_ok ok_bind pure_bind' bind_noPanic bind_eq_ok w16_ok w16_lt)

/-! ## helpers -/

theorem slice_ok (site : String) (xs : List α) (a b : Nat) (h : a ≤ b ∧ b ≤ xs.length) :
    slice site xs a b = .ok ((xs.drop a).take (b - a)) := by
  unfold slice
  rw [if_pos h]

theorem slice_len {site : String} {xs : List α} {a b : Nat} {s : List α}
    (h : slice site xs a b = .ok s) : s.length = b - a ∧ a ≤ b ∧ b ≤ xs.length := by
  unfold slice at h
  split at h
  · rename_i hc
    cases h
    refine ⟨?_, hc⟩
    rw [List.length_take, List.length_drop]
    omega
  · cases h

/-! ## `utf16Decode` -/

theorem u16words_ok (buf : Bytes) : ∀ (k i : Nat), i + 2 * k ≤ buf.length →
    ∃ ws, u16words buf k i = .ok ws ∧ ws.length = k
  | 0, _, _ => ⟨[], rfl, rfl⟩
  | k+1, i, h => by
    unfold u16words
    rw [idx_ok _ buf i (by omega), ok_bind, idx_ok _ buf (i + 1) (by omega), ok_bind]
    obtain ⟨ws, hws, hl⟩ := u16words_ok buf k (i + 2) (by omega)
    rw [hws, ok_bind]
    exact ⟨_, rfl, by simp [hl]⟩

theorem utf16DecodeUnits_length_le : ∀ (ws : List Nat), (Names.utf16DecodeUnits ws).length ≤ ws.length
  | [] => Nat.le_refl _
  | [u] => by simp [Names.utf16DecodeUnits]
  | u :: v :: rest => by
    have h1 := utf16DecodeUnits_length_le (v :: rest)
    have h2 := utf16DecodeUnits_length_le rest
    unfold Names.utf16DecodeUnits
    split
    · simp only [List.length_cons] at h1 ⊢; omega
    · split
      · simp only [List.length_cons] at h2 ⊢; omega
      · simp only [List.length_cons] at h1 ⊢; omega

/-- `name.utf16Decode` returns a value for EVERY byte string (odd lengths included), at a cost of
at most `|buf|` steps and `|buf|` allocated elements. -/
theorem utf16Decode_total (buf : Bytes) :
    ∃ rr c, utf16Decode buf = .ok (rr, c) ∧ buf.length / 2 ≤ c.steps ∧ c.steps ≤ buf.length ∧
      buf.length / 2 ≤ c.alloc ∧ c.alloc ≤ buf.length := by
  obtain ⟨ws, hws, hl⟩ := u16words_ok buf (buf.length / 2) 0 (by omega)
  unfold utf16Decode
  rw [hws, ok_bind]
  refine ⟨_, _, rfl, ?_, ?_, ?_, ?_⟩ <;>
  · have := utf16DecodeUnits_length_le ws
    simp only [List.length_map]
    omega

theorem utf16Decode_noPanic (buf : Bytes) : (utf16Decode buf).noPanic := by
  obtain ⟨rr, c, h, _⟩ := utf16Decode_total buf
  rw [h]
  exact True.intro

/-! ## the record loop -/

theorem recLoop_noPanic (apple ms : Nat → String) (mac : UInt8 → Nat) (data : Bytes) (so : Nat) :
    ∀ (fuel i : Nat) (acc : List Names.Entry) (c : Cost), 6 + 12 * (i + fuel) ≤ data.length →
      (recLoop apple ms mac data so fuel i acc c).noPanic
  | 0, _, _, _, _ => True.intro
  | fuel+1, i, acc, c, h => by
    unfold recLoop
    dsimp only
    obtain ⟨v1, h1, _⟩ := w16_ok "name.go:81#data[pos],data[pos+1]" data (6 + i * 12) (by omega)
    obtain ⟨v2, h2, _⟩ := w16_ok "name.go:82#data[pos+2],data[pos+3]" data (6 + i * 12 + 2) (by omega)
    obtain ⟨v3, h3, _⟩ := w16_ok "name.go:83#data[pos+4],data[pos+5]" data (6 + i * 12 + 4) (by omega)
    obtain ⟨v4, h4, _⟩ := w16_ok "name.go:84#data[pos+6],data[pos+7]" data (6 + i * 12 + 6) (by omega)
    obtain ⟨v5, h5, _⟩ := w16_ok "name.go:85#data[pos+8],data[pos+9]" data (6 + i * 12 + 8) (by omega)
    obtain ⟨v6, h6, _⟩ := w16_ok "name.go:86#data[pos+10],data[pos+11]" data (6 + i * 12 + 10) (by omega)
    rw [h1, ok_bind, h2, ok_bind, h3, ok_bind, h4, ok_bind, h5, ok_bind, h6, ok_bind]
    have ih := fun acc c => recLoop_noPanic apple ms mac data so fuel (i + 1) acc c (by omega)
    generalize (if v1 = 1 then apple v3 else if v1 = 3 then ms v3 else "") = key
    split
    · exact ih _ _
    split
    · exact True.intro
    rename_i hle
    rw [slice_ok _ _ _ _ ⟨by omega, by omega⟩, ok_bind]
    refine bind_noPanic ?_ (fun ⟨val, c'⟩ _ => ?_)
    · split
      · exact bind_noPanic (utf16Decode_noPanic _) (fun _ _ => True.intro)
      · split <;> exact True.intro
    dsimp only
    split
    · exact ih _ _
    · exact ih _ _

/-- cost of the record loop: every record costs one step plus at most `min 65535 |data|` steps
(its string is decoded again even when another record already pointed at the same bytes) -/
theorem recLoop_cost (apple ms : Nat → String) (mac : UInt8 → Nat) (data : Bytes) (so : Nat) :
    ∀ (fuel i : Nat) (acc : List Names.Entry) (c : Cost) (r : List Names.Entry) (c' : Cost),
      recLoop apple ms mac data so fuel i acc c = .ok (r, c') →
      c'.steps ≤ c.steps + fuel * (1 + min 65535 data.length) ∧
      c'.alloc ≤ c.alloc + fuel * (3 + 2 * min 65535 data.length)
  | 0, _, _, c, r, c', h => by
    unfold recLoop at h
    cases h
    simp
  | fuel+1, i, acc, c, r, c', h => by
    unfold recLoop at h
    dsimp only at h
    obtain ⟨v1, _, h⟩ := bind_eq_ok h
    obtain ⟨v2, _, h⟩ := bind_eq_ok h
    obtain ⟨v3, _, h⟩ := bind_eq_ok h
    obtain ⟨v4, _, h⟩ := bind_eq_ok h
    obtain ⟨nameLen, h5, h⟩ := bind_eq_ok h
    obtain ⟨v6, _, h⟩ := bind_eq_ok h
    have hnl := w16_lt h5
    rw [Nat.succ_mul, Nat.succ_mul]
    have ih := fun acc c h => recLoop_cost apple ms mac data so fuel (i + 1) acc c r c' h
    generalize (if v1 = 1 then apple v3 else if v1 = 3 then ms v3 else "") = key at h
    split at h
    · have := ih _ _ h
      simp only [Cost.tick] at this
      omega
    split at h
    · cases h
    rename_i hle
    obtain ⟨nb, hnb, h⟩ := bind_eq_ok h
    obtain ⟨hnbl, _, _⟩ := slice_len hnb
    have hnb1 : nb.length ≤ min 65535 data.length := by
      rw [hnbl]; omega
    obtain ⟨⟨val, c1⟩, hv, h⟩ := bind_eq_ok h
    have k1 : c1.steps ≤ c.steps + 1 + nb.length ∧ c1.alloc ≤ c.alloc + 2 * nb.length := by
      split at hv
      · obtain ⟨⟨v, d⟩, hd, hv⟩ := bind_eq_ok hv
        obtain ⟨rr, c0, h0, _, hs, _, ha⟩ := utf16Decode_total nb
        rw [h0] at hd
        cases hd
        cases hv
        simp only [addCost, Cost.tick]
        omega
      · split at hv
        · cases hv
          simp only [addCost, Cost.tick, macDecode]
          omega
        · cases hv
          simp only [Cost.tick]
          omega
    dsimp only at h
    split at h
    · have := ih _ _ h
      omega
    · have := ih _ _ h
      simp only [Cost.mem] at this
      omega

/-! ## `name.Decode` -/

theorem decode_noPanic (apple ms : Nat → String) (mac : UInt8 → Nat) (data : Bytes) :
    (decode apple ms mac data).noPanic := by
  unfold decode
  split
  · exact True.intro
  obtain ⟨version, hv, _⟩ := w16_ok "name.go:48#data[0],data[1]" data 0 (by omega)
  obtain ⟨numRec, hn, _⟩ := w16_ok "name.go:49#data[2],data[3]" data 2 (by omega)
  obtain ⟨so, hs, _⟩ := w16_ok "name.go:50#data[4],data[5]" data 4 (by omega)
  rw [hv, ok_bind, hn, ok_bind, hs, ok_bind]
  dsimp only
  split
  · exact True.intro
  split
  · exact True.intro
  rename_i hle
  refine bind_noPanic ?_ (fun ⟨eoh, c⟩ _ => ?_)
  · split
    · split
      · exact True.intro
      · obtain ⟨nl, hnl, _⟩ := w16_ok "name.go:68#data[endOfHeader],data[endOfHeader+1]" data
          (6 + 12 * numRec) (by omega)
        rw [hnl]
        exact True.intro
    · exact True.intro
  dsimp only
  split
  · exact True.intro
  · exact recLoop_noPanic apple ms mac data so numRec 0 [] _ (by omega)

/-- what a successful decode says about the header: the record count is bounded by the data AND
by 5460 (the 16-bit `storageOffset` lies behind the records) -/
theorem decode_cost (apple ms : Nat → String) (mac : UInt8 → Nat) (data : Bytes)
    (r : List Names.Entry) (c : Cost) (h : decode apple ms mac data = .ok (r, c)) :
    c.steps ≤ 2 + min (data.length / 12) 5460 * (1 + min 65535 data.length) ∧
    c.alloc ≤ 2 + min (data.length / 12) 5460 * (3 + 2 * min 65535 data.length) := by
  unfold decode at h
  split at h
  · cases h
  obtain ⟨version, _, h⟩ := bind_eq_ok h
  obtain ⟨numRec, _, h⟩ := bind_eq_ok h
  obtain ⟨so, hso, h⟩ := bind_eq_ok h
  have hsolt := w16_lt hso
  dsimp only at h
  split at h
  · cases h
  split at h
  · cases h
  rename_i hle
  obtain ⟨⟨eoh, c1⟩, h1, h⟩ := bind_eq_ok h
  have k1 : 6 + 12 * numRec ≤ eoh ∧ c1.steps ≤ 2 ∧ c1.alloc = 0 := by
    split at h1
    · split at h1
      · cases h1
      · obtain ⟨nl, _, h1⟩ := bind_eq_ok h1
        cases h1
        exact ⟨by omega, by simp only [Cost.tick, Cost.zero]; omega, rfl⟩
    · cases h1
      exact ⟨by omega, by simp only [Cost.tick, Cost.zero]; omega, rfl⟩
  dsimp only at h
  split at h
  · cases h
  rename_i hso2
  obtain ⟨ks, ka⟩ := recLoop_cost apple ms mac data so numRec 0 [] _ r c h
  simp only [Cost.mem] at ks ka
  have hn : numRec ≤ min (data.length / 12) 5460 := by omega
  have m1 := Nat.mul_le_mul_right (1 + min 65535 data.length) hn
  have m2 := Nat.mul_le_mul_right (3 + 2 * min 65535 data.length) hn
  omega

/-! ## the aliasing witness -/

theorem flat_len (r : Bytes) (m : Nat) (hm : r.length = m) : ∀ n, (List.replicate n r).flatten.length = n * m
  | 0 => by simp
  | n+1 => by rw [List.replicate_succ, List.flatten_cons, List.length_append, flat_len r m hm n, hm, Nat.succ_mul]; omega

theorem flat_get (r : Bytes) (m : Nat) (hm : r.length = m) : ∀ (n j : Nat), j < n * m →
    (List.replicate n r).flatten[j]? = r[j % m]?
  | 0, j, h => by omega
  | n+1, j, h => by
    rw [Nat.succ_mul] at h
    rw [List.replicate_succ, List.flatten_cons]
    by_cases hj : j < m
    · rw [List.getElem?_append_left (by omega), Nat.mod_eq_of_lt hj]
    · rw [List.getElem?_append_right (by omega), hm, flat_get r m hm n (j - m) (by omega),
        ← Nat.mod_eq_sub_mod (by omega)]

theorem advRec_length (L : Nat) : (advRec L).length = 12 := rfl

theorem advName_length (n L : Nat) : (advName n L).length = 6 + 12 * n + L := by
  unfold advName
  rw [List.length_append, List.length_append, flat_len _ 12 (advRec_length L), List.length_replicate]
  show 6 + n * 12 + L = _
  omega

theorem adv_get (n L j : Nat) (h : j < n * 12) : (advName n L)[6 + j]? = (advRec L)[j % 12]? := by
  unfold advName
  have hH : ([0, 0] ++ be16 n ++ be16 (6 + 12 * n) : Bytes).length = 6 := rfl
  have hF := flat_len _ 12 (advRec_length L) n
  rw [List.getElem?_append_left (by rw [List.length_append, hH, hF]; omega),
    List.getElem?_append_right (by rw [hH]; omega), hH, Nat.add_sub_cancel_left]
  exact flat_get _ 12 (advRec_length L) n j h

theorem w16_adv (site : String) (n L i k : Nat) (hi : i < n) (hk : k + 1 < 12) :
    w16 site (advName n L) (6 + i * 12 + k) = w16 site (advRec L) k := by
  unfold w16 idx
  have h1 : (i * 12 + k) % 12 = k := by omega
  have h2 : (i * 12 + k + 1) % 12 = k + 1 := by omega
  rw [show 6 + i * 12 + k = 6 + (i * 12 + k) by omega, show 6 + (i * 12 + k) + 1 = 6 + (i * 12 + k + 1) by omega,
    adv_get n L _ (by omega), adv_get n L _ (by omega), h1, h2]

theorem adv_storage (n L : Nat) : ((advName n L).drop (6 + 12 * n)).take L = List.replicate L 0x41 := by
  have hl : ([0, 0] ++ be16 n ++ be16 (6 + 12 * n) ++ (List.replicate n (advRec L)).flatten : Bytes).length
      = 6 + 12 * n := by
    rw [List.length_append, flat_len _ 12 (advRec_length L)]
    show 6 + n * 12 = _
    omega
  unfold advName
  rw [List.drop_left' hl, List.take_of_length_le (by simp)]

theorem adv_loop (apple ms : Nat → String) (mac : UInt8 → Nat) (n L : Nat) (hL : L < 65536)
    (hms : ms 0x409 ≠ "") :
    ∀ (fuel i : Nat) (acc : List Names.Entry) (c : Cost), i + fuel ≤ n →
      ∃ r c', recLoop apple ms mac (advName n L) (6 + 12 * n) fuel i acc c = .ok (r, c') ∧
        c.steps + fuel * (1 + L / 2) ≤ c'.steps ∧ c.alloc + fuel * (L / 2) ≤ c'.alloc
  | 0, _, acc, c, _ => ⟨acc, c, rfl, by simp, by simp⟩
  | fuel+1, i, acc, c, h => by
    have hbe : (UInt8.ofNat (L / 256 % 256)).toNat * 256 + (UInt8.ofNat (L % 256)).toNat = L := by
      simp only [UInt8.toNat_ofNat']; omega
    have e1 : w16 "name.go:81#data[pos],data[pos+1]" (advRec L) 0 = .ok 3 := rfl
    have e2 : w16 "name.go:82#data[pos+2],data[pos+3]" (advRec L) 2 = .ok 1 := rfl
    have e3 : w16 "name.go:83#data[pos+4],data[pos+5]" (advRec L) 4 = .ok 0x409 := rfl
    have e4 : w16 "name.go:84#data[pos+6],data[pos+7]" (advRec L) 6 = .ok 1 := rfl
    have e5 : w16 "name.go:85#data[pos+8],data[pos+9]" (advRec L) 8 = .ok L := by
      show Outcome.ok (be _ _) = _
      unfold be
      rw [hbe]
    have e6 : w16 "name.go:86#data[pos+10],data[pos+11]" (advRec L) 10 = .ok 0 := rfl
    unfold recLoop
    dsimp only
    rw [show 6 + i * 12 = 6 + i * 12 + 0 from rfl, w16_adv _ n L i 0 (by omega) (by omega), e1, ok_bind,
      show 6 + i * 12 + 0 + 2 = 6 + i * 12 + 2 from rfl, w16_adv _ n L i 2 (by omega) (by omega), e2, ok_bind,
      show 6 + i * 12 + 0 + 4 = 6 + i * 12 + 4 from rfl, w16_adv _ n L i 4 (by omega) (by omega), e3, ok_bind,
      show 6 + i * 12 + 0 + 6 = 6 + i * 12 + 6 from rfl, w16_adv _ n L i 6 (by omega) (by omega), e4, ok_bind,
      show 6 + i * 12 + 0 + 8 = 6 + i * 12 + 8 from rfl, w16_adv _ n L i 8 (by omega) (by omega), e5, ok_bind,
      show 6 + i * 12 + 0 + 10 = 6 + i * 12 + 10 from rfl, w16_adv _ n L i 10 (by omega) (by omega), e6, ok_bind]
    have hkey : (if (3 : Nat) = 1 then apple 0x409 else if (3 : Nat) = 3 then ms 0x409 else "") = ms 0x409 := by
      simp
    rw [hkey, if_neg hms, if_neg (by rw [advName_length]; omega),
      slice_ok _ _ _ _ ⟨by omega, by rw [advName_length]; omega⟩, ok_bind,
      show 6 + 12 * n + 0 + L - (6 + 12 * n + 0) = L by omega, show 6 + 12 * n + 0 = 6 + 12 * n from rfl,
      adv_storage]
    obtain ⟨rr, c0, h0, hs0, _, ha0, _⟩ := utf16Decode_total (List.replicate L 0x41)
    rw [List.length_replicate] at hs0 ha0
    rw [if_pos (by simp), h0, ok_bind, pure_bind']
    dsimp only
    rw [Nat.succ_mul fuel (1 + L / 2), Nat.succ_mul fuel (L / 2)]
    split
    · obtain ⟨r, c', hr, h1, h2⟩ := adv_loop apple ms mac n L hL hms fuel (i + 1) acc (addCost c.tick c0) (by omega)
      refine ⟨r, c', hr, ?_, ?_⟩ <;> simp only [addCost, Cost.tick] at h1 h2 <;> omega
    · obtain ⟨r, c', hr, h1, h2⟩ := adv_loop apple ms mac n L hL hms fuel (i + 1) _ ((addCost c.tick c0).mem 3) (by omega)
      refine ⟨r, c', hr, ?_, ?_⟩ <;> simp only [addCost, Cost.tick, Cost.mem] at h1 h2 <;> omega

/-- The aliasing finding: `n` records pointing at the SAME `L` storage bytes are each decoded
again.  On `advName n L` (`6 + 12·n + L` bytes) `name.Decode` succeeds after at least
`n·(1 + L/2)` steps and `n·(L/2)` allocated elements. -/
theorem decode_adv (apple ms : Nat → String) (mac : UInt8 → Nat) (n L : Nat) (hn : n ≤ 5460)
    (hL : L < 65536) (hms : ms 0x409 ≠ "") :
    ∃ r c, decode apple ms mac (advName n L) = .ok (r, c) ∧ n * (1 + L / 2) ≤ c.steps ∧
      n * (L / 2) ≤ c.alloc ∧ (advName n L).length = 6 + 12 * n + L := by
  have hlen := advName_length n L
  have hbe : ∀ v, v < 65536 → (UInt8.ofNat (v / 256 % 256)).toNat * 256 + (UInt8.ofNat (v % 256)).toNat = v := by
    intro v hv
    simp only [UInt8.toNat_ofNat']; omega
  have e1 : w16 "name.go:48#data[0],data[1]" (advName n L) 0 = .ok 0 := rfl
  have e2 : w16 "name.go:49#data[2],data[3]" (advName n L) 2 = .ok n := by
    show Outcome.ok (be _ _) = _
    unfold be
    rw [hbe n (by omega)]
  have e3 : w16 "name.go:50#data[4],data[5]" (advName n L) 4 = .ok (6 + 12 * n) := by
    show Outcome.ok (be _ _) = _
    unfold be
    rw [hbe _ (by omega)]
  obtain ⟨r, c', hr, h1, h2⟩ := adv_loop apple ms mac n L hL hms n 0 [] ((Cost.zero.tick).mem 2) (by omega)
  refine ⟨r, c', ?_, by omega, by omega, hlen⟩
  unfold decode
  rw [if_neg (by omega), e1, ok_bind, e2, ok_bind, e3, ok_bind]
  dsimp only
  rw [if_neg (by omega), if_neg (by omega), if_neg (by omega), pure_bind']
  dsimp only
  rw [if_neg (by omega)]
  exact hr

/-- … hence no bound `steps ≤ 4096·|b| + 2^24` holds for `name.Decode` (witness: 5460 records on
one 65534-byte string: 131 060 bytes, more than 178 million steps). -/
theorem decode_steps_not_linear (apple ms : Nat → String) (mac : UInt8 → Nat) (hms : ms 0x409 ≠ "") :
    ¬ ∀ b r c, decode apple ms mac b = .ok (r, c) → c.steps ≤ 1024 * b.length + 16777216 := by
  intro h
  obtain ⟨r, c, hd, hs, _, hl⟩ := decode_adv apple ms mac 5460 65534 (by omega) (by omega) hms
  have := h _ r c hd
  rw [hl] at this
  omega


/-! ## non-vacuity -/

/-- one Windows/Unicode/en-US record (name id 1) with the 2-byte string "A": 4 steps, 7 objects -/
example : decode (fun _ => "") (fun l => if l = 0x409 then "en-US" else "") (fun _ => 0)
    [0,0, 0,1, 0,18,  0,3, 0,1, 4,9, 0,1, 0,2, 0,0,  0,0x41]
    = .ok ([⟨3, "en-US", 1, [0x41]⟩], ⟨4, 7⟩) := by decide +kernel

/-- a record with an unknown language is skipped BEFORE its bounds are looked at -/
example : decode (fun _ => "") (fun _ => "") (fun _ => 0)
    [0,0, 0,1, 0,18,  0,3, 0,1, 4,9, 0,1, 0xFF,0xFF, 0xFF,0xFF] = .ok ([], ⟨2, 2⟩) := by decide +kernel

/-- a surrogate pair and an ignored trailing odd byte -/
example : utf16Decode [0xD8,0x3D, 0xDE,0x00, 0x41] = .ok ([0x1F600], ⟨3, 3⟩) := by decide +kernel

/-- a lone low surrogate becomes U+FFFD -/
example : utf16Decode [0xDE,0x00] = .ok ([0xFFFD], ⟨2, 2⟩) := by decide +kernel

/-- the witness with 3 records on an 8-byte string: 50 bytes -/
example : ∃ r c, decode (fun _ => "") (fun l => if l = 0x409 then "en-US" else "") (fun _ => 0) (advName 3 8)
    = .ok (r, c) ∧ 15 ≤ c.steps ∧ (advName 3 8).length = 50 := by
  obtain ⟨r, c, h, hs, _, hl⟩ := decode_adv (fun _ => "") (fun l => if l = 0x409 then "en-US" else "")
    (fun _ => 0) 3 8 (by omega) (by omega) (by decide)
  exact ⟨r, c, h, by omega, by omega⟩

/-! ## agreement with the value-level model of C14 (`SfntV.Names.nameDecodeWith`) -/

/-- the bytes as numbers (the C14 models work on `List Nat`) -/
abbrev nat (b : Bytes) : List Nat := b.map UInt8.toNat

/-- forget the cost; C14 has one failure value (`errMalformedNames`) -/
def toOpt : Outcome (α × Cost) → Option α
  | .ok (a, _) => some a
  | _ => none

theorem nat_length (b : Bytes) : (nat b).length = b.length := List.length_map _

theorem w16_get (site : String) (data : Bytes) (i : Nat) (h : i + 1 < data.length) :
    w16 site data i = .ok (data[i].toNat * 256 + data[i + 1].toNat) := by
  unfold w16
  rw [idx_ok _ data i (by omega), ok_bind, idx_ok _ data (i + 1) h, ok_bind]
  rfl

theorem nat_getD (data : Bytes) (i : Nat) (h : i < data.length) : (nat data).getD i 0 = data[i].toNat := by
  unfold nat
  rw [List.getD_eq_getElem?_getD, List.getElem?_map, List.getElem?_eq_getElem h]
  rfl

theorem u16words_eq (buf : Bytes) : ∀ (k i : Nat), (buf.length - i) / 2 = k → i ≤ buf.length →
    u16words buf k i = .ok (Names.wordsOfBytes (nat (buf.drop i)))
  | 0, i, hk, hi => by
    have hl : (buf.drop i).length ≤ 1 := by rw [List.length_drop]; omega
    unfold u16words
    match hd : buf.drop i, hl with
    | [], _ => rfl
    | [x], _ => rfl
  | k+1, i, hk, hi => by
    unfold u16words
    rw [idx_ok _ buf i (by omega), ok_bind, idx_ok _ buf (i + 1) (by omega), ok_bind,
      u16words_eq buf k (i + 2) (by omega) (by omega), ok_bind,
      List.drop_eq_getElem_cons (by omega : i < buf.length),
      List.drop_eq_getElem_cons (by omega : i + 1 < buf.length)]
    rfl

theorem utf16Decode_eq (buf : Bytes) :
    ∃ c, utf16Decode buf = .ok (Names.utf16Decode (nat buf), c) := by
  unfold utf16Decode Names.utf16Decode
  rw [u16words_eq buf (buf.length / 2) 0 (by omega) (by omega), ok_bind, List.drop_zero]
  exact ⟨_, rfl⟩

theorem drop12 (l : List Nat) (p : Nat) (h : p + 12 ≤ l.length) :
    l.drop p = l[p] :: l[p+1] :: l[p+2] :: l[p+3] :: l[p+4] :: l[p+5] :: l[p+6] :: l[p+7] :: l[p+8]
      :: l[p+9] :: l[p+10] :: l[p+11] :: l.drop (p + 12) := by
  rw [List.drop_eq_getElem_cons (by omega : p < l.length),
    List.drop_eq_getElem_cons (by omega : p + 1 < l.length),
    List.drop_eq_getElem_cons (by omega : p + 1 + 1 < l.length),
    List.drop_eq_getElem_cons (by omega : p + 1 + 1 + 1 < l.length),
    List.drop_eq_getElem_cons (by omega : p + 1 + 1 + 1 + 1 < l.length),
    List.drop_eq_getElem_cons (by omega : p + 1 + 1 + 1 + 1 + 1 < l.length),
    List.drop_eq_getElem_cons (by omega : p + 1 + 1 + 1 + 1 + 1 + 1 < l.length),
    List.drop_eq_getElem_cons (by omega : p + 1 + 1 + 1 + 1 + 1 + 1 + 1 < l.length),
    List.drop_eq_getElem_cons (by omega : p + 1 + 1 + 1 + 1 + 1 + 1 + 1 + 1 < l.length),
    List.drop_eq_getElem_cons (by omega : p + 1 + 1 + 1 + 1 + 1 + 1 + 1 + 1 + 1 < l.length),
    List.drop_eq_getElem_cons (by omega : p + 1 + 1 + 1 + 1 + 1 + 1 + 1 + 1 + 1 + 1 < l.length),
    List.drop_eq_getElem_cons (by omega : p + 1 + 1 + 1 + 1 + 1 + 1 + 1 + 1 + 1 + 1 + 1 < l.length)]

theorem nat_get (data : Bytes) (i : Nat) (h : i < (nat data).length) :
    (nat data)[i] = (data[i]'(by rw [nat_length] at h; exact h)).toNat := by
  exact List.getElem_map ..

set_option maxRecDepth 16384 in
/-- the record loop against `decodeLoop ∘ parseRecs` -/
theorem recLoop_opt (apple ms : List (Nat × String)) (mac : UInt8 → Nat)
    (hmac : ∀ c, mac c = Names.fixRune (Names.macDecodeOne Gen.macDec c.toNat)) (data : Bytes) (so : Nat) :
    ∀ (fuel i : Nat) (acc : List Names.Entry) (c : Cost), 6 + 12 * (i + fuel) ≤ data.length →
      toOpt (recLoop (Names.langGet apple) (Names.langGet ms) mac data so fuel i acc c)
        = Names.decodeLoop apple ms (nat data) so (Names.parseRecs fuel ((nat data).drop (6 + i * 12))) acc
  | 0, i, acc, c, _ => by
    unfold recLoop Names.parseRecs
    cases (nat data).drop (6 + i * 12) <;> rfl
  | fuel+1, i, acc, c, h => by
    have hl := nat_length data
    have ih := fun acc c => recLoop_opt apple ms mac hmac data so fuel (i + 1) acc c (by omega)
    rw [show 6 + (i + 1) * 12 = 6 + i * 12 + 12 by omega] at ih
    rw [drop12 (nat data) (6 + i * 12) (by omega)]
    unfold recLoop
    dsimp only
    rw [w16_get _ data (6 + i * 12) (by omega), ok_bind, w16_get _ data (6 + i * 12 + 2) (by omega), ok_bind,
      w16_get _ data (6 + i * 12 + 4) (by omega), ok_bind, w16_get _ data (6 + i * 12 + 6) (by omega), ok_bind,
      w16_get _ data (6 + i * 12 + 8) (by omega), ok_bind, w16_get _ data (6 + i * 12 + 10) (by omega), ok_bind]
    simp only [Names.parseRecs, nat_get]
    unfold Names.decodeLoop
    generalize data[6 + i * 12].toNat * 256 + data[6 + i * 12 + 1].toNat = v1
    generalize data[6 + i * 12 + 2].toNat * 256 + data[6 + i * 12 + 2 + 1].toNat = v2
    generalize data[6 + i * 12 + 4].toNat * 256 + data[6 + i * 12 + 4 + 1].toNat = v3
    generalize data[6 + i * 12 + 6].toNat * 256 + data[6 + i * 12 + 6 + 1].toNat = v4
    generalize data[6 + i * 12 + 8].toNat * 256 + data[6 + i * 12 + 8 + 1].toNat = v5
    generalize data[6 + i * 12 + 10].toNat * 256 + data[6 + i * 12 + 10 + 1].toNat = v6
    unfold Names.decodeRec
    dsimp only
    generalize (if v1 = 1 then Names.langGet apple v3 else if v1 = 3 then Names.langGet ms v3 else "") = key
    by_cases hk : key = ""
    · rw [if_pos hk, if_pos hk]
      exact ih _ _
    rw [if_neg hk, if_neg hk]
    by_cases hb : so + v6 + v5 > data.length
    · rw [if_pos hb, if_pos (by rw [hl]; exact hb)]
      rfl
    rw [if_neg hb, if_neg (by rw [hl]; exact hb), slice_ok _ _ _ _ ⟨by omega, by omega⟩, ok_bind,
      show so + v6 + v5 - (so + v6) = v5 by omega]
    have hbytes : List.take v5 (List.drop (so + v6) (nat data)) = nat (List.take v5 (List.drop (so + v6) data)) := by
      unfold nat
      rw [List.map_take, List.map_drop]
    rw [hbytes]
    generalize List.take v5 (List.drop (so + v6) data) = nb
    by_cases hu : v1 = 3 ∧ (v2 = 1 ∨ v2 = 10)
    · obtain ⟨c0, hc0⟩ := utf16Decode_eq nb
      rw [if_pos hu, if_pos hu, hc0, ok_bind, pure_bind']
      dsimp only
      split
      · exact ih _ _
      · exact ih _ _
    rw [if_neg hu, if_neg hu]
    by_cases hm : v1 = 1 ∧ v2 = 0
    · rw [if_pos hm, if_pos hm, pure_bind']
      have hmd : (macDecode mac nb).1 = Names.macDecode (nat nb) := by
        unfold macDecode Names.macDecode Names.macDecodeWith nat
        rw [List.map_map]
        exact List.map_congr_left (fun c _ => hmac c)
      dsimp only
      rw [hmd]
      split
      · exact ih _ _
      · exact ih _ _
    · rw [if_neg hm, if_neg hm, pure_bind']
      dsimp only
      rw [if_pos rfl, if_pos rfl]
      exact ih _ _

set_option maxRecDepth 16384 in
/-- Erasing the panic sites and the cost counters from the checked-index model of `name.Decode`
gives the value-level model of C14 on every input (same `set` calls in the same order, or the one
error), for any language tables and the Mac Roman table of C14. -/
theorem decode_erase (apple ms : List (Nat × String)) (mac : UInt8 → Nat)
    (hmac : ∀ c, mac c = Names.fixRune (Names.macDecodeOne Gen.macDec c.toNat)) (data : Bytes) :
    toOpt (decode (Names.langGet apple) (Names.langGet ms) mac data)
      = Names.nameDecodeWith apple ms (nat data) := by
  unfold decode Names.nameDecodeWith
  simp only [List.length_map]
  by_cases h6 : data.length < 6
  · simp only [if_pos h6]
    rfl
  simp only [if_neg h6]
  rw [w16_get _ data 0 (by omega), ok_bind,
    w16_get _ data 2 (by omega), ok_bind, w16_get _ data 4 (by omega), ok_bind,
    nat_getD data 0 (by omega), nat_getD data 1 (by omega), nat_getD data 2 (by omega),
    nat_getD data 3 (by omega), nat_getD data 4 (by omega), nat_getD data 5 (by omega)]
  generalize data[0].toNat * 256 + data[0 + 1].toNat = version
  generalize data[2].toNat * 256 + data[2 + 1].toNat = numRec
  generalize data[4].toNat * 256 + data[4 + 1].toNat = so
  by_cases hv : version > 1
  · simp only [if_pos hv]
    rfl
  simp only [if_neg hv]
  by_cases he : 6 + 12 * numRec > data.length
  · simp only [if_pos he]
    rfl
  simp only [if_neg he]
  by_cases hv0 : version > 0
  · by_cases he2 : 6 + 12 * numRec + 2 > data.length
    · simp only [if_pos hv0, if_pos he2, if_pos (And.intro hv0 he2)]
      rfl
    simp only [if_pos hv0, if_neg he2, if_neg (fun h : version > 0 ∧ 6 + 12 * numRec + 2 > data.length => he2 h.2)]
    rw [w16_get _ data (6 + 12 * numRec) (by omega), ok_bind, pure_bind',
      nat_getD data _ (by omega), nat_getD data _ (by omega)]
    dsimp only
    split
    · rfl
    · rw [recLoop_opt apple ms mac hmac data so numRec 0 [] _ (by omega)]
  · simp only [if_neg hv0, if_neg (fun h : version > 0 ∧ 6 + 12 * numRec + 2 > data.length => hv0 h.1), pure_bind']
    split
    · rfl
    · rw [recLoop_opt apple ms mac hmac data so numRec 0 [] _ (by omega)]

/-- the instance the driver runs: the regenerated language tables and Mac Roman table -/
theorem decode_erase_gen (data : Bytes) :
    toOpt (decode (Names.langGet Gen.appleBCP) (Names.langGet Gen.msBCP)
      (fun c => Names.fixRune (Names.macDecodeByte c.toNat)) data) = Names.nameDecode (nat data) :=
  decode_erase Gen.appleBCP Gen.msBCP _ (fun _ => rfl) data

/-- `name.utf16Decode`: the checked-index model computes the C14 function on every byte string -/
theorem utf16Decode_erase (buf : Bytes) : toOpt (utf16Decode buf) = some (Names.utf16Decode (nat buf)) := by
  obtain ⟨c, h⟩ := utf16Decode_eq buf
  rw [h]
  rfl

/-! ## the names used by Props/C02 -/

theorem nameDecode_noPanic (apple ms : Nat → String) (mac : UInt8 → Nat) (data : Bytes) :
    (decode apple ms mac data).noPanic := decode_noPanic apple ms mac data

theorem nameDecode_cost (apple ms : Nat → String) (mac : UInt8 → Nat) (data : Bytes)
    (r : List Names.Entry) (c : Cost) (h : decode apple ms mac data = .ok (r, c)) :
    c.steps ≤ 2 + min (data.length / 12) 5460 * (1 + min 65535 data.length) ∧
    c.alloc ≤ 2 + min (data.length / 12) 5460 * (3 + 2 * min 65535 data.length) :=
  decode_cost apple ms mac data r c h

theorem nameDecode_witness (apple ms : Nat → String) (mac : UInt8 → Nat) (n L : Nat) (hn : n ≤ 5460)
    (hL : L < 65536) (hms : ms 0x409 ≠ "") :
    ∃ r c, decode apple ms mac (advName n L) = .ok (r, c) ∧ n * (1 + L / 2) ≤ c.steps ∧
      n * (L / 2) ≤ c.alloc ∧ (advName n L).length = 6 + 12 * n + L :=
  decode_adv apple ms mac n L hn hL hms

theorem nameDecode_erase (apple ms : List (Nat × String)) (mac : UInt8 → Nat)
    (hmac : ∀ c, mac c = Names.fixRune (Names.macDecodeOne Gen.macDec c.toNat)) (data : Bytes) :
    toOpt (decode (Names.langGet apple) (Names.langGet ms) mac data)
      = Names.nameDecodeWith apple ms (nat data) := decode_erase apple ms mac hmac data

end SfntV.Total.NameCff
