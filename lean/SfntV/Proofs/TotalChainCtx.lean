/-
C02 (decoders are total), group `chainctx`: `readChainedSeqContext1/2/3` never panic — all bytes,
all positions, no hypothesis.  The only data-dependent panic sites reachable from them are the two
in `coverage.Table.encInfo` (`rev[i] = gid`, `panic("invalid coverage table")`), excluded by the
invariant `CovOk` of what `coverage.Read` returns (kept by `Prune`).
-/
import SfntV.Proofs.TotalChainCtxA

namespace SfntV.Total.ChainCtx
open SfntV SfntV.Total SfntV.Total.Gdef SfntV.Total.Otl

/-! ## what `coverage.Read` returns: glyph `gs[i]` ↦ index `i`, `gs` strictly increasing -/

/-- a decoded coverage table is well formed -/
def CovOk (cov : List (Nat × Nat)) : Prop := ∃ gs : List Nat, gs.Pairwise (· < ·) ∧ cov = gs.zipIdx

theorem zipIdx_snoc (gs : List Nat) (g : Nat) : (gs ++ [g]).zipIdx = gs.zipIdx ++ [(g, gs.length)] := by
  rw [List.zipIdx_append]
  simp

theorem covLoop1_inv (b : Bytes) : ∀ (n q i : Nat) (prev : Int) (acc : List (Nat × Nat)) (c : Cost)
    (r : List (Nat × Nat)) (c' : Cost), covLoop1 b n q i prev acc c = .ok (r, c') →
    ∀ gs : List Nat, acc.reverse = gs.zipIdx → i = gs.length → gs.Pairwise (· < ·) →
      (∀ g ∈ gs, (g : Int) ≤ prev) → CovOk r
  | 0, _, _, _, acc, c, r, c', h, gs, hacc, _, hp, _ => by
    unfold covLoop1 at h
    cases h
    exact ⟨gs, hp, hacc⟩
  | n+1, q, i, prev, acc, c, r, c', h, gs, hacc, hi, hp, hle => by
    unfold covLoop1 at h
    obtain ⟨gid, _, h⟩ := bind_eq_ok h
    split at h
    · cases h
    rename_i hgt
    refine covLoop1_inv b n _ _ _ _ _ _ _ h (gs ++ [gid]) ?_ ?_ ?_ ?_
    · rw [List.reverse_cons, hacc, zipIdx_snoc, hi]
    · simp [hi]
    · rw [List.pairwise_append]
      refine ⟨hp, List.pairwise_singleton _ _, ?_⟩
      intro a ha x hx
      simp only [List.mem_singleton] at hx
      subst hx
      have := hle a ha
      omega
    · intro g hg
      simp only [List.mem_append, List.mem_singleton] at hg
      rcases hg with hg | hg
      · have := hle g hg
        omega
      · subst hg; omega

theorem covLoop2_inv (b : Bytes) : ∀ (n q pos : Nat) (prev : Int) (acc : List (Nat × Nat)) (c : Cost)
    (r : List (Nat × Nat)) (c' : Cost), covLoop2 b n q pos prev acc c = .ok (r, c') →
    ∀ gs : List Nat, acc.reverse = gs.zipIdx → pos = gs.length → gs.Pairwise (· < ·) →
      (∀ g ∈ gs, (g : Int) ≤ prev) → CovOk r
  | 0, _, _, _, acc, c, r, c', h, gs, hacc, _, hp, _ => by
    unfold covLoop2 at h
    cases h
    exact ⟨gs, hp, hacc⟩
  | n+1, q, pos, prev, acc, c, r, c', h, gs, hacc, hi, hp, hle => by
    unfold covLoop2 at h
    obtain ⟨buf, _, h⟩ := bind_eq_ok h
    obtain ⟨s, _, h⟩ := bind_eq_ok h
    obtain ⟨e, _, h⟩ := bind_eq_ok h
    obtain ⟨sci, _, h⟩ := bind_eq_ok h
    split at h
    · cases h
    rename_i hcond
    dsimp only at h
    refine covLoop2_inv b n _ _ _ _ _ _ _ h (gs ++ List.range' s (e + 1 - s)) ?_ ?_ ?_ ?_
    · rw [List.reverse_append, List.reverse_reverse, hacc, List.zipIdx_append, hi]
      simp
    · simp [hi]
    · rw [List.pairwise_append]
      refine ⟨hp, List.pairwise_lt_range', ?_⟩
      intro a ha x hx
      rw [List.mem_range'_1] at hx
      have := hle a ha
      omega
    · intro g hg
      simp only [List.mem_append] at hg
      rcases hg with hg | hg
      · have := hle g hg
        omega
      · rw [List.mem_range'_1] at hg
        omega

theorem coverageRead_covOk {b : Bytes} {pos : Nat} {cov : List (Nat × Nat)} {c : Cost}
    (h : coverageRead b pos = .ok (cov, c)) : CovOk cov := by
  unfold coverageRead at h
  obtain ⟨format, _, h⟩ := bind_eq_ok h
  dsimp only at h
  split at h
  · obtain ⟨n, _, h⟩ := bind_eq_ok h
    exact covLoop1_inv b n _ _ _ _ _ _ _ h [] rfl rfl List.Pairwise.nil (fun g hg => by cases hg)
  split at h
  · obtain ⟨n, _, h⟩ := bind_eq_ok h
    exact covLoop2_inv b n _ _ _ _ _ _ _ h [] rfl rfl List.Pairwise.nil (fun g hg => by cases hg)
  · cases h

/-- `EncodeLen` of a well-formed table does not panic -/
theorem covEncodeLen_ok {cov : List (Nat × Nat)} (h : CovOk cov) : ∃ n, covEncodeLen cov = .ok n := by
  obtain ⟨gs, hp, rfl⟩ := h
  unfold covEncodeLen
  have : (gs.zipIdx.map fun p => (p.1, (p.2 : Int))) = SfntV.Otl.Cov.tableOf gs := rfl
  rw [this, SfntV.Otl.Cov.revOf_table gs _ (List.Perm.refl _)]
  dsimp only
  unfold SfntV.Otl.Cov.encodeLen
  rw [SfntV.Otl.Cov.increasing_of_pairwise gs hp]
  exact ⟨_, rfl⟩

theorem filter_zipIdx_ge (gs : List Nat) : ∀ (s t : Nat), t ≤ s →
    (gs.zipIdx s).filter (fun p => decide (p.2 < t)) = [] := by
  induction gs with
  | nil => intro s t _; rfl
  | cons g gs ih =>
    intro s t hts
    rw [List.zipIdx_cons, List.filter_cons]
    have : decide (s < t) = false := by simp; omega
    simp only [this]
    exact ih (s + 1) t (by omega)

theorem filter_zipIdx_lt (gs : List Nat) : ∀ (s k : Nat),
    (gs.zipIdx s).filter (fun p => decide (p.2 < s + k)) = (gs.take k).zipIdx s := by
  induction gs with
  | nil => intro s k; simp
  | cons g gs ih =>
    intro s k
    cases k with
    | zero => exact filter_zipIdx_ge (g :: gs) s (s + 0) (by omega)
    | succ k =>
      rw [List.zipIdx_cons, List.filter_cons]
      have : decide (s < s + (k + 1)) = true := by simp
      simp only [this, if_true, List.take_succ_cons, List.zipIdx_cons]
      have := ih (s + 1) k
      rw [show s + 1 + k = s + (k + 1) by omega] at this
      rw [this]

theorem covOk_prune {cov : List (Nat × Nat)} (h : CovOk cov) (k : Nat) :
    CovOk (cov.filter (fun p => decide (p.2 < k))) := by
  obtain ⟨gs, hp, rfl⟩ := h
  refine ⟨gs.take k, hp.sublist (List.take_sublist _ _), ?_⟩
  have := filter_zipIdx_lt gs 0 k
  rw [Nat.zero_add] at this
  exact this

theorem prune1_noPanic (cov : List (Nat × Nat)) (offs : List Nat) (c : Cost) :
    (prune1 cov offs c).noPanic := by
  unfold prune1
  split
  · exact True.intro
  · unfold sliceTo
    rw [if_pos (by omega)]
    exact True.intro

theorem prune1_ok {cov : List (Nat × Nat)} {offs : List Nat} {c : Cost} {cov' : List (Nat × Nat)}
    {offs' : List Nat} {c' : Cost} (hc : CovOk cov) (h : prune1 cov offs c = .ok (cov', offs', c')) :
    CovOk cov' ∧ offs'.length ≤ offs.length ∧ cov'.length ≤ cov.length ∧
      c'.steps ≤ c.steps + 65536 ∧ c'.alloc ≤ c.alloc + 65536 := by
  unfold prune1 at h
  split at h
  · cases h
    refine ⟨covOk_prune hc _, Nat.le_refl _, List.length_filter_le _ _, ?_, ?_⟩ <;>
      simp only [Cost.tick, Cost.mem, mapLen] <;> omega
  · unfold sliceTo at h
    rw [if_pos (by omega)] at h
    cases h
    refine ⟨hc, ?_, Nat.le_refl _, by omega, by omega⟩
    simp only [List.length_take]
    omega

/-! ## format 1 -/

theorem chkIdx_ok (site : String) (i n : Nat) (h : i < n) : chkIdx site i n = .ok () := by
  unfold chkIdx
  rw [if_pos h]

theorem rulesLoop1_noPanic (b : Bytes) (base n : Nat) : ∀ (os : List Nat) (j size : Nat)
    (acc : List Rule) (c : Cost), j + os.length ≤ n → (rulesLoop1 b base n os j size acc c).noPanic
  | [], _, _, _, _, _ => True.intro
  | o :: os, j, size, acc, c, hj => by
    unfold rulesLoop1
    refine bind_noPanic (readCRule_noPanic _ _ _ _) (fun r _ => ?_)
    obtain ⟨r, c1⟩ := r
    dsimp only
    split
    · exact True.intro
    simp only [List.length_cons] at hj
    rw [chkIdx_ok _ _ _ (by omega), ok_bind]
    exact rulesLoop1_noPanic b base n os _ _ _ _ (by omega)

theorem setsLoop1_noPanic (b : Bytes) (pos n : Nat) : ∀ (os : List Nat) (i total : Nat)
    (acc : Sets) (c : Cost), i + os.length ≤ n → (setsLoop1 b pos n os i total acc c).noPanic
  | [], _, _, _, _, _ => True.intro
  | o :: os, i, total, acc, c, hi => by
    unfold setsLoop1
    simp only [List.length_cons] at hi
    split
    · exact setsLoop1_noPanic b pos n os _ _ _ _ (by omega)
    refine bind_noPanic (readSlice_noPanic _ _ _ _) (fun r hr => ?_)
    obtain ⟨offs, q1, c1⟩ := r
    obtain ⟨_, _, hlt, _, _⟩ := readSlice_ok hr
    dsimp only
    split
    · exact True.intro
    rw [mkSlice_ok _ _ _ hlt, ok_bind, chkIdx_ok _ _ _ (by omega), ok_bind]
    refine bind_noPanic (rulesLoop1_noPanic _ _ _ _ _ _ _ _ (by omega)) (fun r2 _ => ?_)
    obtain ⟨rules, size, c2⟩ := r2
    exact setsLoop1_noPanic b pos n os _ _ _ _ (by omega)

/-- `readChainedSeqContext1` never panics: all bytes, all positions -/
theorem readChainedSeqContext1_noPanic (b : Bytes) (pos : Nat) : (read1 b pos).noPanic := by
  unfold read1
  refine bind_noPanic (readU16_noPanic _ _ _) (fun covOff _ => ?_)
  refine bind_noPanic (readSlice_noPanic _ _ _ _) (fun r hr => ?_)
  obtain ⟨offs0, q1, c1⟩ := r
  obtain ⟨_, _, hlt, _, _⟩ := readSlice_ok hr
  dsimp only
  refine bind_noPanic (coverageRead_noPanic _ _) (fun r2 hr2 => ?_)
  obtain ⟨cov0, cc⟩ := r2
  have hc0 := coverageRead_covOk hr2
  dsimp only
  refine bind_noPanic (prune1_noPanic _ _ _) (fun r3 hr3 => ?_)
  obtain ⟨cov, offs, c3⟩ := r3
  obtain ⟨hc, hlen, _⟩ := prune1_ok hc0 hr3
  dsimp only
  obtain ⟨n, hn⟩ := covEncodeLen_ok hc
  rw [hn, ok_bind, mkSlice_ok _ _ _ (by omega), ok_bind]
  refine bind_noPanic (setsLoop1_noPanic _ _ _ _ _ _ _ _ (by omega)) (fun r4 _ => ?_)
  exact True.intro

/-! ## format 2 -/

theorem rulesLoop2_noPanic (b : Bytes) (base n : Nat) : ∀ (os : List Nat) (j : Nat)
    (acc : List Rule) (c : Cost), j + os.length ≤ n → (rulesLoop2 b base n os j acc c).noPanic
  | [], _, _, _, _ => True.intro
  | o :: os, j, acc, c, hj => by
    unfold rulesLoop2
    refine bind_noPanic (readCRule_noPanic _ _ _ _) (fun r _ => ?_)
    obtain ⟨r, c1⟩ := r
    dsimp only
    simp only [List.length_cons] at hj
    rw [chkIdx_ok _ _ _ (by omega), ok_bind]
    exact rulesLoop2_noPanic b base n os _ _ _ (by omega)

theorem setsLoop2_noPanic (b : Bytes) (pos n : Nat) : ∀ (os : List Nat) (i : Nat)
    (acc : Sets) (c : Cost), i + os.length ≤ n → (setsLoop2 b pos n os i acc c).noPanic
  | [], _, _, _, _ => True.intro
  | o :: os, i, acc, c, hi => by
    unfold setsLoop2
    simp only [List.length_cons] at hi
    split
    · exact setsLoop2_noPanic b pos n os _ _ _ (by omega)
    refine bind_noPanic (readSlice_noPanic _ _ _ _) (fun r hr => ?_)
    obtain ⟨offs, q1, c1⟩ := r
    obtain ⟨_, _, hlt, _, _⟩ := readSlice_ok hr
    dsimp only
    rw [mkSlice_ok _ _ _ hlt, ok_bind, chkIdx_ok _ _ _ (by omega), ok_bind]
    refine bind_noPanic (rulesLoop2_noPanic _ _ _ _ _ _ _ (by omega)) (fun r2 _ => ?_)
    obtain ⟨rules, c2⟩ := r2
    exact setsLoop2_noPanic b pos n os _ _ _ (by omega)

/-- `readChainedSeqContext2` never panics: all bytes, all positions -/
theorem readChainedSeqContext2_noPanic (b : Bytes) (pos : Nat) : (read2 b pos).noPanic := by
  unfold read2
  refine bind_noPanic (readBytes_noPanic _ _ _ _ (by omega)) (fun buf hbuf => ?_)
  obtain ⟨hl, _⟩ := readBytes_ok_length hbuf
  obtain ⟨covOff, h0, _⟩ := w16_ok "nested.go:1015#buf[0],buf[1]" buf 0 (by omega)
  obtain ⟨bOff, h1, _⟩ := w16_ok "nested.go:1016#buf[2],buf[3]" buf 2 (by omega)
  obtain ⟨iOff, h2, _⟩ := w16_ok "nested.go:1017#buf[4],buf[5]" buf 4 (by omega)
  obtain ⟨lOff, h3, _⟩ := w16_ok "nested.go:1018#buf[6],buf[7]" buf 6 (by omega)
  rw [h0, ok_bind, h1, ok_bind, h2, ok_bind, h3, ok_bind]
  refine bind_noPanic (readSlice_noPanic _ _ _ _) (fun r hr => ?_)
  obtain ⟨offs0, q1, c1⟩ := r
  obtain ⟨_, _, hlt, _, _⟩ := readSlice_ok hr
  dsimp only
  refine bind_noPanic (coverageRead_noPanic _ _) (fun r2 hr2 => ?_)
  obtain ⟨cov, cc⟩ := r2
  have hc := coverageRead_covOk hr2
  dsimp only
  refine bind_noPanic (classdefRead_noPanic _ _) (fun r3 _ => ?_)
  obtain ⟨cb, c2⟩ := r3
  dsimp only
  refine bind_noPanic (classdefRead_noPanic _ _) (fun r4 _ => ?_)
  obtain ⟨ci, c3⟩ := r4
  dsimp only
  refine bind_noPanic (classdefRead_noPanic _ _) (fun r5 _ => ?_)
  obtain ⟨cl, c4⟩ := r5
  dsimp only
  have hsl : ∃ offs, trunc2 offs0 (SfntV.Otl.Ctx.numClasses ci) = .ok offs ∧ offs.length ≤ offs0.length := by
    unfold trunc2
    split
    · unfold sliceTo
      rw [if_pos (by omega)]
      exact ⟨_, rfl, by simp only [List.length_take]; omega⟩
    · exact ⟨_, rfl, Nat.le_refl _⟩
  obtain ⟨offs, hoffs, hlen⟩ := hsl
  rw [hoffs, ok_bind, mkSlice_ok _ _ _ (by omega), ok_bind]
  refine bind_noPanic (setsLoop2_noPanic _ _ _ _ _ _ _ (by omega)) (fun r6 _ => ?_)
  obtain ⟨sets, c6⟩ := r6
  dsimp only
  obtain ⟨n, hn⟩ := covEncodeLen_ok hc
  rw [hn, ok_bind]
  split <;> exact True.intro

/-! ## format 3 -/

theorem covSetsLoop_noPanic (site : String) (b : Bytes) (pos n : Nat) : ∀ (os : List Nat) (i : Nat)
    (acc : List (List Nat)) (c : Cost), i + os.length ≤ n → (covSetsLoop site b pos n os i acc c).noPanic
  | [], _, _, _, _ => True.intro
  | o :: os, i, acc, c, hi => by
    unfold covSetsLoop
    simp only [List.length_cons] at hi
    refine bind_noPanic (readSet_noPanic _ _) (fun r _ => ?_)
    obtain ⟨s, cs⟩ := r
    dsimp only
    rw [chkIdx_ok _ _ _ (by omega), ok_bind]
    exact covSetsLoop_noPanic site b pos n os _ _ _ (by omega)

/-- `readChainedSeqContext3` never panics: all bytes, all positions -/
theorem readChainedSeqContext3_noPanic (b : Bytes) (pos : Nat) : (read3 b pos).noPanic := by
  unfold read3
  refine bind_noPanic (readSlice_noPanic _ _ _ _) (fun r hr => ?_)
  obtain ⟨bo, q1, c1⟩ := r
  obtain ⟨_, _, hbo, _, _⟩ := readSlice_ok hr
  dsimp only
  refine bind_noPanic (readSlice_noPanic _ _ _ _) (fun r2 hr2 => ?_)
  obtain ⟨io, q2, c2⟩ := r2
  obtain ⟨_, _, hio, _, _⟩ := readSlice_ok hr2
  dsimp only
  refine bind_noPanic (readSlice_noPanic _ _ _ _) (fun r3 hr3 => ?_)
  obtain ⟨lo, q3, c3⟩ := r3
  obtain ⟨_, _, hlo, _, _⟩ := readSlice_ok hr3
  dsimp only
  split
  · exact True.intro
  refine bind_noPanic (readU16_noPanic _ _ _) (fun slc hslc => ?_)
  obtain ⟨_, hlt, _⟩ := readU16_ok hslc
  refine bind_noPanic (readNested_noPanic _ _ _ _ hlt) (fun r4 _ => ?_)
  obtain ⟨acts, c4⟩ := r4
  dsimp only
  rw [mkSlice_ok _ _ _ hbo, ok_bind]
  refine bind_noPanic (covSetsLoop_noPanic _ _ _ _ _ _ _ _ (by omega)) (fun r5 _ => ?_)
  obtain ⟨cb, c5⟩ := r5
  dsimp only
  rw [mkSlice_ok _ _ _ hio, ok_bind]
  refine bind_noPanic (covSetsLoop_noPanic _ _ _ _ _ _ _ _ (by omega)) (fun r6 _ => ?_)
  obtain ⟨ci, c6⟩ := r6
  dsimp only
  rw [mkSlice_ok _ _ _ hlo, ok_bind]
  refine bind_noPanic (covSetsLoop_noPanic _ _ _ _ _ _ _ _ (by omega)) (fun r7 _ => ?_)
  exact True.intro

/-- the dispatch of `readGsubSubtable` for lookup type 6 never panics (the code as it is now and
the code before the repair of the key collision) -/
theorem readChainedG_noPanic (fixed : Bool) (b : Bytes) (pos : Nat) : (readChainedG fixed b pos).noPanic := by
  unfold readChainedG
  refine bind_noPanic (readU16_noPanic _ _ _) (fun format _ => ?_)
  dsimp only
  split
  · exact True.intro
  split
  · exact readChainedSeqContext1_noPanic b pos
  split
  · exact readChainedSeqContext2_noPanic b pos
  split
  · exact readChainedSeqContext3_noPanic b pos
  · exact True.intro

theorem readChained_noPanic (b : Bytes) (pos : Nat) : (readChained b pos).noPanic :=
  readChainedG_noPanic true b pos

/-- the repaired dispatcher, in closed form: format words 1, 2, 3 reach the three readers of this
group, EVERY other format word is refused as invalid — no word reaches a reader outside the group
any more (the branch `other-reader` of the model is dead) -/
theorem readChained_eq (b : Bytes) (pos : Nat) :
    readChained b pos = (readU16 "gsub.go:36#ReadUint16" b pos >>= fun f =>
      if f = 1 then read1 b pos else if f = 2 then read2 b pos else if f = 3 then read3 b pos
      else .err "invalid") := by
  unfold readChained readChainedG
  rcases readU16 "gsub.go:36#ReadUint16" b pos with f | e | p
  · rw [ok_bind, ok_bind]
    dsimp only
    by_cases h9 : f > 9
    · rw [if_pos (Or.inr ⟨rfl, h9⟩), if_neg (by omega), if_neg (by omega), if_neg (by omega)]
    · have : f = 0 ∨ f = 1 ∨ f = 2 ∨ f = 3 ∨ f = 4 ∨ f = 5 ∨ f = 6 ∨ f = 7 ∨ f = 8 ∨ f = 9 := by omega
      rcases this with rfl | rfl | rfl | rfl | rfl | rfl | rfl | rfl | rfl | rfl <;> rfl
  · rfl
  · rfl

end SfntV.Total.ChainCtx
