/-
Proofs about the cmap format 4 model (property C09): soundness of the proposed segments,
paths are chains, lookup over the assembled arrays, byte round trip, header, decoder = spec.
-/
import SfntV.Model.Cmap4

namespace SfntV.Cmap4
open SfntV

/-- soundness of one segment w.r.t. the map -/
def Seg.Sound (m : M) (s : Seg) : Prop :=
  s.first ≤ s.last ∧ s.last < 65536 ∧ s.delta < 65536 ∧
  (s.useValues = false → ∀ c, s.first ≤ c → c ≤ s.last → (c + s.delta) % 65536 = m c % 65536) ∧
  (s.useValues = true → s.delta = 0)

/-- a chain of segments covering [lo, 65536): gaps are unmapped -/
inductive Chain (m : M) : Nat → List Seg → Prop
  | nil : Chain m 65536 []
  | cons (lo : Nat) (s : Seg) (ss : List Seg) :
      lo ≤ s.first → s.Sound m → (∀ c, lo ≤ c → c < s.first → m c % 65536 = 0) →
      Chain m (s.last + 1) ss → Chain m lo (s :: ss)

/-- `path` is a path of proposed edges from vertex `v` to 0x10000 -/
def IsPath (m : M) : Nat → List Seg → Prop
  | v, [] => v = 0x10000
  | v, s :: ss => s ∈ appendEdges m v ∧ IsPath m (s.last + 1) ss

/-! ## the loops of `AppendEdges` -/

theorem sub16_lt (a b : Nat) : sub16 a b < 65536 := by
  unfold sub16; omega

theorem sub16_sound (g c : Nat) (hc : c < 65536) : (c + sub16 g c) % 65536 = g % 65536 := by
  unfold sub16; omega

theorem skipNotdef_spec (m : M) : ∀ (fuel v : Nat), v ≤ 0xFFFF →
    v ≤ skipNotdef m fuel v ∧ skipNotdef m fuel v ≤ 0xFFFF ∧
    ∀ c, v ≤ c → c < skipNotdef m fuel v → m c % 65536 = 0 := by
  intro fuel
  induction fuel with
  | zero => intro v hv; simp only [skipNotdef]; exact ⟨Nat.le_refl _, hv, fun c h1 h2 => by omega⟩
  | succ fuel ih =>
    intro v hv
    simp only [skipNotdef]
    split
    · rename_i h
      obtain ⟨h1, h2, h3⟩ := ih (v + 1) (by omega)
      refine ⟨by omega, h2, ?_⟩
      intro c hc1 hc2
      by_cases hcv : c = v
      · subst hcv; exact h.2
      · exact h3 c (by omega) hc2
    · exact ⟨Nat.le_refl _, hv, fun c h1 h2 => by omega⟩

theorem deltaRun_spec (m : M) (delta : Nat) : ∀ (fuel e : Nat), e ≤ 0xFFFF →
    e ≤ deltaRun m delta fuel e ∧ deltaRun m delta fuel e ≤ 0xFFFF ∧
    ∀ c, e ≤ c → c < deltaRun m delta fuel e → sub16 (m c) c = delta := by
  intro fuel
  induction fuel with
  | zero => intro e he; simp only [deltaRun]; exact ⟨Nat.le_refl _, he, fun c h1 h2 => by omega⟩
  | succ fuel ih =>
    intro e he
    simp only [deltaRun]
    split
    · rename_i h
      obtain ⟨h1, h2, h3⟩ := ih (e + 1) (by omega)
      refine ⟨by omega, h2, ?_⟩
      intro c hc1 hc2
      by_cases hce : c = e
      · subst hce; exact h.2
      · exact h3 c (by omega) hc2
    · exact ⟨Nat.le_refl _, he, fun c h1 h2 => by omega⟩

/-- with enough fuel the delta loop stops only at 0xFFFF or at a code with another delta -/
theorem deltaRun_stop (m : M) (delta : Nat) : ∀ (fuel e : Nat), e ≤ 0xFFFF → 0xFFFF ≤ e + fuel →
    deltaRun m delta fuel e = 0xFFFF ∨
      sub16 (m (deltaRun m delta fuel e)) (deltaRun m delta fuel e) ≠ delta := by
  intro fuel
  induction fuel with
  | zero => intro e he hf; simp only [deltaRun]; left; omega
  | succ fuel ih =>
    intro e he hf
    simp only [deltaRun]
    split
    · rename_i h
      exact ih (e + 1) (by omega) (by omega)
    · rename_i h
      by_cases h1 : e < 0xFFFF
      · right; intro h2; exact h ⟨h1, h2⟩
      · left; omega

/-- invariant of the values loop: `cH` is a code shortly after `start` that ends the first
delta run (it exists because the delta segment is shorter than 4) -/
theorem valuesRun_spec (m : M) (start delta cH : Nat) (hcH1 : cH ≤ start + 3)
    (hcH2 : cH = 0xFFFF ∨ sub16 (m cH) cH ≠ delta) :
    ∀ (fuel e prevDelta numDelta numNotdef : Nat), start < e → e ≤ 0xFFFF →
      numNotdef + 1 ≤ e - start →
      ((prevDelta = delta ∧ e ≤ cH ∧ numDelta ≤ e - start) ∨ numDelta + 1 ≤ e - start) →
      start ≤ valuesRun m start fuel e prevDelta numDelta numNotdef ∧
      valuesRun m start fuel e prevDelta numDelta numNotdef ≤ 0xFFFE := by
  intro fuel
  induction fuel with
  | zero =>
    intro e pd nd nn h1 h2 h3 _
    simp only [valuesRun]; omega
  | succ fuel ih =>
    intro e pd nd nn h1 h2 h3 h4
    simp only [valuesRun]
    split
    · rename_i hlt
      have hs16 : sub16 (m e % 65536) e = sub16 (m e) e := by unfold sub16; omega
      rw [hs16]
      -- bounds of the updated counters
      have hnn' : (if m e % 65536 = 0 then nn + 1 else 0) + 1 ≤ e + 1 - start := by
        split <;> omega
      have hnd' : (sub16 (m e) e = delta ∧ sub16 (m e) e = pd ∧ e + 1 ≤ cH ∧
            (if sub16 (m e) e = pd then nd + 1 else 1 + nn) ≤ e + 1 - start) ∨
          (if sub16 (m e) e = pd then nd + 1 else 1 + nn) + 1 ≤ e + 1 - start := by
        by_cases hd : sub16 (m e) e = pd
        · simp only [hd, if_true]
          rcases h4 with ⟨h4a, h4b, h4c⟩ | h4
          · left
            refine ⟨by omega, trivial, ?_, by omega⟩
            have : e ≠ cH := by
              intro hh; subst hh
              rcases hcH2 with h | h
              · omega
              · exact h (by omega)
            omega
          · right; omega
        · simp only [hd, if_false]; right; omega
      generalize (if sub16 (m e) e = pd then nd + 1 else 1 + nn) = nd' at *
      generalize (if m e % 65536 = 0 then nn + 1 else 0) = nn' at *
      split
      · rename_i h5
        rcases h5 with h5 | h5
        · rcases hnd' with ⟨_, _, h6, h7⟩ | h6 <;> omega
        · omega
      · apply ih (e + 1) _ nd' nn' (by omega) (by omega) hnn'
        rcases hnd' with ⟨h6, _, h7, h8⟩ | h6
        · left; exact ⟨h6, h7, h8⟩
        · right; exact h6
    · omega

/-! ## soundness of the proposed edges -/

theorem appendEdges_full (m : M) (v : Nat) :
    ∀ s ∈ appendEdges m v, v ≤ s.first ∧ s.Sound m ∧
      (∀ c, v ≤ c → c < s.first → m c % 65536 = 0) ∧ (s.last = 0xFFFF → s.first = 0xFFFF) := by
  intro s hs
  unfold appendEdges at hs
  by_cases hv : v > 0xFFFF
  · simp [hv] at hs
  · simp only [hv, if_false] at hs
    obtain ⟨hk1, hk2, hk3⟩ := skipNotdef_spec m 65536 v (by omega)
    generalize skipNotdef m 65536 v = start at *
    have hdl : sub16 (m start) start < 65536 := sub16_lt _ _
    have hd0 : (start + sub16 (m start) start) % 65536 = m start % 65536 :=
      sub16_sound _ _ (by omega)
    generalize hdelta : sub16 (m start) start = delta at *
    by_cases hst : start = 0xFFFF
    · simp only [hst, if_true, List.mem_singleton] at hs
      subst hs
      refine ⟨by simp only; omega, ⟨by simp, by simp, hdl, ?_, by simp⟩, ?_, by simp⟩
      · intro _ c h1 h2
        have : c = start := by simp only at h1 h2; omega
        subst this; exact hd0
      · intro c h1 h2; exact hk3 c h1 (by simp only at h2; omega)
    · simp only [hst, if_false] at hs
      obtain ⟨hr1, hr2, hr3⟩ := deltaRun_spec m delta 65536 (start + 1) (by omega)
      have hstop := deltaRun_stop m delta 65536 (start + 1) (by omega) (by omega)
      generalize deltaRun m delta 65536 (start + 1) = e at *
      have hs1 : v ≤ start ∧ Seg.Sound m ⟨start, e - 1, delta, false⟩ ∧
          (∀ c, v ≤ c → c < start → m c % 65536 = 0) ∧ (e - 1 = 0xFFFF → start = 0xFFFF) := by
        refine ⟨hk1, ⟨by simp only; omega, by simp only; omega, hdl, ?_, by simp⟩, hk3, by omega⟩
        intro _ c h1 h2
        simp only at h1 h2
        by_cases hcs : c = start
        · subst hcs; exact hd0
        · have := hr3 c (by omega) (by omega)
          rw [← this]; exact sub16_sound _ _ (by omega)
      by_cases hlong : e - start ≥ 4 ∨ start = 0xFFFE
      · simp only [hlong, if_true, List.mem_singleton] at hs
        subst hs; exact hs1
      · simp only [hlong, if_false, List.mem_cons, List.not_mem_nil, or_false] at hs
        rcases hs with hs | hs
        · subst hs; exact hs1
        · have hvr := valuesRun_spec m start delta e (by omega) hstop 65536 (start + 1) delta 1 0
            (by omega) (by omega) (by omega)
            (Or.inl ⟨rfl, by omega, by omega⟩)
          generalize valuesRun m start 65536 (start + 1) delta 1 0 = last at *
          subst hs
          exact ⟨hk1, ⟨hvr.1, by simp only; omega, by simp, by simp, by simp⟩, hk3,
            by simp only; omega⟩

theorem appendEdges_sound (m : M) (v : Nat) :
    ∀ s ∈ appendEdges m v, v ≤ s.first ∧ s.Sound m ∧ (∀ c, v ≤ c → c < s.first → m c % 65536 = 0) :=
  fun s hs => let ⟨h1, h2, h3, _⟩ := appendEdges_full m v s hs; ⟨h1, h2, h3⟩

theorem appendEdges_lt (m : M) (v : Nat) (s : Seg) (hs : s ∈ appendEdges m v) : v ≤ 0xFFFF := by
  unfold appendEdges at hs
  by_cases hv : v > 0xFFFF
  · simp [hv] at hs
  · omega

theorem isPath_chain (m : M) (v : Nat) (path : List Seg) (h : IsPath m v path) : Chain m v path := by
  induction path generalizing v with
  | nil => simp only [IsPath] at h; subst h; exact Chain.nil
  | cons s ss ih =>
    obtain ⟨h1, h2⟩ := h
    obtain ⟨h3, h4, h5⟩ := appendEdges_sound m v s h1
    exact Chain.cons v s ss h3 h4 h5 (ih _ h2)

theorem isPath_last_aux (m : M) (path : List Seg) : ∀ v, v < 0x10000 → IsPath m v path →
    ∃ s, path.getLast? = some s ∧ s.first = 0xFFFF ∧ s.last = 0xFFFF := by
  induction path with
  | nil => intro v hv h; simp only [IsPath] at h; omega
  | cons s ss ih =>
    intro v hv h
    obtain ⟨h1, h2⟩ := h
    obtain ⟨_, h4, _, h6⟩ := appendEdges_full m v s h1
    cases ss with
    | nil =>
      simp only [IsPath] at h2
      exact ⟨s, rfl, h6 (by omega), by omega⟩
    | cons s' ss' =>
      have := appendEdges_lt m _ s' h2.1
      rw [List.getLast?_cons_cons]
      exact ih (s.last + 1) (by omega) h2

theorem isPath_last (m : M) (path : List Seg) (h : IsPath m 0 path) :
    ∃ s, path.getLast? = some s ∧ s.first = 0xFFFF ∧ s.last = 0xFFFF :=
  isPath_last_aux m path 0 (by omega) h

/-! ## lookup over the assembled arrays -/

def valuesOf (m : M) : List Seg → List Nat
  | [] => []
  | s :: ss => (if s.useValues then segValues m s else []) ++ valuesOf m ss

theorem assembleAux_ga (m : M) (n i : Nat) (ss : List Seg) (ga : List Nat) :
    (assembleAux m n i ss ga).glyphIdArray = ga ++ valuesOf m ss := by
  induction ss generalizing i ga with
  | nil => simp [assembleAux, valuesOf]
  | cons s ss ih => simp only [assembleAux, valuesOf]; rw [ih]; split <;> simp

theorem segValues_length (m : M) (s : Seg) : (segValues m s).length = s.last + 1 - s.first := by
  simp [segValues]

theorem segValues_get (m : M) (s : Seg) (c : Nat) (h1 : s.first ≤ c) (h2 : c ≤ s.last) :
    (segValues m s)[c - s.first]? = some (m c % 65536) := by
  unfold segValues
  rw [List.getElem?_map, List.getElem?_range' (by omega)]
  simp only [Option.map_some, Nat.one_mul]
  congr 3; omega

theorem assembleAux_lengths (m : M) (n : Nat) : ∀ (ss : List Seg) (i : Nat) (ga : List Nat),
    (assembleAux m n i ss ga).endCode.length = ss.length ∧
    (assembleAux m n i ss ga).startCode.length = ss.length ∧
    (assembleAux m n i ss ga).idDelta.length = ss.length ∧
    (assembleAux m n i ss ga).idRangeOffset.length = ss.length := by
  intro ss
  induction ss with
  | nil => intro i ga; simp [assembleAux]
  | cons s ss ih =>
    intro i ga
    simp only [assembleAux, List.length_cons]
    have := ih (i + 1) (if s.useValues then ga ++ segValues m s else ga)
    omega

theorem lookup_correct_aux (m : M) (G : List Nat) (n : Nat) :
    ∀ (ss : List Seg) (i : Nat) (ga : List Nat) (lo : Nat),
      Chain m lo ss → i + ss.length = n → G = ga ++ valuesOf m ss →
      ∀ c, lo ≤ c → c < 65536 →
        specLookupAux G n c i (assembleAux m n i ss ga).endCode (assembleAux m n i ss ga).startCode
          (assembleAux m n i ss ga).idDelta (assembleAux m n i ss ga).idRangeOffset = m c % 65536 := by
  intro ss
  induction ss with
  | nil => intro i ga lo hch _ _ c hlo hc; cases hch; omega
  | cons s ss ih =>
    intro i ga lo hch hn hG c hlo hc
    cases hch with
    | cons _ _ _ hfirst hsound hgap hrest =>
    obtain ⟨hfl, hl, hdl, hdelta, hval⟩ := hsound
    simp only [assembleAux, specLookupAux]
    by_cases hce : c ≤ s.last
    · simp only [hce, if_true]
      by_cases hsc : s.first ≤ c
      · simp only [hsc, if_true]
        cases hu : s.useValues with
        | false => simp only [Bool.false_eq_true, if_false, if_true]; exact hdelta hu c hsc hce
        | true =>
          have hd0 := hval hu
          simp only [if_true]
          have hlen : 0 < n - i := by simp only [List.length_cons] at hn; omega
          have hro : 2 * (n - i + ga.length) ≠ 0 := by omega
          simp only [hro, if_false]
          have hhalf : 2 * (n - i + ga.length) / 2 = n - i + ga.length :=
            Nat.mul_div_cancel_left _ (by decide : 0 < 2)
          rw [hhalf]
          have hguard : ¬ (n - i + ga.length + (c - s.first) < n - i) := by omega
          simp only [hguard, if_false]
          have hidx : n - i + ga.length + (c - s.first) - (n - i) = ga.length + (c - s.first) := by
            omega
          rw [hidx, hG]
          simp only [valuesOf, hu, if_true]
          rw [List.getElem?_append_right (by omega)]
          simp only [Nat.add_sub_cancel_left]
          rw [List.getElem?_append_left (by rw [segValues_length]; omega)]
          rw [segValues_get m s c hsc hce]
          simp only [hd0, Nat.add_zero]
          by_cases hz : m c % 65536 = 0
          · simp [hz]
          · simp only [hz, if_false]; omega
      · simp only [hsc, if_false]; exact (hgap c hlo (by omega)).symm
    · simp only [hce, if_false]
      have hn' : (i + 1) + ss.length = n := by simp only [List.length_cons] at hn; omega
      have hG' : G = (if s.useValues then ga ++ segValues m s else ga) ++ valuesOf m ss := by
        rw [hG]; simp only [valuesOf]; split <;> simp
      exact ih (i+1) _ (s.last + 1) hrest hn' hG' c (by omega) hc

theorem lookup_assemble (m : M) (ss : List Seg) (h : Chain m 0 ss) :
    ∀ c, c < 65536 → specLookup (assemble m ss) c = m c % 65536 := by
  intro c hc
  unfold specLookup assemble
  rw [(assembleAux_lengths m ss.length ss 0 []).1]
  exact lookup_correct_aux m _ ss.length ss 0 [] 0 h (by simp) (by simp [assembleAux_ga]) c
    (Nat.zero_le _) hc

/-! ## words / wordsOf -/

theorem words_nil : words [] = [] := rfl

theorem words_cons (x : Nat) (l : List Nat) :
    words (x :: l) = UInt8.ofNat (x / 256 % 256) :: UInt8.ofNat (x % 256) :: words l := by
  simp [words, be16]

theorem words_append (l₁ l₂ : List Nat) : words (l₁ ++ l₂) = words l₁ ++ words l₂ := by
  simp [words]

theorem words_length (l : List Nat) : (words l).length = 2 * l.length := by
  induction l with
  | nil => rfl
  | cons x l ih => rw [words_cons]; simp only [List.length_cons, ih]; omega

theorem be16_eq_words (x : Nat) : be16 x = words [x] := by simp [words]

theorem wordsOf_words (l : List Nat) (h : ∀ x ∈ l, x < 65536) : wordsOf (words l) = l := by
  induction l with
  | nil => rfl
  | cons x l ih =>
    rw [words_cons, wordsOf, ih (fun y hy => h y (List.mem_cons_of_mem _ hy))]
    have hx := h x (List.mem_cons_self ..)
    congr 1
    simp only [UInt8.toNat_ofNat']
    omega

theorem drop_words (l : List Nat) : ∀ k, (words l).drop (2 * k) = words (l.drop k) := by
  induction l with
  | nil => intro k; simp [words_nil]
  | cons x l ih =>
    intro k
    cases k with
    | zero => rfl
    | succ k =>
      rw [words_cons, show 2 * (k + 1) = 2 * k + 1 + 1 by omega]
      simp only [List.drop_succ_cons]
      exact ih k

theorem wordsOf_lt : ∀ (n : Nat) (b : Bytes), b.length ≤ n → ∀ x ∈ wordsOf b, x < 65536 := by
  intro n
  induction n using Nat.strongRecOn with
  | _ n ih =>
    intro b hb x hx
    match b, hb, hx with
    | [], _, hx => simp [wordsOf] at hx
    | [_], _, hx => simp [wordsOf] at hx
    | a :: c :: r, hb, hx =>
      simp only [wordsOf, List.mem_cons] at hx
      rcases hx with hx | hx
      · have := a.toNat_lt; have := c.toNat_lt; omega
      · simp only [List.length_cons] at hb
        exact ih (n - 2) (by omega) r (by omega) x hx

/-! ## pack / unpack round trip -/

theorem wordsOf_words_cons (x : Nat) (l : List Nat) :
    wordsOf (words (x :: l)) = x % 65536 :: wordsOf (words l) := by
  rw [words_cons, wordsOf]
  congr 1
  simp only [UInt8.toNat_ofNat']
  omega

theorem split5 (E S D R G : List Nat) (z n : Nat) (hE : E.length = n) (hS : S.length = n)
    (hD : D.length = n) (hR : R.length = n) :
    (E ++ ([z] ++ (S ++ (D ++ (R ++ G))))).take n = E ∧
    ((E ++ ([z] ++ (S ++ (D ++ (R ++ G))))).drop (n + 1)).take n = S ∧
    ((E ++ ([z] ++ (S ++ (D ++ (R ++ G))))).drop (2 * n + 1)).take n = D ∧
    ((E ++ ([z] ++ (S ++ (D ++ (R ++ G))))).drop (3 * n + 1)).take n = R ∧
    (E ++ ([z] ++ (S ++ (D ++ (R ++ G))))).drop (4 * n + 1) = G := by
  refine ⟨List.take_left' hE, ?_, ?_, ?_, ?_⟩
  · have e : E ++ ([z] ++ (S ++ (D ++ (R ++ G)))) = (E ++ [z]) ++ (S ++ (D ++ (R ++ G))) := by
      simp only [List.append_assoc]
    rw [e, List.drop_left' (by simp only [List.length_append, List.length_singleton]; omega)]
    exact List.take_left' hS
  · have e : E ++ ([z] ++ (S ++ (D ++ (R ++ G)))) = (E ++ [z] ++ S) ++ (D ++ (R ++ G)) := by
      simp only [List.append_assoc]
    rw [e, List.drop_left' (by simp only [List.length_append, List.length_singleton]; omega)]
    exact List.take_left' hD
  · have e : E ++ ([z] ++ (S ++ (D ++ (R ++ G)))) = (E ++ [z] ++ S ++ D) ++ (R ++ G) := by
      simp only [List.append_assoc]
    rw [e, List.drop_left' (by simp only [List.length_append, List.length_singleton]; omega)]
    exact List.take_left' hR
  · have e : E ++ ([z] ++ (S ++ (D ++ (R ++ G)))) = (E ++ [z] ++ S ++ D ++ R) ++ G := by
      simp only [List.append_assoc]
    rw [e, List.drop_left' (by simp only [List.length_append, List.length_singleton]; omega)]

theorem unpack_words (h0 h1 h2 x2 h4 h5 h6 : Nat) (E S D R G : List Nat) (n : Nat)
    (hE : E.length = n) (hS : S.length = n) (hD : D.length = n) (hR : R.length = n)
    (hx : x2 % 65536 / 2 = n)
    (hall : ∀ x ∈ E ++ ([0] ++ (S ++ (D ++ (R ++ G)))), x < 65536) :
    unpack (words ([h0, h1, h2, x2, h4, h5, h6] ++ (E ++ ([0] ++ (S ++ (D ++ (R ++ G)))))))
      = some ⟨E, S, D, R, G⟩ := by
  obtain ⟨s1, s2, s3, s4, s5⟩ := split5 E S D R G 0 n hE hS hD hR
  have hWlen : (E ++ ([0] ++ (S ++ (D ++ (R ++ G))))).length = 4 * n + 1 + G.length := by
    simp only [List.length_append, List.length_singleton]; omega
  generalize hW : E ++ ([0] ++ (S ++ (D ++ (R ++ G)))) = W at *
  unfold unpack
  have hlen : ¬ (words ([h0, h1, h2, x2, h4, h5, h6] ++ W)).length < 16 := by
    rw [words_length]; simp only [List.length_append, List.length_cons, List.length_nil]; omega
  have hd14 : (words ([h0, h1, h2, x2, h4, h5, h6] ++ W)).drop 14 = words W := by
    rw [show 14 = 2 * 7 by rfl, drop_words]; rfl
  have hd6 : (words ([h0, h1, h2, x2, h4, h5, h6] ++ W)).drop 6 = words (x2 :: h4 :: h5 :: h6 :: W) := by
    rw [show 6 = 2 * 3 by rfl, drop_words]; rfl
  simp only [hlen, if_false, hd14, hd6, wordsOf_words_cons, List.headD_cons, hx,
    wordsOf_words W hall]
  have : ¬ W.length < 4 * n + 1 := by omega
  simp only [this, if_false, s1, s2, s3, s4, s5]

theorem chain_sound (m : M) : ∀ (ss : List Seg) (lo : Nat), Chain m lo ss → ∀ s ∈ ss, s.Sound m := by
  intro ss
  induction ss with
  | nil => intro lo _ s hs; simp at hs
  | cons s ss ih =>
    intro lo h t ht
    cases h with
    | cons _ _ _ _ hsound _ hrest =>
      simp only [List.mem_cons] at ht
      rcases ht with rfl | ht
      · exact hsound
      · exact ih _ hrest t ht

theorem valuesOf_lt (m : M) (ss : List Seg) : ∀ x ∈ valuesOf m ss, x < 65536 := by
  induction ss with
  | nil => intro x hx; simp [valuesOf] at hx
  | cons s ss ih =>
    intro x hx
    simp only [valuesOf, List.mem_append] at hx
    rcases hx with hx | hx
    · split at hx
      · simp only [segValues, List.mem_map] at hx
        obtain ⟨c, _, rfl⟩ := hx
        omega
      · simp at hx
    · exact ih x hx

theorem assembleAux_lt (m : M) (n : Nat) : ∀ (ss : List Seg) (i : Nat) (ga : List Nat),
    (∀ s ∈ ss, s.Sound m) →
    (∀ x ∈ (assembleAux m n i ss ga).endCode, x < 65536) ∧
    (∀ x ∈ (assembleAux m n i ss ga).startCode, x < 65536) ∧
    (∀ x ∈ (assembleAux m n i ss ga).idDelta, x < 65536) := by
  intro ss
  induction ss with
  | nil => intro i ga _; simp [assembleAux]
  | cons s ss ih =>
    intro i ga h
    obtain ⟨h1, h2, h3, _, _⟩ := h s (List.mem_cons_self ..)
    obtain ⟨i1, i2, i3⟩ := ih (i + 1) (if s.useValues then ga ++ segValues m s else ga)
      (fun t ht => h t (List.mem_cons_of_mem _ ht))
    simp only [assembleAux, List.mem_cons]
    refine ⟨?_, ?_, ?_⟩
    · intro x hx; rcases hx with rfl | hx
      · exact h2
      · exact i1 x hx
    · intro x hx; rcases hx with rfl | hx
      · omega
      · exact i2 x hx
    · intro x hx; rcases hx with rfl | hx
      · exact h3
      · exact i3 x hx

/-- what `pack` emits, as one list of words -/
theorem pack_eq (lang : Nat) (a : Arrays) (b : Bytes) (hb : pack lang a = some b) :
    (∀ x ∈ a.idRangeOffset, x < 65536) ∧
    b = words ([4, 2 * (8 + 4 * a.startCode.length + a.glyphIdArray.length), lang,
          2 * a.startCode.length % 65536, 2 ^ bitsLen a.startCode.length % 65536,
          bitsLen a.startCode.length - 1,
          (2 * a.startCode.length % 65536 + 65536 - 2 ^ bitsLen a.startCode.length % 65536) % 65536]
        ++ (a.endCode ++ ([0] ++ (a.startCode ++ (a.idDelta ++ (a.idRangeOffset ++ a.glyphIdArray)))))) := by
  unfold pack at hb
  split at hb
  · exact absurd hb (by simp)
  · rename_i hany
    constructor
    · intro x hx
      have : ¬ (x > 65535) := by
        intro hgt
        apply hany
        rw [List.any_eq_true]
        exact ⟨x, hx, by simpa using hgt⟩
      omega
    · simp only [Option.some.injEq] at hb
      rw [← hb]
      simp only [be16_eq_words, words_append, List.append_assoc]

theorem unpack_encode (m : M) (lang : Nat) (path : List Seg) (b : Bytes) (hch : Chain m 0 path)
    (hlen : path.length < 32768) (hb : encode m lang path = some b) :
    unpack b = some (assemble m path) := by
  unfold encode at hb
  obtain ⟨hro, hbe⟩ := pack_eq lang _ b hb
  obtain ⟨l1, l2, l3, l4⟩ := assembleAux_lengths m path.length path 0 []
  obtain ⟨b1, b2, b3⟩ := assembleAux_lt m path.length path 0 [] (chain_sound m path 0 hch)
  have hga := assembleAux_ga m path.length 0 path []
  have hvl := valuesOf_lt m path
  unfold assemble at hro hbe ⊢
  generalize assembleAux m path.length 0 path [] = a at *
  rw [hbe]
  rw [unpack_words _ _ _ _ _ _ _ a.endCode a.startCode a.idDelta a.idRangeOffset a.glyphIdArray
    path.length l1 l2 l3 l4 (by rw [l2]; omega)]
  intro x hx
  simp only [List.mem_append, List.mem_singleton] at hx
  rcases hx with hx | hx | hx | hx | hx | hx
  · exact b1 x hx
  · omega
  · exact b2 x hx
  · exact b3 x hx
  · exact hro x hx
  · rw [hga] at hx; simp only [List.nil_append] at hx; exact hvl x hx

/-- NOTE the hypothesis `hlen`: with 32768 or more segments segCountX2 wraps around -/
theorem lookup_encode (m : M) (lang : Nat) (path : List Seg) (b : Bytes) (h : IsPath m 0 path)
    (hlen : path.length < 32768) (hb : encode m lang path = some b) :
    ∀ c, c < 65536 → specLookupBytes b c = m c % 65536 := by
  intro c hc
  have hch := isPath_chain m 0 path h
  unfold specLookupBytes
  rw [unpack_encode m lang path b hch hlen hb]
  exact lookup_assemble m path hch c hc

/-! ## header -/

theorem encode_header (m : M) (lang : Nat) (path : List Seg) (b : Bytes) (h : IsPath m 0 path)
    (hb : encode m lang path = some b) (hl : b.length < 65536) (hlang : lang < 65536) :
    (wordsOf b).take 7 =
      [4, b.length, lang, 2 * path.length, 2 * 2 ^ Nat.log2 path.length, Nat.log2 path.length,
       2 * path.length - 2 * 2 ^ Nat.log2 path.length] := by
  unfold encode at hb
  obtain ⟨_, hbe⟩ := pack_eq lang _ b hb
  obtain ⟨l1, l2, l3, l4⟩ := assembleAux_lengths m path.length path 0 []
  unfold assemble at hbe
  generalize assembleAux m path.length 0 path [] = a at *
  have hblen : b.length = 2 * (8 + 4 * path.length + a.glyphIdArray.length) := by
    rw [hbe, words_length]
    simp only [List.length_append, List.length_cons, List.length_nil, l1, l2, l3, l4]
    omega
  have hn0 : path.length ≠ 0 := by
    cases path with
    | nil => simp [IsPath] at h
    | cons s ss => simp
  have hpow := Nat.log2_self_le hn0
  have hlog : Nat.log2 path.length < 2 ^ Nat.log2 path.length := Nat.lt_two_pow_self
  have hbl : bitsLen path.length = Nat.log2 path.length + 1 := by simp [bitsLen, hn0]
  have hp2 : 2 ^ (Nat.log2 path.length + 1) = 2 * 2 ^ Nat.log2 path.length := by
    rw [Nat.pow_succ]; omega
  rw [l2, hbl, hp2] at hbe
  rw [← hblen] at hbe
  generalize 2 ^ Nat.log2 path.length = P at *
  generalize Nat.log2 path.length = L at *
  have e1 : b.length % 65536 = b.length := Nat.mod_eq_of_lt hl
  have e2 : lang % 65536 = lang := Nat.mod_eq_of_lt hlang
  have e3 : 2 * path.length % 65536 = 2 * path.length := by omega
  have e4 : 2 * P % 65536 = 2 * P := by omega
  have e5 : (L + 1 - 1) % 65536 = L := by omega
  have e6 : (2 * path.length + 65536 - 2 * P) % 65536 % 65536 = 2 * path.length - 2 * P := by omega
  have e0 : 4 % 65536 = 4 := rfl
  rw [e3, e4] at hbe
  generalize hlen : b.length = len at *
  rw [hbe]
  simp only [List.cons_append, List.nil_append, wordsOf_words_cons, List.take_succ_cons,
    List.take_zero, e0, e1, e2, e3, e4, e5, e6]

/-! ## the library's decoder agrees with the specification -/

theorem alistGet_nil (c : Nat) : alistGet [] c = 0 := rfl

theorem alistGet_concat (l : List (Nat × Nat)) (p : Nat × Nat) (c : Nat) :
    alistGet (l ++ [p]) c = if p.1 = c then p.2 else alistGet l c := by
  unfold alistGet
  rw [List.reverse_append, List.reverse_singleton, List.singleton_append, List.find?_cons]
  by_cases h : p.1 = c
  · have hb : (p.1 == c) = true := by simp [h]
    simp only [hb, if_pos h]
  · have hb : (p.1 == c) = false := by simp [h]
    simp only [hb, h, if_false]

theorem alistGet_no_key (l : List (Nat × Nat)) (c : Nat) (h : ∀ p ∈ l, p.1 ≠ c) :
    alistGet l c = 0 := by
  unfold alistGet
  have : l.reverse.find? (·.1 == c) = none := by
    rw [List.find?_eq_none]
    intro x hx
    simpa using h x (List.mem_reverse.mp hx)
  rw [this]

theorem alistGet_append_left (l₁ l₂ : List (Nat × Nat)) (c : Nat) (h : ∀ p ∈ l₂, p.1 ≠ c) :
    alistGet (l₁ ++ l₂) c = alistGet l₁ c := by
  unfold alistGet
  have : l₂.reverse.find? (·.1 == c) = none := by
    rw [List.find?_eq_none]
    intro x hx
    simpa using h x (List.mem_reverse.mp hx)
  rw [List.reverse_append, List.find?_append, this, Option.none_or]

theorem alistGet_append_right (l₁ l₂ : List (Nat × Nat)) (c : Nat) (h : ∀ p ∈ l₁, p.1 ≠ c) :
    alistGet (l₁ ++ l₂) c = alistGet l₂ c := by
  unfold alistGet
  have : l₁.reverse.find? (·.1 == c) = none := by
    rw [List.find?_eq_none]
    intro x hx
    simpa using h x (List.mem_reverse.mp hx)
  rw [List.reverse_append, List.find?_append, this, Option.or_none]

/-- the entries a segment contributes: `(idx, f idx)` for the `idx` with `f idx ≠ 0` -/
def segList (f : Nat → Nat) (s n : Nat) : List (Nat × Nat) :=
  (List.range' s n).filterMap fun idx => if f idx ≠ 0 then some (idx, f idx) else none

theorem segList_keys (f : Nat → Nat) (s n : Nat) : ∀ p ∈ segList f s n, s ≤ p.1 ∧ p.1 < s + n := by
  intro p hp
  simp only [segList, List.mem_filterMap, List.mem_range'_1] at hp
  obtain ⟨idx, hidx, h⟩ := hp
  split at h
  · simp only [Option.some.injEq] at h; subst h; exact hidx
  · simp at h

theorem alistGet_segList (f : Nat → Nat) (s n c : Nat) :
    alistGet (segList f s n) c = if s ≤ c ∧ c < s + n then f c else 0 := by
  induction n with
  | zero =>
    have : ¬ (s ≤ c ∧ c < s + 0) := by omega
    simp only [this, if_false]; rfl
  | succ n ih =>
    unfold segList at ih ⊢
    rw [List.range'_concat, List.filterMap_append, Nat.one_mul]
    by_cases hf : f (s + n) ≠ 0
    · have : List.filterMap (fun idx => if f idx ≠ 0 then some (idx, f idx) else none) [s + n]
          = [(s + n, f (s + n))] := by simp [hf]
      rw [this, alistGet_concat, ih]
      by_cases hc : s + n = c
      · subst hc
        have : s ≤ s + n ∧ s + n < s + (n + 1) := by omega
        rw [if_pos rfl, if_pos this]
      · have h1 : (s ≤ c ∧ c < s + (n + 1)) ↔ (s ≤ c ∧ c < s + n) := by omega
        simp only [hc, if_false, h1]
    · have : List.filterMap (fun idx => if f idx ≠ 0 then some (idx, f idx) else none) [s + n]
          = [] := by simp [hf]
      rw [this, List.append_nil, ih]
      by_cases hc : s + n = c
      · subst hc
        have h1 : s ≤ s + n ∧ s + n < s + (n + 1) := by omega
        have h2 : ¬ (s ≤ s + n ∧ s + n < s + n) := by omega
        rw [if_pos h1, if_neg h2]
        simp only [ne_eq, Decidable.not_not] at hf
        exact hf.symm
      · have h1 : (s ≤ c ∧ c < s + (n + 1)) ↔ (s ≤ c ∧ c < s + n) := by omega
        simp only [h1]

theorem filterMap_congr' {α β : Type} (f g : α → Option β) (l : List α)
    (h : ∀ x ∈ l, f x = g x) : l.filterMap f = l.filterMap g := by
  induction l with
  | nil => rfl
  | cons x l ih =>
    rw [List.filterMap_cons, List.filterMap_cons, h x (List.mem_cons_self ..),
      ih (fun y hy => h y (List.mem_cons_of_mem _ hy))]

/-- the glyph the specification assigns to code `c` inside segment `(s, d, r)` number `k` -/
def specVal (ga : List Nat) (n k s d r c : Nat) : Nat :=
  if r = 0 then (c + d) % 65536
  else
    if r / 2 + (c - s) < n - k then 0 else
    match ga[r / 2 + (c - s) - (n - k)]? with
    | some v => if v = 0 then 0 else (v + d) % 65536
    | none => 0

theorem specLookupAux_cons (ga : List Nat) (n c i e s d r : Nat) (es ss ds rs : List Nat) :
    specLookupAux ga n c i (e :: es) (s :: ss) (d :: ds) (r :: rs) =
      if c ≤ e then (if s ≤ c then specVal ga n i s d r c else 0)
      else specLookupAux ga n c (i + 1) es ss ds rs := by
  simp only [specLookupAux, specVal]
  rfl

theorem decodeSeg_spec (ga : List Nat) (n k s e d r : Nat) (l : List (Nat × Nat))
    (hse : s ≤ e) (he : e < 65536) (h : decodeSeg ga n k s (e + 1) d r = some l) :
    (∀ p ∈ l, s ≤ p.1 ∧ p.1 ≤ e) ∧
    ∀ c, s ≤ c → c ≤ e → alistGet l c = specVal ga n k s d r c := by
  unfold decodeSeg at h
  by_cases hr : r = 0
  · simp only [hr, if_true, Option.some.injEq] at h
    have hl : l = segList (fun idx => (idx + d) % 65536) s (e + 1 - s) := by
      rw [← h]; unfold segList
      apply filterMap_congr'
      intro x hx
      rw [List.mem_range'_1] at hx
      have : x % 65536 = x := Nat.mod_eq_of_lt (by omega)
      simp only [this]
    subst hl
    constructor
    · intro p hp; have := segList_keys _ _ _ p hp; omega
    · intro c h1 h2
      rw [alistGet_segList]
      have : s ≤ c ∧ c < s + (e + 1 - s) := by omega
      rw [if_pos this]
      simp only [specVal, hr, if_true]
  · simp only [hr, if_false] at h
    split at h
    · rename_i hbad
      split at h
      · rename_i hs
        simp only [Option.some.injEq] at h
        subst h
        refine ⟨by simp, ?_⟩
        intro c h1 h2
        rw [alistGet_nil]
        simp only [specVal, hr, if_false]
        split
        · rfl
        · rename_i hlt
          have : ga[r / 2 + (c - s) - (n - k)]? = none := by
            rw [List.getElem?_eq_none_iff]; omega
          rw [this]
      · simp at h
    · rename_i hok
      simp only [Option.some.injEq] at h
      have hd : ((r / 2 : Nat) : Int) - ((n - k : Nat) : Int) = ((r / 2 - (n - k) : Nat) : Int) := by
        omega
      have hge : n - k ≤ r / 2 := by omega
      have hfit : r / 2 - (n - k) + (e + 1 - s) ≤ ga.length := by omega
      rw [hd] at h
      simp only [Int.toNat_natCast] at h
      have hl : l = segList (fun idx =>
          if ga.getD (r / 2 - (n - k) + (idx - s)) 0 ≠ 0 then
            (ga.getD (r / 2 - (n - k) + (idx - s)) 0 + d) % 65536 else 0) s (e + 1 - s) := by
        rw [← h]; unfold segList
        apply filterMap_congr'
        intro x hx
        rw [List.mem_range'_1] at hx
        have : x % 65536 = x := Nat.mod_eq_of_lt (by omega)
        simp only [this]
      subst hl
      constructor
      · intro p hp; have := segList_keys _ _ _ p hp; omega
      · intro c h1 h2
        rw [alistGet_segList]
        have : s ≤ c ∧ c < s + (e + 1 - s) := by omega
        rw [if_pos this]
        simp only [specVal, hr, if_false]
        have hnl : ¬ (r / 2 + (c - s) < n - k) := by omega
        rw [if_neg hnl]
        have hidx : r / 2 + (c - s) - (n - k) = r / 2 - (n - k) + (c - s) := by omega
        rw [hidx, List.getD_eq_getElem?_getD]
        have hlt : r / 2 - (n - k) + (c - s) < ga.length := by omega
        rw [List.getElem?_eq_getElem hlt]
        simp only [Option.getD_some]
        by_cases hv : ga[r / 2 - (n - k) + (c - s)] = 0
        · simp [hv]
        · simp [hv]

theorem decodeLoop_spec (a : Arrays) (n : Nat) : ∀ (E S D R : List Nat) (k prevEnd : Nat)
    (acc l : List (Nat × Nat)), (∀ e ∈ E, e < 65536) →
    decodeLoop a n k prevEnd E S D R acc = some l →
    ∃ l', l = acc ++ l' ∧ (∀ p ∈ l', prevEnd ≤ p.1) ∧
      ∀ c, prevEnd ≤ c → alistGet l' c = specLookupAux a.glyphIdArray n c k E S D R := by
  have base : ∀ (E S D R : List Nat) (k prevEnd : Nat) (acc l : List (Nat × Nat)),
      (E = [] ∨ S = [] ∨ D = [] ∨ R = []) →
      decodeLoop a n k prevEnd E S D R acc = some l →
      ∃ l', l = acc ++ l' ∧ (∀ p ∈ l', prevEnd ≤ p.1) ∧
        ∀ c, prevEnd ≤ c → alistGet l' c = specLookupAux a.glyphIdArray n c k E S D R := by
    intro E S D R k prevEnd acc l hnil h
    have h1 : decodeLoop a n k prevEnd E S D R acc = some acc := by
      unfold decodeLoop
      split
      · rcases hnil with h | h | h | h <;> simp at h
      · rfl
    have h2 : ∀ c, specLookupAux a.glyphIdArray n c k E S D R = 0 := by
      intro c
      unfold specLookupAux
      split
      · rcases hnil with h | h | h | h <;> simp at h
      · rfl
    rw [h1] at h
    simp only [Option.some.injEq] at h
    exact ⟨[], by simp [h], by simp, fun c _ => by rw [h2]; rfl⟩
  intro E
  induction E with
  | nil => intro S D R k prevEnd acc l _ h; exact base _ _ _ _ _ _ _ _ (Or.inl rfl) h
  | cons e es ih =>
    intro S D R k prevEnd acc l hE h
    match S, D, R with
    | [], _, _ => exact base _ _ _ _ _ _ _ _ (Or.inr (Or.inl rfl)) h
    | _ :: _, [], _ => exact base _ _ _ _ _ _ _ _ (Or.inr (Or.inr (Or.inl rfl))) h
    | _ :: _, _ :: _, [] => exact base _ _ _ _ _ _ _ _ (Or.inr (Or.inr (Or.inr rfl))) h
    | s :: ss, d :: ds, r :: rs =>
      simp only [decodeLoop] at h
      split at h
      · simp at h
      · rename_i hord
        have he : e < 65536 := hE e (List.mem_cons_self ..)
        split at h
        · rename_i segl hseg
          obtain ⟨hk, hv⟩ := decodeSeg_spec a.glyphIdArray n k s e d r segl (by omega) he hseg
          obtain ⟨l'', hl, hk'', hv''⟩ := ih ss ds rs (k + 1) (e + 1) (acc ++ segl) l
            (fun x hx => hE x (List.mem_cons_of_mem _ hx)) h
          refine ⟨segl ++ l'', by rw [hl, List.append_assoc], ?_, ?_⟩
          · intro p hp
            rw [List.mem_append] at hp
            rcases hp with hp | hp
            · have := hk p hp; omega
            · have := hk'' p hp; omega
          · intro c hc
            rw [specLookupAux_cons]
            by_cases hce : c ≤ e
            · rw [if_pos hce]
              rw [alistGet_append_left _ _ _ (fun p hp => by have := hk'' p hp; omega)]
              by_cases hsc : s ≤ c
              · rw [if_pos hsc]; exact hv c hsc hce
              · rw [if_neg hsc]
                exact alistGet_no_key _ _ (fun p hp => by have := hk p hp; omega)
            · rw [if_neg hce]
              rw [alistGet_append_right _ _ _ (fun p hp => by have := hk p hp; omega)]
              exact hv'' c (by omega)
        · simp at h

theorem unpack_some (b : Bytes) (a : Arrays) (h : unpack b = some a) :
    a.endCode.length = (wordsOf (b.drop 6)).headD 0 / 2 ∧ ∀ e ∈ a.endCode, e < 65536 := by
  unfold unpack at h
  split at h
  · simp at h
  · simp only at h
    split at h
    · simp at h
    · rename_i hlen
      simp only [Option.some.injEq] at h
      subst h
      simp only
      constructor
      · rw [List.length_take]; omega
      · intro e he
        exact wordsOf_lt _ _ (Nat.le_refl _) e (List.mem_of_mem_take he)

theorem decode_eq_spec (b : Bytes) (l : List (Nat × Nat)) (h : decode b = some l) :
    ∀ c, c < 65536 → alistGet l c = specLookupBytes b c := by
  intro c _
  unfold decode at h
  split at h
  · simp at h
  · simp only at h
    split at h
    · simp at h
    · split at h
      · simp at h
      · rename_i a ha
        obtain ⟨hn, hE⟩ := unpack_some b a ha
        obtain ⟨l', hl, _, hv⟩ := decodeLoop_spec a _ _ _ _ _ 0 0 [] l hE h
        unfold specLookupBytes specLookup
        rw [ha]
        simp only [List.nil_append] at hl
        rw [hl, hv c (Nat.zero_le _)]
        simp only [hn]

/-! ## helper for concrete examples -/

theorem skipNotdef_all_zero (m : M) : ∀ (fuel v : Nat), v ≤ 0xFFFF → 0xFFFF ≤ v + fuel →
    (∀ c, v ≤ c → c < 0xFFFF → m c % 65536 = 0) → skipNotdef m fuel v = 0xFFFF := by
  intro fuel
  induction fuel with
  | zero => intro v h1 h2 _; simp only [skipNotdef]; omega
  | succ fuel ih =>
    intro v h1 h2 h3
    simp only [skipNotdef]
    by_cases hv : v < 0xFFFF
    · rw [if_pos ⟨hv, h3 v (Nat.le_refl _) hv⟩]
      exact ih (v + 1) (by omega) (by omega) (fun c hc1 hc2 => h3 c (by omega) hc2)
    · rw [if_neg (fun h => hv h.1)]; omega

end SfntV.Cmap4
