/-
C02 (decoders are total), group `chainctx`: BRIDGE of the checked-index models
`SfntV.Total.ChainCtx.read1/read2/read3` to the value-level model of C08
(`SfntV.Otl.Ctx.readC1/readC2/readC3`, Model/OtlContext.lean): erasing panic sites and costs gives
that model on the bytes from `pos` on, for all bytes and all positions; and the dispatch
(`readChained` vs `readSubtable 6`) wherever the reader key does not collide.
-/
import SfntV.Proofs.TotalChainCtx
import SfntV.Proofs.TotalOtlBridge

namespace SfntV.Total.ChainCtx
open SfntV SfntV.Total SfntV.Total.Gdef SfntV.Total.Otl
open SfntV.Otl (bytesToWords eIO eInvalid)
open SfntV.Otl.Ctx (takeN counted pairsOf)

/-! ## the word view of the bytes -/

/-- the 16-bit words from byte position `q` on -/
abbrev W (b : Bytes) (q : Nat) : List Nat := bytesToWords (b.drop q)

theorem btw_drop : ∀ (n : Nat) (l : Bytes), (bytesToWords l).drop n = bytesToWords (l.drop (2 * n))
  | 0, l => rfl
  | n+1, [] => by simp [bytesToWords]
  | n+1, [a] => by
    have : 2 * (n + 1) = (2 * n + 1) + 1 := by omega
    simp [bytesToWords, this]
  | n+1, a :: c :: r => by
    have : 2 * (n + 1) = (2 * n + 1) + 1 := by omega
    rw [this]
    simp only [bytesToWords, List.drop_succ_cons]
    exact btw_drop n r

theorem W_drop (b : Bytes) (q n : Nat) : (W b q).drop n = W b (q + 2 * n) := by
  unfold W
  rw [btw_drop, List.drop_drop]

theorem cost_eta (c : Cost) : (⟨c.steps + 0, c.alloc⟩ : Cost) = c := by cases c; rfl

/-- EXACT: the word loop reads `n` words or fails with an I/O error -/
theorem wordsLoop_eq (site : String) (b : Bytes) : ∀ (n q : Nat) (acc : List Nat) (c : Cost),
    wordsLoop site b n q acc c =
      if n ≤ (W b q).length then .ok (acc.reverse ++ (W b q).take n, ⟨c.steps + n, c.alloc⟩)
      else .err "io"
  | 0, q, acc, c => by
    unfold wordsLoop
    rw [if_pos (Nat.zero_le _), List.take_zero, List.append_nil, cost_eta]
  | n+1, q, acc, c => by
    unfold wordsLoop
    rcases word_cases site b q with ⟨w, hw, hws⟩ | ⟨hw, hws⟩
    · rw [hw, ok_bind, wordsLoop_eq site b n (q + 2)]
      unfold W at *
      rw [hws]
      simp only [List.length_cons, Nat.add_le_add_iff_right, List.take_succ_cons, List.reverse_cons,
        List.append_assoc, List.singleton_append, Cost.tick]
      have : c.steps + 1 + n = c.steps + (n + 1) := by omega
      rw [this]
    · rw [hw]
      unfold W
      rw [hws, if_neg (by simp)]
      rfl

theorem takeN_eq (ws : List Nat) (n : Nat) :
    takeN ws n = if n ≤ ws.length then .ok (ws.take n, ws.drop n) else .err eIO := by
  unfold takeN
  by_cases h : n ≤ ws.length
  · rw [if_neg (by omega), if_pos h]
  · rw [if_pos (by omega), if_neg h]

/-- a counted array (`ReadUint16Slice`, `readGIDSlice`) against the word view -/
theorem readSlice_cases (tag : String) (b : Bytes) (q : Nat) (c : Cost) :
    (∃ xs, readSlice tag b q c =
        .ok (xs, q + 2 + 2 * xs.length, ⟨c.steps + 1 + xs.length, c.alloc + xs.length⟩) ∧
        counted (W b q) = .ok (xs, W b (q + 2 + 2 * xs.length))) ∨
    (readSlice tag b q c = .err "io" ∧ counted (W b q) = .err eIO) := by
  unfold readSlice
  rcases word_cases (tag ++ "#ReadUint16(count)") b q with ⟨n, hn, hws⟩ | ⟨hn, hws⟩
  · obtain ⟨_, hlt, _⟩ := readU16_ok hn
    rw [hn, ok_bind, mkSlice_ok _ _ _ hlt, ok_bind, wordsLoop_eq]
    unfold W at *
    rw [hws]
    unfold counted
    dsimp only
    rw [takeN_eq]
    by_cases h : n ≤ (bytesToWords (b.drop (q + 2))).length
    · rw [if_pos h, if_pos h]
      refine Or.inl ⟨(bytesToWords (b.drop (q + 2))).take n, ?_, ?_⟩
      · have hl : ((bytesToWords (b.drop (q + 2))).take n).length = n := by
          rw [List.length_take]; omega
        rw [hl]
        simp only [ok_bind, List.reverse_nil, List.nil_append, Cost.tick, Cost.mem]
        rfl
      · have hl : ((bytesToWords (b.drop (q + 2))).take n).length = n := by
          rw [List.length_take]; omega
        rw [hl]
        have := W_drop b (q + 2) n
        unfold W at this
        rw [this]
    · rw [if_neg h, if_neg h]
      exact Or.inr ⟨rfl, rfl⟩
  · rw [hn]
    unfold W
    rw [hws]
    exact Or.inr ⟨rfl, rfl⟩

theorem pairsOf_cons2 (a c : Nat) (r : List Nat) : pairsOf (a :: c :: r) = (a, c) :: pairsOf r := by
  simp [pairsOf]

/-- EXACT: the action loop (4 bytes per record) against `2·n` words -/
theorem nestedLoop_eq (b : Bytes) : ∀ (n q : Nat) (acc : List Action) (c : Cost),
    nestedLoop b n q acc c =
      if 2 * n ≤ (W b q).length then
        .ok (acc.reverse ++ pairsOf ((W b q).take (2 * n)), ⟨c.steps + n, c.alloc⟩)
      else .err "io"
  | 0, q, acc, c => by
    unfold nestedLoop
    rw [if_pos (Nat.zero_le _), Nat.mul_zero, List.take_zero]
    simp only [pairsOf, List.append_nil, cost_eta]
  | n+1, q, acc, c => by
    unfold nestedLoop
    have h2 : 2 * (n + 1) = (2 * n + 1) + 1 := by omega
    rcases rec4_cases "nested.go:36#ReadBytes(4)" "nested.go:40#buf[0],buf[1]" "nested.go:41#buf[2],buf[3]" b q with
      ⟨data, s, l, hd, hs, hl, _, _, hws⟩ | ⟨hd, hws⟩
    · rw [hd, ok_bind, hs, ok_bind, hl, ok_bind, nestedLoop_eq b n (q + 4)]
      unfold W at *
      rw [hws, h2]
      simp only [List.length_cons, Nat.add_le_add_iff_right, List.take_succ_cons, List.reverse_cons,
        List.append_assoc, List.singleton_append, Cost.tick, pairsOf_cons2]
      have : c.steps + 1 + n = c.steps + (n + 1) := by omega
      rw [this]
    · rw [hd]
      unfold W at *
      rw [if_neg (by omega)]
      rfl

theorem readNested_cases (b : Bytes) (q n : Nat) (c : Cost) (hn : n < 65536) :
    (∃ ws, readNested b q n c = .ok (pairsOf ws, ⟨c.steps + n, c.alloc + n⟩) ∧
        takeN (W b q) (2 * n) = .ok (ws, W b (q + 4 * n))) ∨
    (readNested b q n c = .err "io" ∧ takeN (W b q) (2 * n) = .err eIO) := by
  unfold readNested
  rw [mkSlice_ok _ _ _ hn, ok_bind, nestedLoop_eq, takeN_eq]
  by_cases h : 2 * n ≤ (W b q).length
  · rw [if_pos h, if_pos h]
    refine Or.inl ⟨(W b q).take (2 * n), ?_, ?_⟩
    · simp only [List.reverse_nil, List.nil_append, Cost.mem]
    · rw [W_drop, show q + 2 * (2 * n) = q + 4 * n by omega]
  · rw [if_neg h, if_neg h]
    exact Or.inr ⟨rfl, rfl⟩

/-! ## format 3 -/

theorem covSetsLoop_erase (site : String) (b : Bytes) (pos n : Nat) : ∀ (os : List Nat) (i : Nat)
    (acc : List (List Nat)) (c : Cost), i + os.length ≤ n →
    erase (covSetsLoop site b pos n os i acc c) =
      mapOk (fun r => acc.reverse ++ r) (SfntV.Otl.Ctx.readCovSets (b.drop pos) os)
  | [], _, acc, c, _ => by
    unfold covSetsLoop SfntV.Otl.Ctx.readCovSets
    simp [erase, mapOk]
  | o :: os, i, acc, c, hi => by
    unfold covSetsLoop SfntV.Otl.Ctx.readCovSets
    simp only [List.length_cons] at hi
    have he := readSet_erase b (pos + o)
    rw [List.drop_drop]
    cases hr : readSet b (pos + o) with
    | ok r =>
      obtain ⟨s, cs⟩ := r
      rw [hr] at he
      simp only [erase] at he
      rw [← he, ok_bind]
      dsimp only
      rw [chkIdx_ok _ _ _ (by omega), ok_bind, covSetsLoop_erase site b pos n os _ _ _ (by omega)]
      cases SfntV.Otl.Ctx.readCovSets (b.drop pos) os <;>
        simp [mapOk, List.reverse_cons, List.append_assoc]
    | err e =>
      rw [hr] at he
      simp only [erase] at he
      rw [← he]
      rfl
    | panic p =>
      rw [hr] at he
      simp only [erase] at he
      rw [← he]
      rfl

theorem covSetsLoop_erase0 (site : String) (b : Bytes) (pos : Nat) (os : List Nat) (c : Cost) :
    erase (covSetsLoop site b pos os.length os 0 [] c) = SfntV.Otl.Ctx.readCovSets (b.drop pos) os := by
  rw [covSetsLoop_erase site b pos os.length os 0 [] c (by omega), mapOk_id]

/-- BRIDGE, format 3: the checked-index model without its cost is the value-level model of C08
(`SfntV.Otl.Ctx.readC3`) on the bytes from `pos` on — all bytes, all positions -/
theorem readChainedSeqContext3_erase (b : Bytes) (pos : Nat) :
    erase (read3 b pos) = SfntV.Otl.Ctx.readC3 (b.drop pos) := by
  unfold read3 SfntV.Otl.Ctx.readC3
  -- the format word
  rcases word_cases "fmt" b pos with ⟨f, _, hws⟩ | ⟨_, hws⟩
  · rw [hws]
    dsimp only
    rcases readSlice_cases "nested.go:1374#ReadUint16Slice" b (pos + 2) Cost.zero with ⟨bo, h1, h1'⟩ | ⟨h1, h1'⟩
    · unfold W at h1'
      rw [h1, ok_bind, h1']
      dsimp only
      rcases readSlice_cases "nested.go:1378#ReadUint16Slice" b (pos + 2 + 2 + 2 * bo.length) ⟨Cost.zero.steps + 1 + bo.length, Cost.zero.alloc + bo.length⟩ with ⟨io, h2, h2'⟩ | ⟨h2, h2'⟩
      · unfold W at h2'
        rw [h2, ok_bind, h2']
        dsimp only
        rcases readSlice_cases "nested.go:1382#ReadUint16Slice" b (pos + 2 + 2 + 2 * bo.length + 2 + 2 * io.length) ⟨Cost.zero.steps + 1 + bo.length + 1 + io.length, Cost.zero.alloc + bo.length + io.length⟩ with ⟨lo, h3, h3'⟩ | ⟨h3, h3'⟩
        · unfold W at h3'
          rw [h3, ok_bind, h3']
          dsimp only
          split
          · rfl
          rcases word_cases "nested.go:1393#ReadUint16" b (pos + 2 + 2 + 2 * bo.length + 2 + 2 * io.length + 2 + 2 * lo.length) with ⟨slc, hs, hsw⟩ | ⟨hs, hsw⟩
          · obtain ⟨_, hlt, _⟩ := readU16_ok hs
            rw [hs, ok_bind, hsw]
            dsimp only
            rcases readNested_cases b (pos + 2 + 2 + 2 * bo.length + 2 + 2 * io.length + 2 + 2 * lo.length + 2) slc
              (Cost.tick ⟨Cost.zero.steps + 1 + bo.length + 1 + io.length + 1 + lo.length, Cost.zero.alloc + bo.length + io.length + lo.length⟩) hlt with ⟨ws, h4, h4'⟩ | ⟨h4, h4'⟩
            · unfold W at h4'
              rw [h4, ok_bind, h4']
              dsimp only
              obtain ⟨_, _, hbo, _, _⟩ := readSlice_ok h1
              obtain ⟨_, _, hio, _, _⟩ := readSlice_ok h2
              obtain ⟨_, _, hlo, _, _⟩ := readSlice_ok h3
              rw [mkSlice_ok _ _ _ hbo, ok_bind]
              have e1 := covSetsLoop_erase0 "nested.go:1404#backtrackCov[i]" b pos bo
                (Cost.mem ⟨(Cost.tick ⟨Cost.zero.steps + 1 + bo.length + 1 + io.length + 1 + lo.length, Cost.zero.alloc + bo.length + io.length + lo.length⟩).steps + slc, (Cost.tick ⟨Cost.zero.steps + 1 + bo.length + 1 + io.length + 1 + lo.length, Cost.zero.alloc + bo.length + io.length + lo.length⟩).alloc + slc⟩ bo.length)
              cases hr1 : covSetsLoop "nested.go:1404#backtrackCov[i]" b pos bo.length bo 0 [] _ with
              | ok r1 =>
                obtain ⟨cb, c5⟩ := r1
                rw [hr1] at e1
                simp only [erase] at e1
                rw [← e1, ok_bind]
                dsimp only
                rw [mkSlice_ok _ _ _ hio, ok_bind]
                have e2 := covSetsLoop_erase0 "nested.go:1412#inputCov[i]" b pos io (c5.mem io.length)
                cases hr2 : covSetsLoop "nested.go:1412#inputCov[i]" b pos io.length io 0 [] _ with
                | ok r2 =>
                  obtain ⟨ci, c6⟩ := r2
                  rw [hr2] at e2
                  simp only [erase] at e2
                  rw [← e2, ok_bind]
                  dsimp only
                  rw [mkSlice_ok _ _ _ hlo, ok_bind]
                  have e3 := covSetsLoop_erase0 "nested.go:1420#lookaheadCov[i]" b pos lo (c6.mem lo.length)
                  cases hr3 : covSetsLoop "nested.go:1420#lookaheadCov[i]" b pos lo.length lo 0 [] _ with
                  | ok r3 =>
                    obtain ⟨cl, c7⟩ := r3
                    rw [hr3] at e3
                    simp only [erase] at e3
                    rw [← e3]
                    rfl
                  | err e => rw [hr3] at e3; simp only [erase] at e3; rw [← e3]; rfl
                  | panic p => rw [hr3] at e3; simp only [erase] at e3; rw [← e3]; rfl
                | err e => rw [hr2] at e2; simp only [erase] at e2; rw [← e2]; rfl
                | panic p => rw [hr2] at e2; simp only [erase] at e2; rw [← e2]; rfl
              | err e => rw [hr1] at e1; simp only [erase] at e1; rw [← e1]; rfl
              | panic p => rw [hr1] at e1; simp only [erase] at e1; rw [← e1]; rfl
            · unfold W at h4'
              rw [h4, h4']
              rfl
          · rw [hs, hsw]
            rfl
        · unfold W at h3'
          rw [h3, h3']
          rfl
      · unfold W at h2'
        rw [h2, h2']
        rfl
    · unfold W at h1'
      rw [h1, h1']
      rfl
  · rw [hws]
    have : (readSlice "nested.go:1374#ReadUint16Slice" b (pos + 2) Cost.zero) = .err "io" := by
      unfold readSlice
      rcases word_cases ("nested.go:1374#ReadUint16Slice" ++ "#ReadUint16(count)") b (pos + 2) with ⟨n, hn, _⟩ | ⟨hn, _⟩
      · exfalso
        obtain ⟨_, _, hq⟩ := readU16_ok hn
        have hl := bytesToWords_length (b.drop pos)
        rw [hws] at hl
        simp only [List.length_nil, List.length_drop] at hl
        omega
      · rw [hn]; rfl
    rw [this]
    rfl

/-! ## the chained rule -/

theorem ctx_readCRule_drop (b : Bytes) (pos off : Nat) :
    SfntV.Otl.Ctx.readCRule (b.drop pos) off = SfntV.Otl.Ctx.readCRule b (pos + off) := by
  unfold SfntV.Otl.Ctx.readCRule
  rw [List.drop_drop]

/-- a chained rule against the value-level `readCRule`: the same rule, or both fail with an I/O
error, or both refuse a zero input glyph count (no other failure exists) -/
theorem readCRule_cases (S : RuleSites) (b : Bytes) (q : Nat) (c : Cost) :
    (∃ r c', readCRule S b q c = .ok (r, c') ∧ SfntV.Otl.Ctx.readCRule b q = .ok r) ∨
    (readCRule S b q c = .err "io" ∧ SfntV.Otl.Ctx.readCRule b q = .err eIO) ∨
    (readCRule S b q c = .err "invalid" ∧ SfntV.Otl.Ctx.readCRule b q = .err eInvalid) := by
  unfold readCRule readCRuleG SfntV.Otl.Ctx.readCRule
  rcases readSlice_cases S.back b q c with ⟨back, h1, h1'⟩ | ⟨h1, h1'⟩
  · unfold W at h1'
    rw [h1, ok_bind, h1']
    dsimp only
    rcases word_cases S.count b (q + 2 + 2 * back.length) with ⟨igc, hi, hiw⟩ | ⟨hi, hiw⟩
    · rw [hi, ok_bind, hiw]
      dsimp only
      obtain ⟨_, higc, _⟩ := readU16_ok hi
      by_cases h0 : igc = 0
      · subst h0
        rw [if_pos ⟨rfl, rfl⟩]
        exact Or.inr (Or.inr ⟨rfl, rfl⟩)
      rw [if_neg (fun hh => h0 hh.2)]
      have hb0 : (igc == 0) = false := by simpa using h0
      simp only [hb0, Bool.false_eq_true, if_false]
      have hwrap : igc - 1 = (igc + 65535) % 65536 := by omega
      rw [hwrap]
      have hm : (igc + 65535) % 65536 < 65536 := by omega
      revert hm
      generalize (igc + 65535) % 65536 = n
      intro hm
      rw [mkSlice_ok _ _ _ hm, ok_bind, wordsLoop_eq, takeN_eq]
      by_cases hle : n ≤ (W b (q + 2 + 2 * back.length + 2)).length
      · unfold W at hle
        rw [if_pos hle, if_pos hle, ok_bind]
        dsimp only
        have hl : ((bytesToWords (b.drop (q + 2 + 2 * back.length + 2))).take n).length = n := by
          rw [List.length_take]; omega
        have hd := W_drop b (q + 2 + 2 * back.length + 2) n
        unfold W at hd
        rw [hd]
        rcases readSlice_cases S.look b (q + 2 + 2 * back.length + 2 + 2 * n) _ with ⟨look, h3, h3'⟩ | ⟨h3, h3'⟩
        · unfold W at h3'
          rw [h3, ok_bind, h3']
          dsimp only
          rcases word_cases S.nact b (q + 2 + 2 * back.length + 2 + 2 * n + 2 + 2 * look.length) with ⟨slc, hs, hsw⟩ | ⟨hs, hsw⟩
          · obtain ⟨_, hlt, _⟩ := readU16_ok hs
            rw [hs, ok_bind, hsw]
            dsimp only
            rcases readNested_cases b (q + 2 + 2 * back.length + 2 + 2 * n + 2 + 2 * look.length + 2) slc _ hlt with ⟨ws, h4, h4'⟩ | ⟨h4, h4'⟩
            · unfold W at h4'
              rw [h4, ok_bind, h4']
              simp only [List.reverse_nil, List.nil_append]
              exact Or.inl ⟨_, _, rfl, rfl⟩
            · unfold W at h4'
              rw [h4, h4']
              exact Or.inr (Or.inl ⟨rfl, rfl⟩)
          · rw [hs, hsw]
            exact Or.inr (Or.inl ⟨rfl, rfl⟩)
        · unfold W at h3'
          rw [h3, h3']
          exact Or.inr (Or.inl ⟨rfl, rfl⟩)
      · unfold W at hle
        rw [if_neg hle, if_neg hle]
        exact Or.inr (Or.inl ⟨rfl, rfl⟩)
    · rw [hi, hiw]
      exact Or.inr (Or.inl ⟨rfl, rfl⟩)
  · unfold W at h1'
    rw [h1, h1']
    exact Or.inr (Or.inl ⟨rfl, rfl⟩)

/-! ## format 2 -/

theorem ctx_readRules_drop (b : Bytes) (pos o : Nat) : ∀ (os : List Nat),
    SfntV.Otl.Ctx.readRules SfntV.Otl.Ctx.readCRule (b.drop pos) o os =
      SfntV.Otl.Ctx.readRules SfntV.Otl.Ctx.readCRule b (pos + o) os
  | [] => rfl
  | x :: os => by
    unfold SfntV.Otl.Ctx.readRules
    rw [ctx_readCRule_drop, ctx_readRules_drop b pos o os, Nat.add_assoc]

theorem rulesLoop2_erase (b : Bytes) (base n : Nat) : ∀ (os : List Nat) (j : Nat) (acc : List Rule)
    (c : Cost), j + os.length ≤ n →
    erase (rulesLoop2 b base n os j acc c) =
      mapOk (fun rs => acc.reverse ++ rs) (SfntV.Otl.Ctx.readRules SfntV.Otl.Ctx.readCRule b base os)
  | [], _, acc, c, _ => by
    unfold rulesLoop2 SfntV.Otl.Ctx.readRules
    simp [erase, mapOk]
  | o :: os, j, acc, c, hj => by
    unfold rulesLoop2 SfntV.Otl.Ctx.readRules
    simp only [List.length_cons] at hj
    rcases readCRule_cases sites2 b (base + o) c.tick with ⟨r, c', h1, h2⟩ | ⟨h1, h2⟩ | ⟨h1, h2⟩
    · rw [h1, ok_bind, h2]
      dsimp only
      rw [chkIdx_ok _ _ _ (by omega), ok_bind, rulesLoop2_erase b base n os _ _ _ (by omega)]
      cases SfntV.Otl.Ctx.readRules SfntV.Otl.Ctx.readCRule b base os <;>
        simp [mapOk, List.reverse_cons, List.append_assoc]
    · rw [h1, h2]
      rfl
    · rw [h1, h2]
      rfl

theorem setsLoop2_erase (b : Bytes) (pos n : Nat) : ∀ (os : List Nat) (i : Nat) (acc : Sets)
    (c : Cost), i + os.length ≤ n →
    erase (setsLoop2 b pos n os i acc c) =
      mapOk (fun ss => acc.reverse ++ ss)
        (SfntV.Otl.Ctx.readSets SfntV.Otl.Ctx.readCRule (b.drop pos) os)
  | [], _, acc, c, _ => by
    unfold setsLoop2 SfntV.Otl.Ctx.readSets
    simp [erase, mapOk]
  | o :: os, i, acc, c, hi => by
    unfold setsLoop2 SfntV.Otl.Ctx.readSets
    simp only [List.length_cons] at hi
    by_cases h0 : o = 0
    · subst h0
      rw [if_pos rfl, setsLoop2_erase b pos n os _ _ _ (by omega)]
      simp only [BEq.rfl, if_true]
      cases SfntV.Otl.Ctx.readSets SfntV.Otl.Ctx.readCRule (b.drop pos) os <;>
        simp [mapOk, List.reverse_cons, List.append_assoc]
    · rw [if_neg h0]
      have hb : (o == 0) = false := by simpa using h0
      simp only [hb]
      unfold SfntV.Otl.Ctx.readSet
      rw [List.drop_drop]
      rcases readSlice_cases "nested.go:1059#ReadUint16Slice" b (pos + o) c.tick with ⟨offs, h1, h1'⟩ | ⟨h1, h1'⟩
      · unfold W at h1'
        obtain ⟨_, _, hlt, _, _⟩ := readSlice_ok h1
        rw [h1, ok_bind, h1']
        dsimp only
        rw [mkSlice_ok _ _ _ hlt, ok_bind, chkIdx_ok _ _ _ (by omega), ok_bind, ctx_readRules_drop]
        have e := rulesLoop2_erase b (pos + o) offs.length offs 0 []
          (Cost.mem ⟨c.tick.steps + 1 + offs.length, c.tick.alloc + offs.length⟩ offs.length) (by omega)
        rw [mapOk_id] at e
        cases hr : rulesLoop2 b (pos + o) offs.length offs 0 [] _ with
        | ok r =>
          obtain ⟨rules, c2⟩ := r
          rw [hr] at e
          simp only [erase] at e
          rw [← e, ok_bind]
          dsimp only
          rw [setsLoop2_erase b pos n os _ _ _ (by omega)]
          cases SfntV.Otl.Ctx.readSets SfntV.Otl.Ctx.readCRule (b.drop pos) os <;>
            simp [mapOk, List.reverse_cons, List.append_assoc]
        | err e' => rw [hr] at e; simp only [erase] at e; rw [← e]; rfl
        | panic p => rw [hr] at e; simp only [erase] at e; rw [← e]; rfl
      · unfold W at h1'
        rw [h1, h1']
        rfl

theorem eight_split : ∀ l : Bytes, 8 ≤ l.length →
    ∃ a0 a1 a2 a3 a4 a5 a6 a7 r, l = a0 :: a1 :: a2 :: a3 :: a4 :: a5 :: a6 :: a7 :: r
  | a0 :: a1 :: a2 :: a3 :: a4 :: a5 :: a6 :: a7 :: r, _ => ⟨a0, a1, a2, a3, a4, a5, a6, a7, r, rfl⟩
  | [], h | [_], h | [_, _], h | [_, _, _], h | [_, _, _, _], h | [_, _, _, _, _], h
  | [_, _, _, _, _, _], h | [_, _, _, _, _, _, _], h => by
    simp only [List.length_cons, List.length_nil] at h; omega

/-- the 8-byte header read of format 2 against the word view -/
theorem rec8_cases (s0 s1 s2 s3 s4 : String) (b : Bytes) (q : Nat) :
    (∃ buf x0 x1 x2 x3, readBytes s0 b q 8 = .ok buf ∧ w16 s1 buf 0 = .ok x0 ∧ w16 s2 buf 2 = .ok x1 ∧
        w16 s3 buf 4 = .ok x2 ∧ w16 s4 buf 6 = .ok x3 ∧
        bytesToWords (b.drop q) = x0 :: x1 :: x2 :: x3 :: bytesToWords (b.drop (q + 8))) ∨
    (readBytes s0 b q 8 = .err "io" ∧ (bytesToWords (b.drop q)).length < 4) := by
  have hlen := List.length_drop (i := q) (l := b)
  by_cases h : q + 8 ≤ b.length
  · obtain ⟨a0, a1, a2, a3, a4, a5, a6, a7, r, hd⟩ := eight_split (b.drop q) (by omega)
    refine Or.inl ⟨[a0, a1, a2, a3, a4, a5, a6, a7], be a0 a1, be a2 a3, be a4 a5, be a6 a7, ?_, rfl, rfl, rfl, rfl, ?_⟩
    · unfold readBytes
      rw [if_neg (by omega), if_pos h, hd]
      rfl
    · rw [← List.drop_drop, hd]
      rfl
  · refine Or.inr ⟨?_, ?_⟩
    · unfold readBytes
      rw [if_neg (by omega), if_neg h]
    · rw [bytesToWords_length]
      omega

theorem short4 {ws : List Nat} (h : ws.length < 4) :
    ws = [] ∨ (∃ a, ws = [a]) ∨ (∃ a b, ws = [a, b]) ∨ (∃ a b c, ws = [a, b, c]) := by
  match ws, h with
  | [], _ => exact Or.inl rfl
  | [a], _ => exact Or.inr (Or.inl ⟨a, rfl⟩)
  | [a, b], _ => exact Or.inr (Or.inr (Or.inl ⟨a, b, rfl⟩))
  | [a, b, c], _ => exact Or.inr (Or.inr (Or.inr ⟨a, b, c, rfl⟩))
  | _ :: _ :: _ :: _ :: _, h => simp only [List.length_cons] at h; omega

/-- on a well-formed table the checked `EncodeLen` is the total one of the value-level model -/
theorem covEncodeLen_eq {cov : List (Nat × Nat)} (h : CovOk cov) :
    covEncodeLen cov = .ok (SfntV.Otl.Ctx.covLenOf cov) := by
  obtain ⟨gs, hp, rfl⟩ := h
  unfold covEncodeLen SfntV.Otl.Ctx.covLenOf
  have h1 : (gs.zipIdx.map fun p => (p.1, (p.2 : Int))) = SfntV.Otl.Cov.tableOf gs := rfl
  have h2 : gs.zipIdx.map (·.1) = gs := by
    simp
  rw [h1, SfntV.Otl.Cov.revOf_table gs _ (List.Perm.refl _), h2]
  dsimp only
  unfold SfntV.Otl.Cov.encodeLen
  rw [SfntV.Otl.Cov.increasing_of_pairwise gs hp]
  rfl

theorem erase_cases (x : Outcome (α × Cost)) :
    (∃ a c, x = .ok (a, c) ∧ erase x = .ok a) ∨ (∃ e, x = .err e ∧ erase x = .err e) ∨
      (∃ p, x = .panic p ∧ erase x = .panic p) := by
  cases x with
  | ok r => obtain ⟨a, c⟩ := r; exact Or.inl ⟨a, c, rfl, rfl⟩
  | err e => exact Or.inr (Or.inl ⟨e, rfl, rfl⟩)
  | panic p => exact Or.inr (Or.inr ⟨p, rfl, rfl⟩)

theorem trunc2_eq (offs0 : List Nat) (k : Nat) : trunc2 offs0 k = .ok (offs0.take k) := by
  unfold trunc2
  split
  · unfold sliceTo
    rw [if_pos (by omega)]
  · rw [List.take_of_length_le (by omega)]

/-- BRIDGE, format 2: the checked-index model without its cost is the value-level model of C08
(`SfntV.Otl.Ctx.readC2`) on the bytes from `pos` on — all bytes, all positions -/
theorem readChainedSeqContext2_erase (b : Bytes) (pos : Nat) :
    erase (read2 b pos) = SfntV.Otl.Ctx.readC2 (b.drop pos) := by
  unfold read2 SfntV.Otl.Ctx.readC2
  rcases word_cases "fmt" b pos with ⟨f, _, hws⟩ | ⟨_, hws⟩
  · rw [hws]
    rcases rec8_cases "nested.go:1011#ReadBytes(8)" "nested.go:1015#buf[0],buf[1]" "nested.go:1016#buf[2],buf[3]"
        "nested.go:1017#buf[4],buf[5]" "nested.go:1018#buf[6],buf[7]" b (pos + 2) with
      ⟨buf, covOff, bOff, iOff, lOff, hb, h0, h1, h2, h3, hw8⟩ | ⟨hb, hshort⟩
    · rw [hb, ok_bind, h0, ok_bind, h1, ok_bind, h2, ok_bind, h3, ok_bind, hw8,
        show pos + 2 + 8 = pos + 10 by omega]
      dsimp only
      rcases readSlice_cases "nested.go:1020#ReadUint16Slice" b (pos + 10) Cost.zero.tick with ⟨offs0, hs, hs'⟩ | ⟨hs, hs'⟩
      · unfold W at hs'
        obtain ⟨_, _, hlt, _, _⟩ := readSlice_ok hs
        rw [hs, ok_bind, hs']
        dsimp only
        simp only [List.drop_drop]
        rcases erase_cases (coverageRead b (pos + covOff)) with ⟨cov, cc, hx, he⟩ | ⟨e, hx, he⟩ | ⟨p, hx, he⟩
        · rw [coverageRead_erase] at he
          rw [hx, ok_bind, he]
          dsimp only
          rcases erase_cases (classdefRead b (pos + bOff)) with ⟨cb, c2, hx2, he2⟩ | ⟨e, hx2, he2⟩ | ⟨p, hx2, he2⟩
          · rw [classdefRead_erase] at he2
            rw [hx2, ok_bind, he2]
            dsimp only
            rcases erase_cases (classdefRead b (pos + iOff)) with ⟨ci, c3, hx3, he3⟩ | ⟨e, hx3, he3⟩ | ⟨p, hx3, he3⟩
            · rw [classdefRead_erase] at he3
              rw [hx3, ok_bind, he3]
              dsimp only
              rcases erase_cases (classdefRead b (pos + lOff)) with ⟨cl, c4, hx4, he4⟩ | ⟨e, hx4, he4⟩ | ⟨p, hx4, he4⟩
              · rw [classdefRead_erase] at he4
                rw [hx4, ok_bind, he4]
                dsimp only
                rw [trunc2_eq, ok_bind]
                have hlen : (offs0.take (SfntV.Otl.Ctx.numClasses ci)).length < 65536 := by
                  rw [List.length_take]; omega
                rw [mkSlice_ok _ _ _ hlen, ok_bind]
                have e := setsLoop2_erase b pos _ (offs0.take (SfntV.Otl.Ctx.numClasses ci)) 0 []
                  (Cost.mem ((Cost.add (Cost.add (Cost.add (Cost.add
                    ⟨Cost.zero.tick.steps + 1 + offs0.length, Cost.zero.tick.alloc + offs0.length⟩ cc) c2) c3) c4).tick (mapLen ci))
                    (offs0.take (SfntV.Otl.Ctx.numClasses ci)).length) (Nat.le_of_eq (Nat.zero_add _))
                rw [mapOk_id] at e
                rcases erase_cases (setsLoop2 b pos (offs0.take (SfntV.Otl.Ctx.numClasses ci)).length
                    (offs0.take (SfntV.Otl.Ctx.numClasses ci)) 0 []
                    (Cost.mem ((Cost.add (Cost.add (Cost.add (Cost.add
                    ⟨Cost.zero.tick.steps + 1 + offs0.length, Cost.zero.tick.alloc + offs0.length⟩ cc) c2) c3) c4).tick (mapLen ci))
                    (offs0.take (SfntV.Otl.Ctx.numClasses ci)).length)) with
                  ⟨sets, c6, hx6, he6⟩ | ⟨e', hx6, he6⟩ | ⟨p, hx6, he6⟩
                · rw [e] at he6
                  rw [hx6, ok_bind, he6]
                  dsimp only
                  rw [covEncodeLen_eq (coverageRead_covOk hx), ok_bind]
                  split <;> rfl
                · rw [e] at he6
                  rw [hx6, he6]; rfl
                · rw [e] at he6
                  rw [hx6, he6]; rfl
              · rw [classdefRead_erase] at he4
                rw [hx4, he4]; rfl
              · rw [classdefRead_erase] at he4
                rw [hx4, he4]; rfl
            · rw [classdefRead_erase] at he3
              rw [hx3, he3]; rfl
            · rw [classdefRead_erase] at he3
              rw [hx3, he3]; rfl
          · rw [classdefRead_erase] at he2
            rw [hx2, he2]; rfl
          · rw [classdefRead_erase] at he2
            rw [hx2, he2]; rfl
        · rw [coverageRead_erase] at he
          rw [hx, he]; rfl
        · rw [coverageRead_erase] at he
          rw [hx, he]; rfl
      · unfold W at hs'
        rw [hs, hs']
        rfl
    · rw [hb]
      rcases short4 hshort with h | ⟨a, h⟩ | ⟨a, a', h⟩ | ⟨a, a', a'', h⟩ <;> rw [h] <;> rfl
  · rw [hws]
    have : readBytes "nested.go:1011#ReadBytes(8)" b (pos + 2) 8 = .err "io" := by
      unfold readBytes
      have hl := bytesToWords_length (b.drop pos)
      rw [hws] at hl
      simp only [List.length_nil, List.length_drop] at hl
      rw [if_neg (by omega), if_neg (by omega)]
    rw [this]
    rfl

/-! ## format 1 -/

/-- forget the cost of a result with two components -/
def erase3 : Outcome (α × β × Cost) → Outcome (α × β)
  | .ok (a, x, _) => .ok (a, x)
  | .err e => .err e
  | .panic s => .panic s

theorem erase3_cases (x : Outcome (α × β × Cost)) :
    (∃ a y c, x = .ok (a, y, c) ∧ erase3 x = .ok (a, y)) ∨ (∃ e, x = .err e ∧ erase3 x = .err e) ∨
      (∃ p, x = .panic p ∧ erase3 x = .panic p) := by
  cases x with
  | ok r => obtain ⟨a, y, c⟩ := r; exact Or.inl ⟨a, y, c, rfl, rfl⟩
  | err e => exact Or.inr (Or.inl ⟨e, rfl, rfl⟩)
  | panic p => exact Or.inr (Or.inr ⟨p, rfl, rfl⟩)

theorem rulesLoop1_erase (b : Bytes) (pos o n : Nat) : ∀ (ros : List Nat) (j size : Nat)
    (acc : List Rule) (c : Cost), j + ros.length ≤ n →
    erase3 (rulesLoop1 b (pos + o) n ros j size acc c) =
      mapOk (fun p => (acc.reverse ++ p.1, p.2)) (SfntV.Otl.Ctx.readSetsC1.go (b.drop pos) o ros size)
  | [], _, size, acc, c, _ => by
    unfold rulesLoop1 SfntV.Otl.Ctx.readSetsC1.go
    simp [erase3, mapOk]
  | ro :: ros, j, size, acc, c, hj => by
    unfold rulesLoop1 SfntV.Otl.Ctx.readSetsC1.go
    simp only [List.length_cons] at hj
    rw [ctx_readCRule_drop, ← Nat.add_assoc]
    rcases readCRule_cases sites1 b (pos + o + ro) c.tick with ⟨r, c', h1, h2⟩ | ⟨h1, h2⟩ | ⟨h1, h2⟩
    · rw [h1, ok_bind, h2]
      dsimp only
      split
      · rfl
      rw [chkIdx_ok _ _ _ (by omega), ok_bind, rulesLoop1_erase b pos o n ros _ _ _ _ (by omega)]
      cases SfntV.Otl.Ctx.readSetsC1.go (b.drop pos) o ros (size + SfntV.Otl.Ctx.cruleLen r) <;>
        simp [mapOk, List.reverse_cons, List.append_assoc]
    · rw [h1, h2]
      rfl
    · rw [h1, h2]
      rfl

/-- forget the final total and the cost -/
def eraseS : Outcome (Sets × Nat × Cost) → Outcome Sets
  | .ok (a, _, _) => .ok a
  | .err e => .err e
  | .panic s => .panic s

theorem setsLoop1_erase (b : Bytes) (pos n : Nat) : ∀ (os : List Nat) (i total : Nat) (acc : Sets)
    (c : Cost), i + os.length ≤ n →
    eraseS (setsLoop1 b pos n os i total acc c) =
      mapOk (fun ss => acc.reverse ++ ss) (SfntV.Otl.Ctx.readSetsC1 (b.drop pos) os total)
  | [], _, total, acc, c, _ => by
    unfold setsLoop1 SfntV.Otl.Ctx.readSetsC1
    simp [eraseS, mapOk]
  | o :: os, i, total, acc, c, hi => by
    unfold setsLoop1 SfntV.Otl.Ctx.readSetsC1
    simp only [List.length_cons] at hi
    by_cases h0 : o = 0
    · subst h0
      rw [if_pos rfl, setsLoop1_erase b pos n os _ _ _ _ (by omega)]
      simp only [BEq.rfl, if_true]
      cases SfntV.Otl.Ctx.readSetsC1 (b.drop pos) os total <;>
        simp [mapOk, List.reverse_cons, List.append_assoc]
    · rw [if_neg h0]
      have hb : (o == 0) = false := by simpa using h0
      simp only [hb]
      rw [List.drop_drop]
      rcases readSlice_cases "nested.go:714#ReadUint16Slice" b (pos + o) c.tick with ⟨offs, h1, h1'⟩ | ⟨h1, h1'⟩
      · unfold W at h1'
        obtain ⟨_, _, hlt, _, _⟩ := readSlice_ok h1
        rw [h1, ok_bind, h1']
        dsimp only
        split
        · rfl
        rw [mkSlice_ok _ _ _ hlt, ok_bind, chkIdx_ok _ _ _ (by omega), ok_bind]
        have e := rulesLoop1_erase b pos o offs.length offs 0 (2 + 2 * offs.length) []
          (Cost.mem ⟨c.tick.steps + 1 + offs.length, c.tick.alloc + offs.length⟩ offs.length) (by omega)
        rcases erase3_cases (rulesLoop1 b (pos + o) offs.length offs 0 (2 + 2 * offs.length) []
          (Cost.mem ⟨c.tick.steps + 1 + offs.length, c.tick.alloc + offs.length⟩ offs.length)) with
          ⟨rules, size, c2, hx, he⟩ | ⟨e', hx, he⟩ | ⟨p, hx, he⟩
        · rw [e] at he
          rw [hx, ok_bind]
          dsimp only
          cases hg : SfntV.Otl.Ctx.readSetsC1.go (b.drop pos) o offs (2 + 2 * offs.length) with
          | ok g =>
            obtain ⟨rs, sz⟩ := g
            rw [hg] at he
            simp only [mapOk, List.reverse_nil, List.nil_append] at he
            injection he with he
            injection he with he1 he2
            subst he1 he2
            dsimp only
            rw [setsLoop1_erase b pos n os _ _ _ _ (by omega)]
            cases SfntV.Otl.Ctx.readSetsC1 (b.drop pos) os (total + sz) <;>
              simp [mapOk, List.reverse_cons, List.append_assoc]
          | err e2 => rw [hg] at he; simp [mapOk] at he
          | panic p2 => rw [hg] at he; simp [mapOk] at he
        · rw [e] at he
          rw [hx]
          cases hg : SfntV.Otl.Ctx.readSetsC1.go (b.drop pos) o offs (2 + 2 * offs.length) with
          | ok g => rw [hg] at he; simp [mapOk] at he
          | err e2 =>
            rw [hg] at he
            simp only [mapOk] at he
            injection he with he
            subst he
            rfl
          | panic p2 => rw [hg] at he; simp [mapOk] at he
        · rw [e] at he
          rw [hx]
          cases hg : SfntV.Otl.Ctx.readSetsC1.go (b.drop pos) o offs (2 + 2 * offs.length) with
          | ok g => rw [hg] at he; simp [mapOk] at he
          | err e2 => rw [hg] at he; simp [mapOk] at he
          | panic p2 =>
            rw [hg] at he
            simp only [mapOk] at he
            injection he with he
            subst he
            rfl
      · unfold W at h1'
        rw [h1, h1']
        rfl

theorem prune1_eq (cov : List (Nat × Nat)) (offs : List Nat) (c : Cost) :
    ∃ c', prune1 cov offs c = .ok ((SfntV.Otl.Ctx.pruneC cov offs).1, (SfntV.Otl.Ctx.pruneC cov offs).2, c') := by
  unfold prune1 SfntV.Otl.Ctx.pruneC
  split
  · exact ⟨_, rfl⟩
  · unfold sliceTo
    rw [if_pos (by omega)]
    exact ⟨_, rfl⟩

/-- BRIDGE, format 1: the checked-index model without its cost is the value-level model of C08
(`SfntV.Otl.Ctx.readC1`) on the bytes from `pos` on — all bytes, all positions -/
theorem readChainedSeqContext1_erase (b : Bytes) (pos : Nat) :
    erase (read1 b pos) = SfntV.Otl.Ctx.readC1 (b.drop pos) := by
  unfold read1 SfntV.Otl.Ctx.readC1
  rcases word_cases "fmt" b pos with ⟨f, _, hws⟩ | ⟨_, hws⟩
  · rw [hws]
    rcases word_cases "nested.go:679#ReadUint16" b (pos + 2) with ⟨covOff, hc, hcw⟩ | ⟨hc, hcw⟩
    · rw [hc, ok_bind, hcw, show pos + 2 + 2 = pos + 4 by omega]
      dsimp only
      rcases readSlice_cases "nested.go:683#ReadUint16Slice" b (pos + 4) Cost.zero.tick with ⟨offs0, hs, hs'⟩ | ⟨hs, hs'⟩
      · unfold W at hs'
        obtain ⟨_, _, hlt, _, _⟩ := readSlice_ok hs
        rw [hs, ok_bind, hs']
        dsimp only
        simp only [List.drop_drop]
        rcases erase_cases (coverageRead b (pos + covOff)) with ⟨cov0, cc, hx, he⟩ | ⟨e, hx, he⟩ | ⟨p, hx, he⟩
        · rw [coverageRead_erase] at he
          rw [hx, ok_bind, he]
          dsimp only
          obtain ⟨c3, hpr⟩ := prune1_eq cov0 offs0
            (Cost.add ⟨Cost.zero.tick.steps + 1 + offs0.length, Cost.zero.tick.alloc + offs0.length⟩ cc)
          obtain ⟨hcov, hlen, _⟩ := prune1_ok (coverageRead_covOk hx) hpr
          rw [hpr, ok_bind]
          dsimp only
          rw [covEncodeLen_eq hcov, ok_bind, mkSlice_ok _ _ _ (by omega), ok_bind]
          have e := setsLoop1_erase b pos _ (SfntV.Otl.Ctx.pruneC cov0 offs0).2 0
            (6 + 2 * (SfntV.Otl.Ctx.pruneC cov0 offs0).2.length + SfntV.Otl.Ctx.covLenOf (SfntV.Otl.Ctx.pruneC cov0 offs0).1) []
            (Cost.mem ((c3.tick (3 * mapLen (SfntV.Otl.Ctx.pruneC cov0 offs0).1)).mem (mapLen (SfntV.Otl.Ctx.pruneC cov0 offs0).1))
              (SfntV.Otl.Ctx.pruneC cov0 offs0).2.length) (Nat.le_of_eq (Nat.zero_add _))
          rw [mapOk_id] at e
          cases hx6 : setsLoop1 b pos (SfntV.Otl.Ctx.pruneC cov0 offs0).2.length (SfntV.Otl.Ctx.pruneC cov0 offs0).2 0
            (6 + 2 * (SfntV.Otl.Ctx.pruneC cov0 offs0).2.length + SfntV.Otl.Ctx.covLenOf (SfntV.Otl.Ctx.pruneC cov0 offs0).1) []
            (Cost.mem ((c3.tick (3 * mapLen (SfntV.Otl.Ctx.pruneC cov0 offs0).1)).mem (mapLen (SfntV.Otl.Ctx.pruneC cov0 offs0).1))
              (SfntV.Otl.Ctx.pruneC cov0 offs0).2.length) with
          | ok r =>
            obtain ⟨sets, t', c6⟩ := r
            rw [hx6] at e
            simp only [eraseS] at e
            rw [← e]
            rfl
          | err e' =>
            rw [hx6] at e
            simp only [eraseS] at e
            rw [← e]
            rfl
          | panic p =>
            rw [hx6] at e
            simp only [eraseS] at e
            rw [← e]
            rfl
        · rw [coverageRead_erase] at he
          rw [hx, he]; rfl
        · rw [coverageRead_erase] at he
          rw [hx, he]; rfl
      · unfold W at hs'
        rw [hs, hs']
        rfl
    · rw [hc, hcw]
      rfl
  · rw [hws]
    have : readU16 "nested.go:679#ReadUint16" b (pos + 2) = .err "io" := by
      rcases word_cases "nested.go:679#ReadUint16" b (pos + 2) with ⟨n, hn, _⟩ | ⟨hn, _⟩
      · exfalso
        obtain ⟨_, _, hq⟩ := readU16_ok hn
        have hl := bytesToWords_length (b.drop pos)
        rw [hws] at hl
        simp only [List.length_nil, List.length_drop] at hl
        omega
      · exact hn
    rw [this]
    rfl

/-- BRIDGE, dispatch (all bytes, all positions, no side condition): the model of the repaired
`readGsubSubtable` for lookup type 6 without its cost is `SfntV.Otl.Ctx.readSubtable 6` on the
bytes from `pos` on.  (Before the repair C02-dispatch-key the two differed on the format words 11,
21 and ≥ 65476, whose uint16 key `10*6+format` was the key of another reader: `readChainedOld`,
`readChainedOld_collision`.) -/
theorem readChained_erase (b : Bytes) (pos : Nat) :
    erase (readChained b pos) = SfntV.Otl.Ctx.readSubtable 6 (b.drop pos) := by
  rw [readChained_eq]
  unfold SfntV.Otl.Ctx.readSubtable
  rcases word_cases "gsub.go:36#ReadUint16" b pos with ⟨f, hf, hws⟩ | ⟨hf, hws⟩
  · rw [hf, ok_bind, hws]
    dsimp only
    have h5 : ((6 : Nat) == 5) = false := by decide
    have h6 : ((6 : Nat) == 6) = true := by decide
    simp only [h5, h6, Bool.false_and, Bool.true_and, Bool.false_eq_true, if_false]
    by_cases h1 : f = 1
    · subst h1
      simp only [if_true, BEq.rfl]
      exact readChainedSeqContext1_erase b pos
    by_cases h2 : f = 2
    · subst h2
      rw [if_neg (by omega), if_pos rfl]
      have : ((2 : Nat) == 1) = false := by decide
      simp only [this, Bool.false_eq_true, if_false, BEq.rfl, if_true]
      exact readChainedSeqContext2_erase b pos
    by_cases h3 : f = 3
    · subst h3
      rw [if_neg (by omega), if_neg (by omega), if_pos rfl]
      have e1 : ((3 : Nat) == 1) = false := by decide
      have e2 : ((3 : Nat) == 2) = false := by decide
      simp only [e1, e2, Bool.false_eq_true, if_false, BEq.rfl, if_true]
      exact readChainedSeqContext3_erase b pos
    · rw [if_neg h1, if_neg h2, if_neg h3]
      have e1 : (f == 1) = false := by simpa using h1
      have e2 : (f == 2) = false := by simpa using h2
      have e3 : (f == 3) = false := by simpa using h3
      simp only [e1, e2, e3, Bool.false_eq_true, if_false]
      rfl
  · rw [hf, hws]
    rfl

end SfntV.Total.ChainCtx
