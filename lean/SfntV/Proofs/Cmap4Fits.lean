/-
C09, format 4: a subtable that fits the 64 KiB limit of the format has fewer than 8190
segments, so the 16-bit field segCountX2 cannot wrap inside the stated domain.
-/
import SfntV.Proofs.Cmap4

namespace SfntV.Cmap4
open SfntV

/-- number of bytes `Format4.Encode` emits: 16 header/padding bytes, 8 per segment, 2 per entry of
the glyph id array -/
theorem encode_length (m : M) (lang : Nat) (path : List Seg) (b : Bytes)
    (hb : encode m lang path = some b) :
    b.length = 2 * (8 + 4 * path.length + (assemble m path).glyphIdArray.length) := by
  unfold encode at hb
  obtain ⟨_, hbe⟩ := pack_eq lang _ b hb
  obtain ⟨l1, l2, l3, l4⟩ := assembleAux_lengths m path.length path 0 []
  unfold assemble at hbe ⊢
  generalize assembleAux m path.length 0 path [] = a at *
  rw [hbe]
  simp only [List.length_append, words_length, List.length_cons, List.length_nil,
    l1, l2, l3, l4]
  omega

theorem encode_fits_segments (m : M) (lang : Nat) (path : List Seg) (b : Bytes)
    (hb : encode m lang path = some b) (hl : b.length < 65536) : path.length < 8190 := by
  have := encode_length m lang path b hb
  omega

/-- `lookup_encode` with the domain of the property ("up to the 64 KiB subtable limit") in place
of the bound on the number of segments -/
theorem lookup_encode_64k (m : M) (lang : Nat) (path : List Seg) (b : Bytes) (h : IsPath m 0 path)
    (hb : encode m lang path = some b) (hl : b.length < 65536) :
    ∀ c, c < 65536 → specLookupBytes b c = m c % 65536 :=
  lookup_encode m lang path b h (by have := encode_fits_segments m lang path b hb hl; omega) hb

end SfntV.Cmap4
