import SfntV.Proofs.DslGpos2All
/-! C19, GPOS 3 (cursive attachment): the general round trip. -/
set_option linter.unusedSimpArgs false
set_option linter.unusedVariables false
namespace SfntV.Dsl

theorem atoi_plain (v : Int) (h : -65536 < v ∧ v < 65536) : atoi (plainInt v) = some v := by
  cases v with
  | ofNat n =>
    have hn : n < 65536 := by
      have := h.2
      simp only [Int.ofNat_eq_natCast] at this
      omega
    exact atoi_decimal n hn
  | negSucc n => exact atoi_signed (Int.negSucc n) h

theorem plain_shape (v : Int) : IntShape (ascii (plainInt v)) := by
  cases v with
  | ofNat n =>
    have hne := decimal_ne_nil n
    cases hds : decimal n with
    | nil => exact absurd hds hne
    | cons d ds =>
      refine ⟨ascii ds, ?_, Or.inl ⟨a1 d, by simp [plainInt, hds, ascii, a1], ?_⟩⟩
      · intro x hx
        simp only [ascii, List.mem_map] at hx
        obtain ⟨c, hc, rfl⟩ := hx
        exact decimal_digits n c (by rw [hds]; simp [hc])
      · exact decimal_digits n d (by rw [hds]; simp)
  | negSucc n => exact signed_shape (Int.negSucc n)

theorem plain_ascii (v : Int) : ∀ c ∈ plainInt v, c < 128 := by
  intro c hc
  cases v with
  | ofNat n =>
    have := decimal_digits n c hc; simp [inR] at this; omega
  | negSucc n => exact signed_ascii (Int.negSucc n) c hc

/-- `n` or `-n` (printed by `%d`) read by `readInt16` -/
theorem frag_readInt16p (v : Int) (h : -32768 ≤ v ∧ v ≤ 32767) :
    Frag readInt16 [.tok tInteger (ascii (plainInt v))] v anyTok (fun nx => ∀ r, nx = some r → inR 48 57 r = false) := by
  refine ⟨?_, ?_, ?_⟩
  · intro nx hn
    refine ⟨?_, trivial⟩
    right; left
    exact ⟨rfl, plain_shape v, hn⟩
  · intro rb hrb
    simp only [render, List.flatMap_cons, Piece.rbs, List.flatMap_nil, List.append_nil] at hrb
    exact ascii_canon _ (plain_ascii v) rb hrb
  · intro line s t rest hs _
    obtain ⟨s1, e1, hs1⟩ := readItem_stream s { typ := tInteger, val := ascii (plainInt v), line := line } _
      (by simpa [mkToks] using hs)
    refine ⟨s1, ?_, hs1⟩
    unfold readInt16
    rw [bind_run, e1]
    have ha : atoi (ascii (plainInt v) |>.flatMap (·.2)) = some v := by
      rw [ascii_bytes]; exact atoi_plain v (by omega)
    simp only [bne_self_eq_false, Bool.false_eq_true, if_false, Tok.bytes, ha]
    have c1 : (decide (v > 9223372036854775807) || decide (v < -9223372036854775808)) = false := by
      simp; omega
    have c2 : (decide (v < -32768) || decide (v > 32767)) = false := by simp; omega
    simp only [c1, c2, Bool.false_eq_true, if_false, pure_run]

theorem frag_bind1 {α β : Type} {m : PM α} {f : α → PM β} {p : Piece} {b : List Piece} {x : α} {y : β}
    {P1 P : Tok → Prop} {N1 N : Option Nat → Prop}
    (ha : Frag m [p] x P1 N1) (hb : Frag (f x) b y P N)
    (hN : ∀ nx, N nx → N1 (nextRune b nx))
    (hP : ∀ line t, P t → P1 ((mkToks line b).head?.getD t)) : Frag (m >>= f) (p :: b) y P N :=
  frag_bind (a := [p]) ha hb hN hP

theorem frag_then1 {α β : Type} {m : PM α} {k : PM β} {p : Piece} {b : List Piece} {y : β}
    {P1 P : Tok → Prop} {N1 N : Option Nat → Prop}
    (ha : FragU m [p] P1 N1) (hb : Frag k b y P N)
    (hN : ∀ nx, N nx → N1 (nextRune b nx))
    (hP : ∀ line t, P t → P1 ((mkToks line b).head?.getD t)) :
    Frag (m >>= fun _ => k) (p :: b) y P N :=
  frag_then (a := [p]) ha hb hN hP

theorem safe_colon : Safe (some 58) := safe_ascii 58 (by decide) (by decide) (by decide)

theorem frag_readGlyph (f : Font) (hf : FontOk f) (g : Nat) (hg : g < f.numGlyphs) (fuel : Nat) (hfuel : 1 < fuel) :
    Frag (readGlyph f fuel) [(newExplainer f).writeGlyph g] g (fun t => glyphItem f t = false) Safe := by
  unfold readGlyph
  refine frag_bind1 (frag_glyph f hf g hg fuel hfuel) ?_ (fun nx h => by simpa [nextRune, render] using h)
    (fun line t ht => by simpa [mkToks] using ht)
  simp only [List.length_singleton]
  exact frag_weaken (frag_pure _ _) (fun _ h => h) (fun _ _ => trivial)

/-- one record of `readGpos3` -/
def rec3 (f : Font) (fuel : Nat) (m : List (Nat × (Int × Int × Int × Int))) :
    PM (List (Nat × (Int × Int × Int × Int))) := do
  let gid ← readGlyph f fuel
  let _ ← optional [tColon]
  let x1 ← readInt16
  let _ ← required tComma
  let y1 ← readInt16
  requiredIdentifier kwTo
  let x2 ← readInt16
  let _ ← required tComma
  let y2 ← readInt16
  pure (aset m gid (x1, y1, x2, y2))

theorem gpos3Sub_eq (f : Font) (fuel : Nat) : gpos3Sub f fuel =
    (semiLoop (rec3 f fuel) fuel [] >>= fun res =>
      pure (.gpos3_1 (keysAsc res) ((keysAsc res).map fun g => (aget res g).getD (0, 0, 0, 0)))) := rfl

def I16 (v : Int) : Prop := -32768 ≤ v ∧ v ≤ 32767

abbrev notDigit : Option Nat → Prop := fun nx => ∀ r, nx = some r → inR 48 57 r = false

theorem frag_rec3 (f : Font) (hf : FontOk f) (m : List (Nat × (Int × Int × Int × Int))) (g : Nat) (hg : g < f.numGlyphs)
    (x1 y1 x2 y2 : Int) (h1 : I16 x1) (h2 : I16 y1) (h3 : I16 x2) (h4 : I16 y2) (fuel : Nat) (hfuel : 1 < fuel) :
    Frag (rec3 f fuel m) (recP ((newExplainer f).writeGlyph g) (x1, y1, x2, y2)) (aset m g (x1, y1, x2, y2))
      anyTok notDigit := by
  unfold rec3
  simp only [recP, commaP, sp, tk]
  have hcomma : FragU (required tComma) [.tok tComma (ascii [44])] anyTok anyNext :=
    fragU_required tComma _ anyNext (fun nx _ => comma_tokOk nx) (tk_canon tComma _ (by decide))
  refine frag_bind1 (frag_readGlyph f hf g hg fuel hfuel) ?_ (fun nx _ => by
      simpa [nextRune, render, ascii, Piece.rbs, a1] using safe_colon)
    (fun line t _ => by simp [mkToks, glyphItem, tColon, tIdentifier, tString, tInteger, tHyphen])
  refine frag_then1 (frag_optional_yes [tColon] tColon (ascii [58]) anyNext (by decide)
    (fun nx _ => colon_tokOk nx) (tk_canon tColon _ (by decide))).toU ?_ (fun _ _ => trivial) (fun _ _ _ => trivial)
  apply frag_ws [a1 32] ws_sp
  refine frag_bind1 (frag_readInt16p x1 h1) ?_ (fun nx _ r hr => by
      simp [nextRune, render, ascii, Piece.rbs, a1] at hr; subst hr; decide) (fun _ _ _ => trivial)
  refine frag_then1 hcomma ?_ (fun _ _ => trivial) (fun _ _ _ => trivial)
  refine frag_bind1 (frag_readInt16p y1 h2) ?_ (fun nx _ r hr => by
      simp [nextRune, render, ascii, Piece.rbs, a1] at hr; subst hr; decide) (fun _ _ _ => trivial)
  apply frag_ws [a1 32] ws_sp
  refine frag_then1 (fragU_reqIdent kwTo (by decide) (by decide)) ?_ (fun nx _ r hr => by
      simp [nextRune, render, ascii, Piece.rbs, a1] at hr; subst hr; exact (safe_space 32 rfl).1) (fun _ _ _ => trivial)
  apply frag_ws [a1 32] ws_sp
  refine frag_bind1 (frag_readInt16p x2 h3) ?_ (fun nx _ r hr => by
      simp [nextRune, render, ascii, Piece.rbs, a1] at hr; subst hr; decide) (fun _ _ _ => trivial)
  refine frag_then1 hcomma ?_ (fun _ _ => trivial) (fun _ _ _ => trivial)
  refine frag_bind1 (frag_readInt16p y2 h4) ?_ (fun nx h => by simpa [nextRune, render] using h) (fun _ _ _ => trivial)
  exact frag_weaken (frag_pure _ _) (fun _ h => h) (fun _ _ => trivial)

/-- the record loop of GPOS 3: `first {";\n\t" next}` -/
theorem frag_semiLoop {σ ι : Type} (one : σ → PM σ) (pcs : ι → List Piece) (upd : σ → ι → σ)
    (P Pone : Tok → Prop) (N N1 : Option Nat → Prop)
    (hP : ∀ t, P t → [tSemicolon].contains t.typ = false ∧ Pone t)
    (hsemi : ∀ t, t.typ = tSemicolon → Pone t)
    (hN : ∀ nx, N nx → N1 nx) (hN59 : N1 (some 59)) :
    ∀ (items : List ι) (st0 : σ) (i0 : ι) (n : Nat), items.length < n →
      (∀ pre i post, i0 :: items = pre ++ i :: post →
        Frag (one (pre.foldl upd st0)) (pcs i) ((pre ++ [i]).foldl upd st0) Pone N1) →
      Frag (semiLoop one n st0) (pcs i0 ++ items.flatMap (fun y => [semiP, eolP, tab] ++ pcs y))
        ((i0 :: items).foldl upd st0) P N := by
  intro items
  induction items with
  | nil =>
    intro st0 i0 n hn hone
    cases n with
    | zero => omega
    | succ m =>
      have h0 := hone [] i0 [] rfl
      simp only [List.foldl_nil, List.nil_append, List.foldl_cons] at h0
      unfold semiLoop
      have hrest : Frag (optional [tSemicolon] >>= fun b => if (!b) = true then pure (upd st0 i0) else
          (optional [tEOL] >>= fun _ => semiLoop one m (upd st0 i0))) [] (upd st0 i0) P N := by
        have := frag_bind (frag_optional_no [tSemicolon]) (frag_pure (upd st0 i0) P)
          (f := fun b => if (!b) = true then pure (upd st0 i0) else
            (optional [tEOL] >>= fun _ => semiLoop one m (upd st0 i0)))
          (fun _ _ => trivial) (fun line t ht => by simpa [mkToks] using (hP t ht).1)
        exact frag_weaken (by simpa using this) (fun _ h => h) (fun _ _ => trivial)
      have := frag_bind (b := []) (f := fun st' => optional [tSemicolon] >>= fun b => if (!b) = true then pure st' else
          (optional [tEOL] >>= fun _ => semiLoop one m st')) h0 hrest (fun nx hnx => by simpa [nextRune, render] using hN nx hnx)
        (fun line t ht => by simpa [mkToks] using (hP t ht).2)
      simpa using this
  | cons j rest ih =>
    intro st0 i0 n hn hone
    cases n with
    | zero => omega
    | succ m =>
      have h0 := hone [] i0 (j :: rest) rfl
      simp only [List.foldl_nil, List.nil_append, List.foldl_cons] at h0
      have hih := ih (upd st0 i0) j m (by simp at hn; omega) (by
        intro pre i post e
        have := hone (i0 :: pre) i post (by simp [e])
        simpa using this)
      -- after the semicolon: the line break, a tab, then the loop again
      have hafter : Frag (optional [tEOL] >>= fun _ => semiLoop one m (upd st0 i0))
          (.tok tEOL (ascii [10]) :: .ws [a1 9] :: (pcs j ++ rest.flatMap (fun y => [semiP, eolP, tab] ++ pcs y)))
          ((j :: rest).foldl upd (upd st0 i0)) P N := by
        have hy2 := (frag_optional_yes [tEOL] tEOL (ascii [10]) anyNext (by decide)
          (fun nx _ => eol_tokOk nx) (tk_canon tEOL _ (by decide))).toU
        exact frag_then1 hy2 (frag_ws [a1 9] ws_tab hih) (fun _ _ => trivial) (fun _ _ _ => trivial)
      have hsemi' : Frag (optional [tSemicolon] >>= fun b => if (!b) = true then pure (upd st0 i0) else
          (optional [tEOL] >>= fun _ => semiLoop one m (upd st0 i0)))
          ([semiP, eolP, tab] ++ (pcs j ++ rest.flatMap (fun y => [semiP, eolP, tab] ++ pcs y)))
          ((j :: rest).foldl upd (upd st0 i0)) P N := by
        have hy := frag_optional_yes [tSemicolon] tSemicolon (ascii [59]) anyNext (by decide)
          (fun nx _ => semi_tokOk nx) (tk_canon tSemicolon _ (by decide))
        have := frag_bind1 hy hafter
          (f := fun b => if (!b) = true then pure (upd st0 i0) else
            (optional [tEOL] >>= fun _ => semiLoop one m (upd st0 i0)))
          (fun _ _ => trivial) (fun _ _ _ => trivial)
        simpa [semiP, eolP, tab, tk] using this
      unfold semiLoop
      have := frag_bind (b := [semiP, eolP, tab] ++ (pcs j ++ rest.flatMap (fun y => [semiP, eolP, tab] ++ pcs y)))
        (f := fun st' => optional [tSemicolon] >>= fun b => if (!b) = true then pure st' else
          (optional [tEOL] >>= fun _ => semiLoop one m st')) h0 hsemi' (fun nx _ => by
          simpa [nextRune, render, semiP, tk, ascii, Piece.rbs, a1] using hN59)
        (fun line t _ => by
          apply hsemi
          simp [mkToks, semiP, tk])
      simpa using this

structure Gpos3Ok (f : Font) (cov : List Nat) (recs : List (Int × Int × Int × Int)) : Prop where
  ne : cov ≠ []
  asc : Asc cov
  len : cov.length = recs.length
  covIn : ∀ g ∈ cov, g < f.numGlyphs
  recOk : ∀ r ∈ recs, I16 r.1 ∧ I16 r.2.1 ∧ I16 r.2.2.1 ∧ I16 r.2.2.2

/-- pieces of a GPOS 3 subtable that is not the first of its lookup -/
def sub3P (f : Font) (st : Subtable) : List Piece := (newExplainer f).subtable false st

theorem frag_gpos3 (f : Font) (hf : FontOk f) (cov : List Nat) (recs : List (Int × Int × Int × Int))
    (h : Gpos3Ok f cov recs) (fuel : Nat)
    (hfuel : tokCount (sub3P f (.gpos3_1 cov recs)) + 4 < fuel) :
    Frag (gpos3Sub f fuel) (sub3P f (.gpos3_1 cov recs)) (.gpos3_1 cov recs) SubStop Safe := by
  obtain ⟨hne, hasc, hlen, hcov, hrec⟩ := h
  let pc : Nat × (Int × Int × Int × Int) → List Piece := fun p => recP ((newExplainer f).writeGlyph p.1) p.2
  let upd : List (Nat × (Int × Int × Int × Int)) → Nat × (Int × Int × Int × Int) → List (Nat × (Int × Int × Int × Int)) :=
    fun m p => aset m p.1 p.2
  cases hz : cov.zip recs with
  | nil =>
    cases cov with
    | nil => exact absurd rfl hne
    | cons g cov' => cases recs with
      | nil => simp at hlen
      | cons r recs' => simp at hz
  | cons p0 rest =>
    have hmem : ∀ p ∈ p0 :: rest, p.1 < f.numGlyphs ∧ I16 p.2.1 ∧ I16 p.2.2.1 ∧ I16 p.2.2.2.1 ∧ I16 p.2.2.2.2 := by
      intro p hp
      rw [← hz] at hp
      have := List.of_mem_zip hp
      exact ⟨hcov _ this.1, hrec _ this.2⟩
    have hpieces : sub3P f (.gpos3_1 cov recs) = pc p0 ++ rest.flatMap (fun y => [semiP, eolP, tab] ++ pc y) := by
      simp only [sub3P, Explainer.subtable, hz, List.map_cons, List.flatMap_map]
      simp [pc]
    rw [hpieces] at hfuel ⊢
    have hlenr : rest.length < fuel := by
      have := length_le_tokCount_flatMap (fun y => [semiP, eolP, tab] ++ pc y) rest (by
        intro x _; simp [tokCount_append, semiP, eolP, tab, tk, tokCount])
      rw [tokCount_append] at hfuel
      omega
    have hfold : ∀ (l : List (Nat × (Int × Int × Int × Int))) (acc : List (Nat × (Int × Int × Int × Int))),
        Asc ((acc ++ l).map (·.1)) → l.foldl upd acc = acc ++ l := by
      intro l
      induction l with
      | nil => intro acc _; simp
      | cons q l ih =>
        intro acc hA
        simp only [List.foldl_cons, upd]
        rw [aset_fresh acc q.1 q.2 (aget_none_of_asc acc l q hA)]
        have := ih (acc ++ [(q.1, q.2)]) (by simpa [List.append_assoc] using hA)
        rw [this]; simp
    have hAsc0 : Asc ((p0 :: rest).map (·.1)) := by
      rw [← hz, List.map_fst_zip (by omega)]; exact hasc
    have hres : (p0 :: rest).foldl upd [] = cov.zip recs := by
      rw [hfold _ [] (by simpa using hAsc0), ← hz]
      simp
    rw [gpos3Sub_eq]
    have hp : pc p0 ++ rest.flatMap (fun y => [semiP, eolP, tab] ++ pc y) =
        (pc p0 ++ rest.flatMap (fun y => [semiP, eolP, tab] ++ pc y)) ++ [] := by simp
    rw [hp]
    refine frag_bind (frag_semiLoop (rec3 f fuel) pc upd
      SubStop anyTok Safe notDigit
      (fun t ht => ⟨by rcases ht with h | h | h <;> simp [h, tOr, tEOL, tEOF, tSemicolon], trivial⟩)
      (fun _ _ => trivial) (fun nx h r hr => (h r hr).2) (fun r hr => by cases hr; decide)
      rest [] p0 fuel hlenr ?_) ?_ (fun nx h => by simpa [nextRune, render] using h)
        (fun line t ht => by simpa [mkToks] using ht)
    · intro pre i post e
      have hi : i ∈ p0 :: rest := by rw [e]; simp
      obtain ⟨hi1, hi2, hi3, hi4, hi5⟩ := hmem i hi
      have hApre : Asc ((pre ++ i :: post).map (·.1)) := by rw [← e]; exact hAsc0
      have hpre : pre.foldl upd [] = pre := by
        have := hfold pre [] (by
          simp only [List.nil_append]
          simp only [Asc, List.map_append, List.pairwise_append] at hApre
          exact hApre.1)
        simpa using this
      have hnone : aget pre i.1 = none := by
        apply aget_none_of_lt
        intro p hp
        simp only [Asc, List.map_append, List.map_cons, List.pairwise_append] at hApre
        exact hApre.2.2 p.1 (List.mem_map.mpr ⟨p, hp, rfl⟩) i.1 (by simp)
      have hpre' : (pre ++ [i]).foldl upd [] = aset pre i.1 i.2 := by
        rw [List.foldl_append, hpre]; rfl
      rw [hpre, hpre']
      exact frag_rec3 f hf pre i.1 hi1 i.2.1 i.2.2.1 i.2.2.2.1 i.2.2.2.2 hi2 hi3 hi4 hi5 fuel (by omega)
    · rw [hres]
      rw [keys_zip cov _ hasc hlen, aget_zip (0, 0, 0, 0) cov _ hasc hlen]
      exact frag_weaken (frag_pure _ SubStop) (fun _ h => h) (fun _ _ => trivial)

def Gpos3Sub (f : Font) (st : Subtable) : Prop := ∃ cov recs, st = .gpos3_1 cov recs ∧ Gpos3Ok f cov recs

/-- GPOS 3 lookups: any flag set, at least one subtable, every subtable with ascending coverage
inside the font and int16 anchors -/
structure LookupP3Ok (f : Font) (l : Lookup) : Prop where
  typ : l.typ = 3
  flags : l.flags < 16
  ne : l.subtables ≠ []
  subs : ∀ st ∈ l.subtables, Gpos3Sub f st

theorem zip_ne_nil_of {α β : Type} (a : List α) (b : List β) (h : a ≠ []) (hl : a.length = b.length) :
    ∃ p rest, a.zip b = p :: rest := by
  cases a with
  | nil => exact absurd rfl h
  | cons x xs => cases b with
    | nil => simp at hl
    | cons y ys => exact ⟨_, _, rfl⟩

theorem sub3_true (f : Font) (st : Subtable) (h : Gpos3Sub f st) :
    (newExplainer f).subtable true st = [eolP, tab] ++ sub3P f st := by
  obtain ⟨cov, recs, rfl, hok⟩ := h
  obtain ⟨p, rest, hz⟩ := zip_ne_nil_of cov recs hok.ne hok.len
  simp [sub3P, Explainer.subtable, hz]

theorem sub3_head (f : Font) (st : Subtable) (h : Gpos3Sub f st) (line : Nat) :
    ∃ t, (mkToks line (sub3P f st)).head? = some t ∧ [tHyphen].contains t.typ = false ∧ [tEOL].contains t.typ = false := by
  obtain ⟨cov, recs, rfl, hok⟩ := h
  obtain ⟨p, rest, hz⟩ := zip_ne_nil_of cov recs hok.ne hok.len
  obtain ⟨typ, val, hw, hty⟩ := writeGlyph_typ (newExplainer f) p.1
  refine ⟨{ typ := typ, val := val, line := line }, by simp [sub3P, Explainer.subtable, hz, recP, hw, mkToks], ?_⟩
  rcases hty with h | h | h <;> simp [h, tIdentifier, tInteger, tString, tHyphen, tEOL]

theorem body3_counts (f : Font) (l : Lookup) (hsub : ∀ st ∈ l.subtables, Gpos3Sub f st) :
    (∀ st ∈ l.subtables, tokCount (sub3P f st) + 1 ≤ tokCount (bodyP f l)) ∧
    l.subtables.length ≤ tokCount (bodyP f l) := by
  cases hs : l.subtables with
  | nil => simp
  | cons st0 more =>
    have hb : bodyP f l = ([tk tColon [58]] ++ explainFlags l.flags) ++
        (((newExplainer f).subtable true st0 ++
          (more.map fun st' => (sub3P f st', normSub st')).flatMap (fun q => orSep ++ q.1)) ++ []) := by
      simp [bodyP, hs, sub3P]
    have h0 : tokCount (sub3P f st0) ≤ tokCount ((newExplainer f).subtable true st0) := by
      rw [sub3_true f st0 (hsub st0 (by rw [hs]; simp)), tokCount_append]; omega
    have hflat : ∀ st' ∈ more, tokCount (sub3P f st') ≤
        tokCount ((more.map fun st' => (sub3P f st', normSub st')).flatMap (fun q => orSep ++ q.1)) := by
      intro st' h'
      have := tokCount_flatMap_mem (fun q : List Piece × Subtable => orSep ++ q.1)
        (more.map fun st' => (sub3P f st', normSub st')) (sub3P f st', normSub st')
        (List.mem_map.mpr ⟨st', h', rfl⟩)
      simp only [tokCount_append] at this
      omega
    have hlenm : more.length ≤ tokCount ((more.map fun st' => (sub3P f st', normSub st')).flatMap (fun q => orSep ++ q.1)) := by
      have := length_le_tokCount_flatMap (fun q : List Piece × Subtable => orSep ++ q.1)
        (more.map fun st' => (sub3P f st', normSub st')) (by
          intro x _; simp [tokCount_append, orSep, sp, tab, eolP, tk, tokCount])
      simpa using this
    rw [hb]
    simp only [tokCount_append, tokCount, tk, List.length_cons]
    refine ⟨?_, by omega⟩
    intro st hst
    simp only [List.mem_cons] at hst
    rcases hst with rfl | hst
    · omega
    · have := hflat st hst; omega

theorem body3 (f : Font) (hf : FontOk f) (l : Lookup) (h : LookupP3Ok f l) (F0 : Nat)
    (hF : tokCount (bodyP f l) + 4 ≤ F0) :
    (∃ ps, bodyP f l = tk tColon [58] :: ps) ∧ Frag (readGpos3 f F0) (bodyP f l) (normLookup l) LookStop Safe := by
  obtain ⟨hc1, hc2⟩ := body3_counts f l h.subs
  have h4 : Gen.dslExplainFlagsC.length = 4 := by decide
  have hrd : readGpos3 f F0 = (header F0 >>= fun flags => subtablesLoop (gpos3Sub f F0) F0 [] >>= fun subs =>
      pure ({ typ := 3, flags := flags, subtables := subs } : Lookup)) := rfl
  cases hs : l.subtables with
  | nil => exact absurd hs h.ne
  | cons st0 more =>
    have hst0 : Gpos3Sub f st0 := h.subs st0 (by rw [hs]; simp)
    have hb : bodyP f l = (([tk tColon [58]] ++ (explainFlags l.flags ++ [eolP])) ++ [.ws [a1 9]]) ++
        ((sub3P f st0 ++ (more.map fun st' => (sub3P f st', normSub st')).flatMap (fun q => orSep ++ q.1)) ++ []) := by
      have : bodyP f l = ([tk tColon [58]] ++ explainFlags l.flags) ++
          (((newExplainer f).subtable true st0 ++
            (more.map fun st' => (sub3P f st', normSub st')).flatMap (fun q => orSep ++ q.1)) ++ []) := by
        simp [bodyP, hs, sub3P]
      rw [this, sub3_true f st0 hst0]
      simp [tab]
    refine ⟨⟨_, by rw [hb]; rfl⟩, ?_⟩
    rw [hb, hrd]
    rw [hs] at hc1 hc2
    have hall : ∀ pre q post, (sub3P f st0, normSub st0) :: (more.map fun st' => (sub3P f st', normSub st')) = pre ++ q :: post →
        Frag (gpos3Sub f F0) q.1 q.2 (fun t => (post = [] ∧ LookStop t) ∨ (post ≠ [] ∧ isOr t))
          (fun nx => (post = [] ∧ Safe nx) ∨ (post ≠ [] ∧ nx = some 32)) := by
      intro pre q post e
      have hq : q ∈ (sub3P f st0, normSub st0) :: (more.map fun st' => (sub3P f st', normSub st')) := by
        rw [e]; simp
      have hq' : ∃ st ∈ st0 :: more, q = (sub3P f st, normSub st) := by
        simp only [List.mem_cons, List.mem_map] at hq
        rcases hq with rfl | ⟨st, hst, rfl⟩
        · exact ⟨st0, by simp, rfl⟩
        · exact ⟨st, by simp [hst], rfl⟩
      obtain ⟨st, hst, rfl⟩ := hq'
      obtain ⟨cov, recs, rfl, hok⟩ := h.subs st (by rw [hs]; exact hst)
      have hfr := frag_gpos3 f hf cov recs hok F0 (by have := hc1 _ hst; omega)
      refine frag_weaken hfr ?_ ?_
      · intro t ht
        rcases ht with ⟨_, hL⟩ | ⟨_, hO⟩
        · exact Or.inr hL
        · exact Or.inl hO
      · intro nx hn
        rcases hn with ⟨_, h'⟩ | ⟨_, h'⟩
        · exact h'
        · rw [h']; exact safe_space
    have := frag_lookupBody' (gpos3Sub f F0) 3 l.flags F0 _ anyNext
      (frag_ws_end [a1 9] ws_tab (frag_header_eol l.flags h.flags F0 (by have := hc2; simp at this; omega)))
      LookStop LookStop Safe
      (fun t ht => ⟨by rcases ht with h' | h' <;> simp [h', tOr, tEOL, tEOF], ht⟩)
      (sub3P f st0) (normSub st0) (more.map fun st' => (sub3P f st', normSub st')) hall
      (fun _ => trivial) (sub3_head f st0 hst0) (by simp at hc2 ⊢; omega)
    simpa [h.typ, normLookup, hs, List.map_map, Function.comp_def] using this

theorem gpos3_dispatch (f : Font) (fuel : Nat) (t : Tok) (n : Nat) (acc : List Lookup) (s s1 : PS)
    (h : readItem s = .ok (t, s1)) (ht : t.typ = tIdentifier) (hb : t.bytes = kwPOS ++ decimal 3) :
    parseLoop f fuel (n + 1) acc s = (readGpos3 f fuel >>= fun l => parseLoop f fuel n (acc ++ [l])) s1 := by
  have hd : decimal 3 = [51] := by decide
  rw [hd] at hb
  conv => lhs; unfold parseLoop
  rw [bind_run, h]
  simp [ht, isIdent, hb, kwGSUB, kwGPOS, kwPOS, tIdentifier, tEOF, tError, tSemicolon, tEOL]

/-- GPOS lookups of types 1, 2 and 3 -/
def GposLook3Ok (f : Font) (l : Lookup) : Prop := LookupP1Ok f l ∨ LookupP2Ok f l ∨ LookupP3Ok f l

/-- descriptions of GPOS 1, 2 and 3 lookups, in any order and number: parsing the printed text
gives back the lookups (all-zero value records as none) -/
theorem roundtrip_gpos123 (f : Font) (hf : FontOk f) (ls : List Lookup) (h : ∀ l ∈ ls, GposLook3Ok f l) :
    parseBytes f (explainGpos f ls) = .ok (normalize ls) := by
  refine roundtrip_pos2_of_items f ls (fun l hl => by
    rcases h l hl with h1 | h2 | h3
    · exact h1.ne
    · exact h2.ne
    · exact h3.ne) ?_
  intro l hl
  have hb := body_le_posText f ls l hl
  rcases h l hl with h1 | h2 | h3
  · obtain ⟨hc, hfr⟩ := body_of_form4 f 1 (readGpos1 f) (gpos1Sub f) (Gpos1Sub f) (gpos1_form f hf)
      (fun _ => rfl) l h1.typ h1.flags h1.ne h1.subs (tokCount (posText f ls) + 3) (by omega)
    exact ⟨readGpos1 f _, by rw [h1.typ]; exact pos_kw_ok 1 (by decide), by rw [h1.typ]; exact gpos1_dispatch f _, hc, Or.inl hfr⟩
  · exact item2_of_p2 f hf l h2 _ (by omega)
  · obtain ⟨hc, hfr⟩ := body3 f hf l h3 (tokCount (posText f ls) + 3) (by omega)
    exact ⟨readGpos3 f _, by rw [h3.typ]; exact pos_kw_ok 3 (by decide), by rw [h3.typ]; exact gpos3_dispatch f _, hc, Or.inl hfr⟩

theorem roundtrip_gpos3 (f : Font) (hf : FontOk f) (ls : List Lookup) (h : ∀ l ∈ ls, LookupP3Ok f l) :
    parseBytes f (explainGpos f ls) = .ok (normalize ls) :=
  roundtrip_gpos123 f hf ls (fun l hl => Or.inr (Or.inr (h l hl)))

end SfntV.Dsl
