import SfntV.Proofs.GNames2

/-! C20 — cff `makeNames` (MakeSimple): every name handed out is valid, and every name is a kept
name, a text-derived candidate `base` / `base.altN` of that glyph's text, or a placeholder. -/
namespace SfntV.GNames

theorem cffKeep_valid (v : Name → Bool) : ∀ (l used : List Name) (i : Nat),
    (cffKeep v l used).1.getD i [] ≠ [] → v ((cffKeep v l used).1.getD i []) = true := by
  intro l
  induction l with
  | nil => intro used i h; simp [cffKeep] at h
  | cons nm rest ih =>
    intro used i
    unfold cffKeep
    by_cases hb : (!v nm) = true ∨ nm ∈ used
    · rw [if_pos hb]
      rcases i with _ | i
      · intro h; simp only [List.getD_cons_zero] at h; exact absurd rfl h
      · simp only [List.getD_cons_succ]; exact ih used i
    · rw [if_neg hb]
      rcases i with _ | i
      · intro _
        simp only [List.getD_cons_zero]
        cases e : v nm
        · exact absurd (Or.inl (by simp [e])) hb
        · rfl
      · simp only [List.getD_cons_succ]; exact ih _ i

theorem altSearch_valid (v : Name → Bool) (base : Name) (used : List Name) :
    ∀ fuel t k, altSearch v base used fuel t = some k → v (altName base k) = true := by
  intro fuel
  induction fuel with
  | zero => intro t k h; simp [altSearch] at h
  | succ fuel ih =>
    intro t k h
    unfold altSearch at h
    split at h
    · cases h
    · rename_i hv
      split at h
      · exact ih _ _ h
      · cases h
        cases e : v (altName base t)
        · simp [e] at hv
        · rfl

/-- what a slot that was empty after the validity filter can hold -/
def CffProv (v : Name → Bool) (tb : Nat → Option Name) (s0 st : St) : Prop :=
  ∀ i, s0.nameAt i = [] → st.nameAt i = [] ∨
    (∃ base t, tb i = some base ∧ st.nameAt i = altName base t ∧ v (altName base t) = true) ∨
    (∃ k, 1 ≤ k ∧ st.nameAt i = ornName k)

theorem prov_textStep {v : Name → Bool} {tb : Nat → Option Name} {s0 st : St} (g : Nat)
    (hp : CffProv v tb s0 st) : CffProv v tb s0 (textStep v tb st g) := by
  unfold textStep
  split
  · exact hp
  · split
    · exact hp
    · rename_i base hb
      split
      · exact hp
      · rename_i t ht
        intro i hi
        rw [nameAt_fill']
        split
        · rename_i h
          right; left
          exact ⟨base, t, by rw [h.1]; exact hb, rfl, altSearch_valid v base st.used _ _ _ ht⟩
        · exact hp i hi

theorem prov_ornFold {v : Name → Bool} {tb : Nat → Option Name} {s0 : St} (l : List Nat) :
    ∀ s : St × Nat, 1 ≤ s.2 → CffProv v tb s0 s.1 → CffProv v tb s0 (l.foldl ornStep s).1 := by
  induction l with
  | nil => intro s _ h; exact h
  | cons a l ih =>
    intro s hk hp
    simp only [List.foldl_cons]
    have hj := (firstFresh_spec ornName (fun _ _ => ornName_inj) s.1.used s.2).2.1
    apply ih
    · unfold ornStep; split
      · exact hk
      · simp only; omega
    · unfold ornStep
      split
      · exact hp
      · intro i hi
        simp only
        rw [nameAt_fill']
        split
        · right; right; exact ⟨_, by omega, rfl⟩
        · exact hp i hi

end SfntV.GNames
