/-
C12 — consistency of the font's metric queries (Model/MetricsQueries.lean, exact rationals).
Uses Mathlib tactics for the field/order reasoning over `Rat` (this file is never linked into
the driver).
-/
import Mathlib.Tactic.Ring
import Mathlib.Tactic.Linarith
import Mathlib.Tactic.FieldSimp
import Mathlib.Algebra.Order.Field.Rat
import SfntV.Proofs.MetricsWriter
import SfntV.Model.MetricsQueries

namespace SfntV.Metrics
open SfntV SfntV.Metrics.Spec

/-! ## widths -/

theorem widthPDF_glyf (w : Int) (upem : Nat) (hu : 0 < upem) :
    glyphWidthPDFglyf w upem = 1000 * widthPDFglyf w upem ∧
    widthPDFglyf w upem * upem = w := by
  have h : (upem : Rat) ≠ 0 := by exact_mod_cast Nat.pos_iff_ne_zero.mp hu
  unfold glyphWidthPDFglyf widthPDFglyf
  constructor
  · field_simp
  · field_simp

theorem widthPDF_cff (w : Rat) (fm : Mat) (h : fm.b * fm.c = 0) :
    glyphWidthPDFcff w fm = 1000 * widthPDFcff w fm := by
  unfold glyphWidthPDFcff widthPDFcff
  have : fm.b * fm.c / fm.d = 0 := by rw [h]; simp
  simp only [this, sub_zero, ite_self]
  ring

/-! ## boxes -/

/-- the image of an integer box under the uniform scale `k` -/
def imageRect (k : Rat) (r : Rect) : RectQ := ⟨k * r.llx, k * r.lly, k * r.urx, k * r.ury⟩

theorem scale_mul (s t : Rat) : (Mat.scale s).mul (Mat.scale t) = Mat.scale (s * t) := by
  simp [Mat.mul, Mat.scale]

theorem imageRect_isZero (k : Rat) (hk : k ≠ 0) (r : Rect) : (imageRect k r).isZero = r.isZero := by
  rw [Bool.eq_iff_iff]
  simp only [imageRect, RectQ.isZero, Rect.isZero, Bool.and_eq_true, beq_iff_eq, mul_eq_zero, hk,
    false_or, Int.cast_eq_zero]

theorem ptsBBox_corners (k : Rat) (hk : 0 < k) (e : Rect) (hw : e.WF) :
    ptsBBox (Mat.scale k) (corners e) true RectQ.zero = imageRect k e := by
  obtain ⟨h1, h2⟩ := hw
  have hx : k * (e.llx : Rat) ≤ k * (e.urx : Rat) :=
    mul_le_mul_of_nonneg_left (by exact_mod_cast h1) hk.le
  have hy : k * (e.lly : Rat) ≤ k * (e.ury : Rat) :=
    mul_le_mul_of_nonneg_left (by exact_mod_cast h2) hk.le
  simp only [ptsBBox, corners, Mat.apply, Mat.scale, Bool.true_or, if_true, Bool.false_or,
    mul_zero, add_zero, zero_add, imageRect, decide_eq_true_eq]
  have e1 : ∀ x : Rat, x * k = k * x := fun x => mul_comm x k
  simp only [e1]
  congr 1 <;> (split_ifs <;> first | rfl | linarith)

theorem extend_image (k : Rat) (hk : 0 < k) (b e : Rect) :
    (imageRect k b).extend (imageRect k e) = imageRect k (b.extend e) := by
  have hk0 : k ≠ 0 := ne_of_gt hk
  unfold RectQ.extend Rect.extend
  rw [imageRect_isZero k hk0, imageRect_isZero k hk0]
  by_cases h1 : e.isZero = true
  · simp [h1]
  · by_cases h2 : b.isZero = true
    · simp [h1, h2]
    · simp only [h1, h2, Bool.false_eq_true, if_false]
      have lt_iff : ∀ x y : Int, (k * (x : Rat) < k * (y : Rat)) ↔ x < y := by
        intro x y
        rw [Rat.mul_lt_mul_left hk]; exact_mod_cast Iff.rfl
      simp only [imageRect, lt_iff, gt_iff_lt]
      congr 1 <;> split_ifs <;> rfl

theorem fontBBoxPDFLoop_image (k : Rat) (hk : 0 < k) : ∀ (rs : List Rect) (first : Bool) (b : Rect),
    fontBBoxPDFLoop (rs.map (imageRect k)) first (imageRect k b) = imageRect k (fontBBoxLoop rs first b) := by
  have hk0 : k ≠ 0 := ne_of_gt hk
  intro rs
  induction rs with
  | nil => intro _ _; rfl
  | cons r rs ih =>
    intro first b
    simp only [List.map_cons, fontBBoxPDFLoop, fontBBoxLoop, imageRect_isZero k hk0]
    by_cases hz : r.isZero = true
    · simp only [hz, if_true]; exact ih first b
    · simp only [hz, Bool.false_eq_true, if_false]
      cases first with
      | true => simp only [if_true]; exact ih false r
      | false =>
        simp only [Bool.false_eq_true, if_false, extend_image k hk]
        exact ih false _

/-- `FontBBoxPDF` is the image of `FontBBox` (uniform positive font matrix `[s 0 0 s 0 0]`, glyph
boxes that are boxes; `none` = nil glyph) -/
theorem fontBBoxPDF_image (s : Rat) (hs : 0 < s) (gs : List (Option Rect))
    (hwf : ∀ e, some e ∈ gs → e.WF) :
    fontBBoxPDF (Mat.scale s) (gs.map fun g => g.map corners) =
      imageRect (s * 1000) (fontBBoxModel (gs.map fun g => g.getD ⟨0, 0, 0, 0⟩)) := by
  have hk : 0 < s * 1000 := by positivity
  unfold fontBBoxPDF fontBBoxModel
  have hz : RectQ.zero = imageRect (s * 1000) ⟨0, 0, 0, 0⟩ := by simp [RectQ.zero, imageRect]
  have hmap : (gs.map fun g => g.map corners).map (glyphBBoxPDF (Mat.scale s)) =
      (gs.map fun g => g.getD ⟨0, 0, 0, 0⟩).map (imageRect (s * 1000)) := by
    rw [List.map_map, List.map_map]
    apply List.map_congr_left
    intro g hg
    cases g with
    | none => simp [glyphBBoxPDF, hz]
    | some e =>
      simp only [Function.comp, Option.map_some, glyphBBoxPDF, scale_mul, Option.getD_some]
      exact ptsBBox_corners _ hk e (hwf e hg)
  rw [hmap, hz]
  exact fontBBoxPDFLoop_image _ hk _ true _

/-! ## fractional CFF widths: the rational model extends the integral one -/

theorem abs_half_int (a b : Int) :
    ((if ((a : Rat) - (b : Rat)) < 0 then -((a : Rat) - (b : Rat)) else (a : Rat) - (b : Rat)) ≥ 1 / 2) ↔ a ≠ b := by
  constructor
  · intro h hab; subst hab; simp at h; linarith
  · intro hab
    rcases lt_or_gt_of_ne hab with h | h
    · have h' : (a : Rat) + 1 ≤ (b : Rat) := by exact_mod_cast h
      have : (a : Rat) - (b : Rat) < 0 := by linarith
      simp only [this, if_true]; linarith
    · have h' : (b : Rat) + 1 ≤ (a : Rat) := by exact_mod_cast h
      have : ¬ ((a : Rat) - (b : Rat) < 0) := by linarith
      simp only [this, if_false]; linarith

theorem fixedLoopQ_int : ∀ (ws : List Int) (width : Int),
    fixedLoopQ (ws.map (Int.cast : Int → Rat)) (width : Rat) = fixedLoop ws width := by
  intro ws
  induction ws with
  | nil => intro _; rfl
  | cons w ws ih =>
    intro width
    simp only [List.map_cons, fixedLoopQ, fixedLoop]
    by_cases h0 : w = 0
    · subst h0; simp [ih]
    · have h0' : ¬ ((w : Rat) = 0) := by exact_mod_cast h0
      simp only [h0, h0', if_false]
      by_cases hw : width = 0
      · subst hw; simp [ih]
      · have hw' : ¬ ((width : Rat) = 0) := by exact_mod_cast hw
        simp only [hw, hw', if_false, abs_half_int, ih]

theorem isFixedPitchQ_int (ws : List Int) :
    isFixedPitchQ (ws.map (Int.cast : Int → Rat)) = isFixedPitchModel ws := by
  unfold isFixedPitchQ isFixedPitchModel
  simp only [List.length_map]
  have := fixedLoopQ_int ws 0
  simp only [Int.cast_zero] at this
  rw [this]

theorem truncQ_int (w : Int) : truncQ (w : Rat) = w := by
  unfold truncQ
  split
  · exact Rat.floor_intCast w
  · have : -(w : Rat) = ((-w : Int) : Rat) := by push_cast; ring
    rw [this, Rat.floor_intCast]; omega

theorem avgAccQ_int : ∀ (ws : List Int) (acc : Nat × Nat),
    avgAccQ (ws.map (Int.cast : Int → Rat)) acc = avgAcc ws acc := by
  intro ws
  induction ws with
  | nil => intro _; rfl
  | cons w ws ih =>
    intro acc
    obtain ⟨s, c⟩ := acc
    have hc : ((w : Rat) > 0) ↔ w > 0 := by exact_mod_cast Iff.rfl
    simp only [List.map_cons, avgAccQ, avgAcc, hc, truncQ_int, ih]

/-- on integral widths the rational model of the writer is the integral one -/
theorem avgWidthQ_int (ws : List Int) : avgWidthQ (ws.map (Int.cast : Int → Rat)) = avgWidthModel ws := by
  unfold avgWidthQ avgWidthModel avgWidthInt
  rw [avgAccQ_int]
  rcases avgAcc ws (0, 0) with ⟨s, c⟩
  simp only
  split <;> simp

end SfntV.Metrics
