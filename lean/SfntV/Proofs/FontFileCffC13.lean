/-
C01, byte level, OpenType/CFF flavour: the `CFF ` table guard of `InDomainFileCff`
(`decCff F.cffBytes = .ok F.payload`, an abstract decoder) replaced by C13's models of
`(*cff.Font).Write` and `cff.Read`.

What C13 delivers (`readFont_writeFont_simple`, `readFont_writeFont_cid`): header, Name INDEX, Top
DICT, String INDEX, Global Subr INDEX, charset, Encoding, FDSelect, CharStrings INDEX (charstrings as
opaque byte strings), Font DICT INDEX and the private DICTs, with every offset; the decoded value
is a `Cff.FontOut` (reals as decimals `Rl`).

What stays outside (`CffSem`, an explicit parameter of the theorem, not discharged here):
* `glyphs`: the interpretation of the Type 2 charstrings, which gives the advance width and the
  extent of every glyph (C04/C05: `font.file` compares both with the Go values on every case);
* `real`, `matrix`: `strconv`-free conversion of a DICT real (a decimal) to the float64 the Go
  value holds, and the font matrix as the opaque token `FM` of the font-level model;
* `token`: the summary of everything else (any function of the decoded `FontOut`).
The FontInfo strings and IsFixedPitch are read off the `FontOut` concretely (`infoOfOut`).

Limit inherited from C13: Go strings are modelled bytewise there (one `Char` < 256 per byte) and
as code points in the font-level model; `infoOfOut` identifies the two, which is exact for ASCII
strings only, so fonts with non-ASCII FontInfo strings are outside the domain below.
-/
import SfntV.Proofs.FontFileLayout
import SfntV.Proofs.CffFontRtCid

namespace SfntV.FontFile
open SfntV SfntV.Font SfntV.Otl

/-- the part of `cff.Read` beyond C13's structural model (see the header of this file) -/
structure CffSem where
  real : Cff.Rl → Dy
  matrix : List Cff.Rl → FM
  glyphs : Cff.FontOut → Outcome (List Dy × List Metrics.Rect)
  token : Cff.FontOut → Str

/-- `cff.Font.FontInfo` from what C13's `readFont` delivers; `strs` is Version, Notice, Copyright,
FullName, FamilyName, Weight -/
def infoOfOut (S : CffSem) (o : Cff.FontOut) : CffInfo :=
  { fontName := o.fontName.map (fun b => Char.ofNat b.toNat),
    fullName := (o.strs.getD 3 "").toList,
    familyName := (o.strs.getD 4 "").toList,
    weight := (o.strs.getD 5 "").toList,
    version := (o.strs.getD 0 "").toList,
    copyright := (o.strs.getD 2 "").toList,
    notice := (o.strs.getD 1 "").toList,
    italicAngle := S.real o.italicAngle,
    isFixedPitch := o.isFixedPitch,
    underlinePosition := S.real o.ulPos,
    underlineThickness := S.real o.ulThick,
    fontMatrix := S.matrix o.fontMatrix }

def viewOf (S : CffSem) (o : Cff.FontOut) : Outcome CffPayload :=
  match S.glyphs o with
  | .ok (w, e) => .ok { info := infoOfOut S o, widths := w, extents := e, token := S.token o }
  | .err x => .err x
  | .panic s => .panic s

/-- `cff.Read` as the font-level reader sees it: C13's `readFont`, then `viewOf` -/
def decCffC13 (T : Cff.Tables) (S : CffSem) (b : Bytes) : Outcome CffPayload :=
  match Cff.readFont T b with
  | .ok o => viewOf S o
  | .err x => .err x
  | .panic s => .panic s

/-- the `CFF ` table is what C13's `writeFont` emits for a font `f` in C13's domain, and the
payload is the view of C13's normal form of `f` -/
def CffTableOk (T : Cff.Tables) (S : CffSem) (cffBytes : Bytes) (payload : CffPayload) : Prop :=
  ∃ (f : Cff.FontIn) (passes : Nat),
    Cff.writeFont T.std.toList f = .ok (cffBytes, passes) ∧ cffBytes.length < 2147483648 ∧
    ((∃ p, Cff.SimpleDom T.std.toList f p ∧ viewOf S (Cff.nfSimple T f p) = .ok payload) ∨
     (∃ r o sup, Cff.CidDom T.std.toList f r o sup ∧ viewOf S (Cff.nfCid f r o sup) = .ok payload))

theorem decCffC13_of (T : Cff.Tables) (S : CffSem) (b : Bytes) (p : CffPayload) (h : CffTableOk T S b p) :
    decCffC13 T S b = .ok p := by
  obtain ⟨f, passes, hw, hs, hd⟩ := h
  unfold decCffC13
  rcases hd with ⟨q, hd, hv⟩ | ⟨r, o, sup, hd, hv⟩
  · rw [Cff.readFont_writeFont_simple T f q hd b passes hw hs]; exact hv
  · rw [Cff.readFont_writeFont_cid T f r o sup hd b passes hw hs]; exact hv

/-- the domain of the CFF flavour with the layout tables through C08 and the CFF table through
C13: `core` is `InDomainFileCffL` with the CFF guard emptied (the constant decoder), `table` is
C13's domain. -/
structure InDomainFileCffC13 (T : Cff.Tables) (S : CffSem) (ef : EnvF) (F : CffFileFont) : Prop where
  core : InDomainFileCffL (fun _ => .ok F.payload) ef F
  table : CffTableOk T S F.cffBytes F.payload

theorem inDomainFileCffL_of_C13 (T : Cff.Tables) (S : CffSem) (ef : EnvF) (F : CffFileFont)
    (h : InDomainFileCffC13 T S ef F) : InDomainFileCffL (decCffC13 T S) ef F :=
  { core :=
      { cff := ⟨h.core.core.cff.1, decCffC13_of T S _ _ h.table⟩,
        cffInfo := h.core.core.cffInfo, count := h.core.core.count, extentsLen := h.core.core.extentsLen,
        extents := h.core.core.extents, head := h.core.core.head, ctime := h.core.core.ctime,
        mtime := h.core.core.mtime, os2 := h.core.core.os2, ascent := h.core.core.ascent,
        descent := h.core.core.descent, lineGap := h.core.core.lineGap, caret := h.core.core.caret,
        name := h.core.core.name, cmap := h.core.core.cmap, gdef := h.core.core.gdef,
        gsub := h.core.core.gsub, gpos := h.core.core.gpos, version := h.core.core.version,
        size := h.core.core.size },
    layout := h.core.layout }

/-- **OpenType/CFF: GDEF/GSUB/GPOS through C08's readers, the CFF table through C13's reader**;
the only abstract part left is `CffSem` (charstring interpretation and float parsing). -/
theorem file_roundtrip_cff_c13 (T : Cff.Tables) (S : CffSem) (ef : EnvF) (caretOf : Int → Int → Int)
    (F : CffFileFont) (h : InDomainFileCffC13 T S ef F) :
    ∃ b, writeFileCff ef F = .ok b ∧
      readFileCff layoutDec (decCffC13 T S) caretOf b = .ok (nfFileCff F) :=
  file_roundtrip_cff_layout (decCffC13 T S) ef caretOf F (inDomainFileCffL_of_C13 T S ef F h)

end SfntV.FontFile
