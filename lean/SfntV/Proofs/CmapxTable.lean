/-
Lemmas for C09 (cmap table container): reads, absence of panics, what Decode guarantees.
-/
import SfntV.Model.CmapTable

namespace SfntV.CmapTable
open SfntV

theorem rd8_ok (b : Bytes) (o : Nat) (h : o < b.length) : ∃ v, rd8 b o = .ok v ∧ v < 256 := by
  unfold rd8
  rw [List.getElem?_eq_getElem h]
  exact ⟨_, rfl, UInt8.toNat_lt _⟩

theorem rd16_ok (b : Bytes) (o : Nat) (h : o + 2 ≤ b.length) : ∃ v, rd16 b o = .ok v ∧ v < 65536 := by
  obtain ⟨x, hx, hx'⟩ := rd8_ok b o (by omega)
  obtain ⟨y, hy, hy'⟩ := rd8_ok b (o+1) (by omega)
  unfold rd16
  rw [hx, hy]
  exact ⟨_, rfl, by omega⟩

theorem rd32_ok (b : Bytes) (o : Nat) (h : o + 4 ≤ b.length) : ∃ v, rd32 b o = .ok v ∧ v < 4294967296 := by
  obtain ⟨x, hx, hx'⟩ := rd16_ok b o (by omega)
  obtain ⟨y, hy, hy'⟩ := rd16_ok b (o+2) (by omega)
  unfold rd32
  rw [hx, hy]
  exact ⟨_, rfl, by omega⟩

theorem rd8_slice (b : Bytes) (o len j : Nat) (h : j < len) :
    rd8 ((b.drop o).take len) j = rd8 b (o + j) := by
  unfold rd8
  rw [List.getElem?_take, if_pos h, List.getElem?_drop]

theorem rd16_slice (b : Bytes) (o len j : Nat) (h : j + 2 ≤ len) :
    rd16 ((b.drop o).take len) j = rd16 b (o + j) := by
  unfold rd16
  rw [rd8_slice b o len j (by omega), rd8_slice b o len (j+1) (by omega)]
  rfl

theorem sub32_eq (a c : Nat) (h1 : c ≤ a) (h2 : a < 4294967296) : sub32 a c = a - c := by
  unfold sub32
  omega

/-- what a successfully decoded entry looks like (the promise in Decode's doc comment) -/
def EntryOk (kd : Key × Bytes) : Prop :=
  10 ≤ kd.2.length ∧ kd.1.p ≤ 4 ∧ (kd.1.p ≠ 1 → kd.1.l = 0) ∧
  ∃ f, rd16 kd.2 0 = .ok f ∧ hdrKind f ≠ .bad

theorem lenLang_spec (b : Bytes) (eod o : Nat) (k : HdrKind) (heod : eod = b.length) (h32 : eod < 4294967296)
    (ho : o + 10 ≤ eod) (h12 : 12 ≤ eod) :
    (lenLang b eod o k).noPanic ∧ ∀ r, lenLang b eod o k = .ok r → r.2.2 = 10 ∨ r.2.2 = 12 := by
  subst heod
  unfold lenLang
  cases k with
  | len16 =>
    obtain ⟨x, hx, _⟩ := rd16_ok b (o+2) (by omega)
    obtain ⟨y, hy, _⟩ := rd16_ok b (o+4) (by omega)
    simp only [hx, hy]
    exact ⟨trivial, by intro r hr; cases hr; exact Or.inl rfl⟩
  | len32 =>
    simp only []
    by_cases hgt : o > sub32 b.length 12
    · rw [if_pos hgt]
      exact ⟨trivial, by intro r hr; cases hr⟩
    · rw [if_neg hgt]
      have : sub32 b.length 12 = b.length - 12 := sub32_eq _ _ (by omega) h32
      obtain ⟨x, hx, _⟩ := rd32_ok b (o+4) (by omega)
      obtain ⟨y, hy, _⟩ := rd16_ok b (o+10) (by omega)
      simp only [hx, hy]
      exact ⟨trivial, by intro r hr; cases hr; exact Or.inr rfl⟩
  | len14 =>
    obtain ⟨x, hx, _⟩ := rd32_ok b (o+2) (by omega)
    simp only [hx]
    exact ⟨trivial, by intro r hr; cases hr; exact Or.inl rfl⟩
  | bad => exact ⟨trivial, by intro r hr; cases hr⟩

theorem record_spec (b : Bytes) (eoh eod i : Nat) (segs : List Seg) (heod : eod = b.length)
    (h32 : eod < 4294967296) (hi : 4 + (i + 1) * 8 ≤ b.length) :
    (record b eoh eod i segs).noPanic ∧
    ∀ kd segs', record b eoh eod i segs = .ok (kd, segs') → EntryOk kd := by
  subst heod
  unfold record
  obtain ⟨p, hp, _⟩ := rd16_ok b (4 + i*8) (by omega)
  obtain ⟨e, he, _⟩ := rd16_ok b (6 + i*8) (by omega)
  obtain ⟨o, ho, _⟩ := rd32_ok b (8 + i*8) (by omega)
  simp only [hp, he, ho]
  by_cases hp4 : p > 4
  · rw [if_pos hp4]; exact ⟨trivial, by intro _ _ h; cases h⟩
  rw [if_neg hp4]
  by_cases hoff : o < eoh ∨ o > sub32 b.length 10
  · rw [if_pos hoff]; exact ⟨trivial, by intro _ _ h; cases h⟩
  rw [if_neg hoff]
  have hs10 : sub32 b.length 10 = b.length - 10 := sub32_eq _ _ (by omega) h32
  have ho10 : o + 10 ≤ b.length := by omega
  obtain ⟨f, hf, _⟩ := rd16_ok b o (by omega)
  simp only [hf]
  have hll := lenLang_spec b b.length o (hdrKind f) rfl h32 ho10 (by omega)
  cases hk : lenLang b b.length o (hdrKind f) with
  | err m => exact ⟨trivial, by intro _ _ h; cases h⟩
  | panic m => rw [hk] at hll; exact absurd hll.1 (by simp [Outcome.noPanic])
  | ok r =>
    obtain ⟨length, language, checkLength⟩ := r
    have hcl := hll.2 _ hk
    simp only [] at hcl
    simp only []
    by_cases hlen : length < checkLength ∨ length > sub32 b.length o
    · rw [if_pos hlen]; exact ⟨trivial, by intro _ _ h; cases h⟩
    rw [if_neg hlen]
    have hso : sub32 b.length o = b.length - o := sub32_eq _ _ (by omega) h32
    cases hov : overlap segs o length with
    | none => exact ⟨trivial, by intro _ _ h; cases h⟩
    | some segs2 =>
      simp only []
      unfold slice
      rw [if_neg (by omega)]
      refine ⟨trivial, ?_⟩
      intro kd segs' h
      cases h
      refine ⟨?_, (by show p ≤ 4; omega), ?_, f, ?_, ?_⟩
      · simp only [List.length_take, List.length_drop]; omega
      · intro h1; simp only [h1, ne_eq, not_false_eq_true, if_true]
      · show rd16 ((b.drop o).take length) 0 = .ok f
        rw [rd16_slice b o length 0 (by omega)]
        exact hf
      · intro hbad
        rw [hbad] at hk
        simp [lenLang] at hk

theorem loop_spec (b : Bytes) (eoh eod : Nat) (heod : eod = b.length) (h32 : eod < 4294967296) :
    ∀ k i segs, 4 + (i + k) * 8 ≤ b.length →
    (loop b eoh eod i k segs).noPanic ∧ ∀ t, loop b eoh eod i k segs = .ok t → ∀ kd ∈ t, EntryOk kd := by
  intro k
  induction k with
  | zero =>
    intro i segs _
    exact ⟨trivial, by intro t h; cases h; intro kd hkd; cases hkd⟩
  | succ k ih =>
    intro i segs hik
    unfold loop
    have hr := record_spec b eoh eod i segs heod h32 (by omega)
    cases hrec : record b eoh eod i segs with
    | err m => exact ⟨trivial, by intro _ h; cases h⟩
    | panic m => rw [hrec] at hr; exact absurd hr.1 (by simp [Outcome.noPanic])
    | ok r =>
      obtain ⟨kd, segs'⟩ := r
      simp only []
      have hl := ih (i+1) segs' (by omega)
      cases hloop : loop b eoh eod (i+1) k segs' with
      | err m => exact ⟨trivial, by intro _ h; cases h⟩
      | panic m => rw [hloop] at hl; exact absurd hl.1 (by simp [Outcome.noPanic])
      | ok t' =>
        refine ⟨trivial, ?_⟩
        intro t h
        cases h
        intro x hx
        rcases List.mem_cons.mp hx with rfl | hx
        · exact hr.2 _ _ hrec
        · exact hl.2 _ hloop x hx

theorem decode_spec (b : Bytes) :
    (decode b).noPanic ∧ ∀ t, decode b = .ok t → ∀ kd ∈ t, EntryOk kd := by
  unfold decode
  by_cases h0 : b.length < 4 ∨ b.length > 4294967295
  · rw [if_pos h0]; exact ⟨trivial, by intro _ h; cases h⟩
  rw [if_neg h0]
  obtain ⟨v, hv, _⟩ := rd16_ok b 0 (by omega)
  obtain ⟨n, hn, _⟩ := rd16_ok b 2 (by omega)
  simp only [hv, hn]
  by_cases hver : v ≠ 0
  · rw [if_pos hver]; exact ⟨trivial, by intro _ h; cases h⟩
  rw [if_neg hver]
  by_cases hl : b.length < 4 + 8 * n
  · rw [if_pos hl]; exact ⟨trivial, by intro _ h; cases h⟩
  rw [if_neg hl]
  exact loop_spec b _ b.length rfl (by omega) n 0 [] (by omega)

theorem tableGet_mem (t : Table) (key : Key) (d : Bytes) (h : tableGet t key = some d) : (key, d) ∈ t := by
  induction t with
  | nil => cases h
  | cons kd rest ih =>
    obtain ⟨k, d'⟩ := kd
    unfold tableGet at h
    cases hr : tableGet rest key with
    | some d'' =>
      rw [hr] at h
      cases h
      exact List.mem_cons_of_mem _ (ih hr)
    | none =>
      rw [hr] at h
      simp only [] at h
      split at h
      · rename_i hk; cases h; subst hk; exact List.mem_cons_self
      · cases h

end SfntV.CmapTable
