import SfntV.Proofs.ShapeSpecBase
namespace SfntV.Spec.Shape
open SfntV SfntV.Shape

/-! ## (1) the index argument of `matchSeq` is only an offset -/

theorem matchSeq_shift (kp) (prs : List (Nat → Bool)) (ts : List TG) (i k : Nat) :
    matchSeq kp prs ts (i + k) = (matchSeq kp prs ts i).map (List.map (· + k)) := by
  induction ts generalizing prs i with
  | nil => cases prs <;> simp [matchSeq]
  | cons t ts ih =>
    cases prs with
    | nil => simp [matchSeq]
    | cons p ps =>
      have e : i + k + 1 = (i + 1) + k := by omega
      simp only [matchSeq]
      split
      · split
        · rw [e, ih]
          cases matchSeq kp ps ts (i + 1) <;> simp
        · rfl
      · rw [e, ih]

/-- too few glyphs: no match -/
theorem matchSeq_short (kp) (prs : List (Nat → Bool)) (ts : List TG) (i : Nat)
    (h : ts.length < prs.length) : matchSeq kp prs ts i = none := by
  induction ts generalizing prs i with
  | nil =>
    cases prs with
    | nil => simp at h
    | cons p ps => rfl
  | cons t ts ih =>
    cases prs with
    | nil => simp at h
    | cons p ps =>
      simp only [List.length_cons] at h
      simp only [matchSeq]
      split
      · split
        · rw [ih ps (i + 1) (by omega)]; rfl
        · rfl
      · exact ih (p :: ps) (i + 1) (by simp only [List.length_cons]; omega)

/-! ## (2) backtrack -/

theorem matchBack_eq (kp) (prs : List (Nat → Bool)) (pre : List TG) (i : Nat) :
    matchBack kp prs (gl pre) = (matchSeq kp prs pre i).isSome := by
  induction pre generalizing prs i with
  | nil =>
    cases prs with
    | nil => rfl
    | cons p ps => rfl
  | cons t ts ih =>
    cases prs with
    | nil => rfl
    | cons p ps =>
      simp only [gl_cons, matchSeq]
      by_cases hk : kp t.g.gid = true
      · have hs : skipBack kp (t.g :: gl ts) ps.length = t.g :: gl ts := by
          simp [skipBack, hk]
        rw [matchBack, hs]
        simp only [hk, if_true]
        by_cases hl : (t.g :: gl ts).length ≤ ps.length
        · simp only [hl, if_true]
          simp only [List.length_cons, gl_length] at hl
          rw [matchSeq_short kp ps ts (i + 1) (by omega)]
          split <;> rfl
        · simp only [hl, if_false]
          split
          · rw [ih ps (i + 1)]
            cases matchSeq kp ps ts (i + 1) <;> rfl
          · rfl
      · have hk' : kp t.g.gid = false := by simpa using hk
        simp only [hk', Bool.false_eq_true, if_false]
        by_cases hl : (t.g :: gl ts).length > ps.length
        · have hs : skipBack kp (t.g :: gl ts) ps.length = skipBack kp (gl ts) ps.length := by
            simp only [List.length_cons, gl_length] at hl
            simp [skipBack, hk']
            intro h; omega
          rw [matchBack, hs, ← ih (p :: ps) (i + 1)]
          cases hts : gl ts with
          | nil => simp [matchBack, skipBack]
          | cons g rest => rw [matchBack]
        · have hs : skipBack kp (t.g :: gl ts) ps.length = t.g :: gl ts := by
            simp only [List.length_cons, gl_length] at hl
            simp [skipBack]
            intro h; omega
          rw [matchBack, hs]
          have hl' : (t.g :: gl ts).length ≤ ps.length := by omega
          simp only [hl', if_true]
          simp only [List.length_cons, gl_length] at hl'
          rw [matchSeq_short kp (p :: ps) ts (i + 1) (by simp only [List.length_cons]; omega)]
          rfl

/-! ## (3) input / lookahead of the formats 1, 2 -/

/-- the skip loop in closed form: it passes over the leading unkept glyphs, but not beyond the
last position that leaves `needed` glyphs before the limit -/
theorem skipFwd_gl (kp) (R : List TG) (s lim needed : Nat) (h : lim ≤ R.length) :
    skipFwd kp (gl R) s ((s + lim : Nat) : Int) needed
      = .ok (s + min (lim - needed) (R.takeWhile fun t => !kp t.g.gid).length) := by
  induction R generalizing s lim with
  | nil =>
    simp only [List.length_nil] at h
    have : lim = 0 := by omega
    subst this
    simp only [gl_nil, skipFwd]
    rw [if_neg (by omega)]
    simp
  | cons t R ih =>
    simp only [gl_cons, skipFwd]
    simp only [List.length_cons] at h
    by_cases hc : (s : Int) + needed < ((s + lim : Nat) : Int)
    · rw [if_pos hc]
      by_cases hk : kp t.g.gid = true
      · simp [hk]
      · have hk' : kp t.g.gid = false := by simpa using hk
        simp only [hk', Bool.false_eq_true, if_false]
        have e : s + lim = (s + 1) + (lim - 1) := by omega
        rw [e, ih (s + 1) (lim - 1) (by omega)]
        simp only [List.takeWhile_cons, hk', Bool.not_false, if_true, List.length_cons]
        congr 1
        omega
    · rw [if_neg hc]
      have : lim - needed = 0 := by omega
      simp [this]

/-- the body of `matchFwd` for a non-empty predicate list, with the skip loop started anywhere -/
def fwdBody (kp : Nat → Bool) (seq : List Glyph) (pr : Nat → Bool) (prs : List (Nat → Bool))
    (rest : List Glyph) (s : Nat) (limit : Int) : Outcome (Option (List Nat × Nat)) := do
  let q ← skipFwd kp rest s limit prs.length
  if (q : Int) + prs.length ≥ limit then .ok none else
  let g ← idx "match:seq[p]" seq q
  if pr g.gid then
    match ← matchFwd kp seq prs q limit with
    | some (ps, last) => .ok (some (q :: ps, last))
    | none => .ok none
  else .ok none

theorem matchFwd_cons (kp) (seq : List Glyph) (pr) (prs : List (Nat → Bool)) (p : Nat) (limit : Int) :
    matchFwd kp seq (pr :: prs) p limit = fwdBody kp seq pr prs (seq.drop (p + 1)) (p + 1) limit := by
  rw [matchFwd]; rfl

theorem getLast?_cons_getD (a d : Nat) (l : List Nat) :
    (a :: l).getLast?.getD d = l.getLast?.getD a := by
  cases l with
  | nil => rfl
  | cons b l =>
    rw [List.getLast?_cons_cons]
    cases h : (b :: l).getLast? with
    | none => simp at h
    | some x => rfl

theorem fwdBody_eq (kp) (pr : Nat → Bool) (prs : List (Nat → Bool))
    (ih : ∀ (L : List Glyph) (R : List TG) (p lim : Nat), L.length = p + 1 → lim ≤ R.length →
      matchFwd kp (L ++ gl R) prs p ((p + 1 + lim : Nat) : Int)
        = .ok ((matchSeq kp prs (R.take lim) (p + 1)).map fun ps => (ps, ps.getLast?.getD p)))
    (R : List TG) : ∀ (L : List Glyph) (s lim d : Nat), L.length = s → lim ≤ R.length →
      fwdBody kp (L ++ gl R) pr prs (gl R) s ((s + lim : Nat) : Int)
        = .ok ((matchSeq kp (pr :: prs) (R.take lim) s).map fun ps => (ps, ps.getLast?.getD d)) := by
  induction R with
  | nil =>
    intro L s lim d hL hlim
    simp only [List.length_nil] at hlim
    have : lim = 0 := by omega
    subst this
    simp only [fwdBody, gl_nil, skipFwd]
    rw [if_neg (by omega)]
    simp only [bind_ok_eq]
    rw [if_pos (by omega)]
    rfl
  | cons t R ihR =>
    intro L s lim d hL hlim
    simp only [List.length_cons] at hlim
    by_cases hc : (s : Int) + prs.length < ((s + lim : Nat) : Int)
    · -- room for the remaining predicates
      obtain ⟨lim', rfl⟩ : ∃ lim', lim = lim' + 1 := ⟨lim - 1, by omega⟩
      by_cases hk : kp t.g.gid = true
      · simp only [fwdBody, gl_cons, skipFwd]
        rw [if_pos hc]
        simp only [hk, if_true, bind_ok_eq]
        rw [if_neg (by omega)]
        have hidx : idx "match:seq[p]" (L ++ t.g :: gl R) s = .ok t.g := by
          simp [idx, hL]
        rw [hidx]
        simp only [bind_ok_eq, List.take_succ_cons, matchSeq, hk, if_true]
        by_cases hp : pr t.g.gid = true
        · simp only [hp, if_true]
          have e1 : L ++ t.g :: gl R = (L ++ [t.g]) ++ gl R := by simp
          have e2 : s + (lim' + 1) = s + 1 + lim' := by omega
          rw [e1, e2, ih (L ++ [t.g]) R s lim' (by simp [hL]) (by omega)]
          cases matchSeq kp prs (R.take lim') (s + 1) with
          | none => rfl
          | some ps =>
            simp only [bind_ok_eq, Option.map_some, getLast?_cons_getD]
        · have hp' : pr t.g.gid = false := by simpa using hp
          simp [hp']
      · have hk' : kp t.g.gid = false := by simpa using hk
        have e1 : L ++ t.g :: gl R = (L ++ [t.g]) ++ gl R := by simp
        have e2 : s + (lim' + 1) = s + 1 + lim' := by omega
        have h := ihR (L ++ [t.g]) (s + 1) lim' d (by simp [hL]) (by omega)
        simp only [fwdBody] at h
        simp only [fwdBody, gl_cons, skipFwd]
        rw [if_pos hc]
        simp only [hk', Bool.false_eq_true, if_false, List.take_succ_cons, matchSeq]
        rw [e1, e2]
        exact h
    · -- too few glyphs before the limit
      simp only [fwdBody, gl_cons, skipFwd]
      rw [if_neg hc]
      simp only [bind_ok_eq]
      rw [if_pos (by omega)]
      rw [matchSeq_short]
      · rfl
      · simp only [List.length_take, List.length_cons]
        omega

theorem matchFwd_eq (kp) (prs : List (Nat → Bool)) (L : List Glyph) (R : List TG) (p lim : Nat)
    (hL : L.length = p + 1) (hlim : lim ≤ R.length) :
    matchFwd kp (L ++ gl R) prs p ((p + 1 + lim : Nat) : Int)
      = .ok ((matchSeq kp prs (R.take lim) (p + 1)).map fun ps => (ps, ps.getLast?.getD p)) := by
  induction prs generalizing L R p lim with
  | nil => simp [matchFwd, matchSeq]
  | cons pr prs ih =>
    rw [matchFwd_cons]
    have hd : (L ++ gl R).drop (p + 1) = gl R := by
      rw [← hL]; simp
    rw [hd]
    exact fwdBody_eq kp pr prs ih R L (p + 1) lim p hL hlim

/-! ## the sequence around the current glyph -/

theorem seq_split (pre : List TG) (cur : TG) (post : List TG) :
    gl (pre.reverse ++ cur :: post) = ((gl pre).reverse ++ [cur.g]) ++ gl post := by
  simp [gl_reverse]

theorem seq_length (pre : List TG) (cur : TG) (post : List TG) :
    (gl (pre.reverse ++ cur :: post)).length = pre.length + 1 + post.length := by
  simp; omega

theorem seq_take_rev (pre : List TG) (cur : TG) (post : List TG) :
    ((gl (pre.reverse ++ cur :: post)).take pre.length).reverse = gl pre := by
  have : pre.length = (gl pre).reverse.length := by simp
  rw [seq_split, List.append_assoc, this, List.take_left]
  simp

theorem seq_idx (site : String) (pre : List TG) (cur : TG) (post : List TG) :
    idx site (gl (pre.reverse ++ cur :: post)) pre.length = .ok cur.g := by
  simp [idx, gl_reverse]

/-- (3) at the current position of the sequence, with offsets into `post` -/
theorem matchFwd_seq (kp) (prs : List (Nat → Bool)) (pre : List TG) (cur : TG) (post : List TG)
    (lim : Nat) (hlim : lim ≤ post.length) :
    matchFwd kp (gl (pre.reverse ++ cur :: post)) prs pre.length ((pre.length + 1 + lim : Nat) : Int)
      = .ok ((matchSeq kp prs (post.take lim) 0).map fun offs =>
          (offs.map (· + (pre.length + 1)), (offs.map (· + (pre.length + 1))).getLast?.getD pre.length)) := by
  rw [seq_split, matchFwd_eq kp prs _ post pre.length lim (by simp) hlim]
  have := matchSeq_shift kp prs (post.take lim) 0 (pre.length + 1)
  rw [Nat.zero_add] at this
  rw [this]
  cases matchSeq kp prs (post.take lim) 0 <;> rfl

/-! ## (4) GSUB 8.1 -/

theorem R_pure {α : Type} (a : α) : (pure a : R α) = .ok a := rfl

theorem subEq_gsub81 (kp gd pre cur post) (input : Cov) (back look : List Cov) (subst : List Nat) :
    SubEq kp gd pre cur post (.gsub81 input back look subst) := by
  unfold SubEq
  simp only [matchSub, applySub, seq_idx, bind_ok_eq, seq_take_rev, matchBack_eq kp _ pre 0]
  cases hc : covGet input cur.g.gid with
  | none => simp only [R_pure]
  | some i =>
    have hf := matchFwd_seq kp (look.map covHas) pre cur post post.length (Nat.le_refl _)
    rw [List.take_length] at hf
    simp only [R_pure, seq_length, hf]
    cases hb : matchSeq kp (back.map covHas) pre 0 with
    | none => simp
    | some bo =>
      cases hl : matchSeq kp (look.map covHas) post 0 with
      | none => simp [bind_ok_eq]
      | some lo =>
        simp only [Option.isSome_some, Bool.not_true, Bool.false_eq_true, if_false, Option.map_some,
          bind_ok_eq]
        cases hs : subst[i]? with
        | none => simp [need, undef, bind, Except.bind]
        | some n =>
          simp only [need, R_pure, bind, Except.bind, idx, hs]
          simp [TG.withGid]

/-! ## (5) one rule of a (chained) sequence context -/

/-- matched indices lie inside the list -/
theorem matchSeq_bound (kp) (prs : List (Nat → Bool)) (ts : List TG) (i : Nat) (offs : List Nat)
    (h : matchSeq kp prs ts i = some offs) : ∀ o ∈ offs, o < i + ts.length := by
  induction ts generalizing prs i offs with
  | nil =>
    cases prs with
    | nil => simp only [matchSeq] at h; cases h; intro o ho; cases ho
    | cons p ps => simp [matchSeq] at h
  | cons t ts ih =>
    cases prs with
    | nil => simp only [matchSeq] at h; cases h; intro o ho; cases ho
    | cons p ps =>
      simp only [matchSeq] at h
      split at h
      · split at h
        · cases hm : matchSeq kp ps ts (i + 1) with
          | none => rw [hm] at h; cases h
          | some offs' =>
            rw [hm] at h
            cases h
            intro o ho
            simp only [List.mem_cons] at ho
            simp only [List.length_cons]
            rcases ho with rfl | ho
            · omega
            · have := ih ps (i + 1) offs' hm o ho
              omega
        · cases h
      · intro o ho
        have := ih (p :: ps) (i + 1) offs h o ho
        simp only [List.length_cons]
        omega

theorem usedLen_le (kp) (prs : List (Nat → Bool)) (ts : List TG) (offs : List Nat)
    (h : matchSeq kp prs ts 0 = some offs) : usedLen offs ≤ ts.length := by
  unfold usedLen
  cases hl : offs.getLast? with
  | none => simp
  | some o =>
    have := matchSeq_bound kp prs ts 0 offs h o (List.mem_of_getLast? hl)
    simp only []
    omega

/-- the last matched position, as an absolute position -/
theorem last_pos (offs : List Nat) (a : Nat) :
    (offs.map (· + (a + 1))).getLast?.getD a + 1 = a + 1 + usedLen offs := by
  unfold usedLen
  rw [List.getLast?_map]
  cases offs.getLast? with
  | none => rfl
  | some o => simp only [Option.map_some, Option.getD_some]; omega

theorem seq_drop (pre : List TG) (cur : TG) (post : List TG) (k : Nat) :
    (gl (pre.reverse ++ cur :: post)).drop (pre.length + 1 + k) = gl (post.drop k) := by
  have : pre.length + 1 + k = ((gl pre).reverse ++ [cur.g]).length + k := by simp
  rw [seq_split, this, List.drop_length_add_append, gl_drop]

theorem seq_take (pre : List TG) (cur : TG) (post : List TG) (k : Nat) :
    (gl (pre.reverse ++ cur :: post)).take (pre.length + 1 + k)
      = (gl pre).reverse ++ [cur.g] ++ gl (post.take k) := by
  have : pre.length + 1 + k = ((gl pre).reverse ++ [cur.g]).length + k := by simp
  rw [seq_split, this, List.take_length_add_append, gl_take]

/-- (3) for the lookahead: from the last input position to the end of the sequence -/
theorem matchFwd_look (kp) (prs : List (Nat → Bool)) (pre : List TG) (cur : TG) (post : List TG)
    (used p : Nat) (hu : used ≤ post.length) (hp : p + 1 = pre.length + 1 + used) :
    ∃ f, matchFwd kp (gl (pre.reverse ++ cur :: post)) prs p
        ((gl (pre.reverse ++ cur :: post)).length : Int)
      = .ok ((matchSeq kp prs (post.drop used) 0).map f) := by
  have hs : gl (pre.reverse ++ cur :: post)
      = ((gl pre).reverse ++ [cur.g] ++ gl (post.take used)) ++ gl (post.drop used) := by
    rw [← seq_take, ← seq_drop, List.take_append_drop]
  have hlen : (gl (pre.reverse ++ cur :: post)).length = p + 1 + (post.drop used).length := by
    rw [seq_length, List.length_drop]; omega
  rw [hlen, hs, matchFwd_eq kp prs _ (post.drop used) p (post.drop used).length
    (by simp [List.length_take]; omega) (Nat.le_refl _), List.take_length]
  have := matchSeq_shift kp prs (post.drop used) 0 (p + 1)
  rw [Nat.zero_add] at this
  rw [this, Option.map_map]
  exact ⟨_, rfl⟩

theorem takeWhile_take_length {α : Type} (q : α → Bool) (l : List α) (n : Nat) :
    ((l.take n).takeWhile q).length = min n (l.takeWhile q).length := by
  induction l generalizing n with
  | nil => simp
  | cons x l ih =>
    cases n with
    | zero => simp
    | succ n =>
      simp only [List.take_succ_cons, List.takeWhile_cons]
      split
      · simp only [List.length_cons, ih]; omega
      · simp

theorem matchRule_eq (kp) (back input look : List (Nat → Bool)) (pre : List TG) (cur : TG)
    (post : List TG) (lim : Nat) (hlim : lim ≤ post.length) :
    matchRule kp (gl (pre.reverse ++ cur :: post)) pre.length ((pre.length + 1 + lim : Nat) : Int)
        back input look
      = .ok ((matchContext kp back input look pre post lim).map fun m =>
          (pre.length :: m.offs.map (· + (pre.length + 1)), pre.length + 1 + m.wlen)) := by
  unfold matchRule matchContext
  rw [seq_take_rev, matchBack_eq kp back pre 0]
  cases hb : matchSeq kp back pre 0 with
  | none => rfl
  | some bo =>
    simp only [Option.isSome_some, Bool.not_true, Bool.false_eq_true, if_false]
    rw [matchFwd_seq kp input pre cur post lim hlim]
    cases hi : matchSeq kp input (post.take lim) 0 with
    | none => rfl
    | some offs =>
      simp only [Option.map_some, bind_ok_eq]
      have hu := usedLen_le kp input (post.take lim) offs hi
      rw [List.length_take] at hu
      have hp := last_pos offs pre.length
      generalize (offs.map (· + (pre.length + 1))).getLast?.getD pre.length = p at hp
      obtain ⟨f, hf⟩ := matchFwd_look kp look pre cur post (usedLen offs) p (by omega) hp
      rw [hf]
      cases hl : matchSeq kp look (post.drop (usedLen offs)) 0 with
      | none => rfl
      | some lo =>
        simp only [Option.map_some, bind_ok_eq]
        have e : pre.length + 1 + lim = (p + 1) + (lim - usedLen offs) := by omega
        rw [hp, seq_drop, ← hp, e, skipFwd_gl kp _ (p + 1) (lim - usedLen offs) 0
          (by rw [List.length_drop]; omega)]
        simp only [bind_ok_eq, List.drop_take, takeWhile_take_length, Nat.sub_zero]
        rw [hp, Nat.add_assoc (pre.length + 1)]

/-! ## (6) the rule loop of the formats 1 and 2 -/

theorem firstRule_eq (kp) (mb mi ml : Nat → Nat → Bool) (pre : List TG) (cur : TG) (post : List TG)
    (lim : Nat) (hlim : lim ≤ post.length) (stack : List Nested) (rs : List Rule) :
    SfntV.Shape.firstRule kp ⟨gl (pre.reverse ++ cur :: post), stack⟩ pre.length
        ((pre.length + 1 + lim : Nat) : Int) mb mi ml rs
      = .ok ((SfntV.Spec.Shape.firstRule kp mb mi ml pre post lim rs).map fun (m, acts) =>
          (pushMatch ⟨gl (pre.reverse ++ cur :: post), stack⟩
              (pre.length :: m.offs.map (· + (pre.length + 1))) acts (pre.length + 1 + m.wlen),
           pre.length + 1 + m.wlen)) := by
  induction rs with
  | nil => rfl
  | cons r rs ih =>
    simp only [SfntV.Shape.firstRule, SfntV.Spec.Shape.firstRule,
      matchRule_eq kp _ _ _ pre cur post lim hlim, bind_ok_eq]
    cases matchContext kp (r.back.map mb) (r.input.map mi) (r.look.map ml) pre post lim with
    | none => simpa using ih
    | some m => rfl


end SfntV.Spec.Shape
