import SfntV.Proofs.ShapeSpecBase
namespace SfntV.Spec.Shape
open SfntV SfntV.Shape

/-! ## (1) the index argument of `matchSeq` is only an offset -/

theorem matchSeq_shift (kp) (prs : List (Nat → Bool)) (ts : List TG) (i k : Nat) :
    matchSeq kp prs ts (i + k) = (matchSeq kp prs ts i).map (List.map (· + k)) := by
  induction ts generalizing prs i with
  | nil => cases prs <;> simp [matchSeq]
  | cons t ts ih =>
    cases prs with
    | nil => simp [matchSeq]
    | cons p ps =>
      have e : i + k + 1 = (i + 1) + k := by omega
      simp only [matchSeq]
      split
      · split
        · rw [e, ih]
          cases matchSeq kp ps ts (i + 1) <;> simp
        · rfl
      · rw [e, ih]

/-- too few glyphs: no match -/
theorem matchSeq_short (kp) (prs : List (Nat → Bool)) (ts : List TG) (i : Nat)
    (h : ts.length < prs.length) : matchSeq kp prs ts i = none := by
  induction ts generalizing prs i with
  | nil =>
    cases prs with
    | nil => simp at h
    | cons p ps => rfl
  | cons t ts ih =>
    cases prs with
    | nil => simp at h
    | cons p ps =>
      simp only [List.length_cons] at h
      simp only [matchSeq]
      split
      · split
        · rw [ih ps (i + 1) (by omega)]; rfl
        · rfl
      · exact ih (p :: ps) (i + 1) (by simp only [List.length_cons]; omega)

/-! ## (2) backtrack -/

theorem matchBack_eq (kp) (prs : List (Nat → Bool)) (pre : List TG) (i : Nat) :
    matchBack kp prs (gl pre) = (matchSeq kp prs pre i).isSome := by
  induction pre generalizing prs i with
  | nil =>
    cases prs with
    | nil => rfl
    | cons p ps => rfl
  | cons t ts ih =>
    cases prs with
    | nil => rfl
    | cons p ps =>
      simp only [gl_cons, matchSeq]
      by_cases hk : kp t.g.gid = true
      · have hs : skipBack kp (t.g :: gl ts) ps.length = t.g :: gl ts := by
          simp [skipBack, hk]
        rw [matchBack, hs]
        simp only [hk, if_true]
        by_cases hl : (t.g :: gl ts).length ≤ ps.length
        · simp only [hl, if_true]
          simp only [List.length_cons, gl_length] at hl
          rw [matchSeq_short kp ps ts (i + 1) (by omega)]
          split <;> rfl
        · simp only [hl, if_false]
          split
          · rw [ih ps (i + 1)]
            cases matchSeq kp ps ts (i + 1) <;> rfl
          · rfl
      · have hk' : kp t.g.gid = false := by simpa using hk
        simp only [hk', Bool.false_eq_true, if_false]
        by_cases hl : (t.g :: gl ts).length > ps.length
        · have hs : skipBack kp (t.g :: gl ts) ps.length = skipBack kp (gl ts) ps.length := by
            simp only [List.length_cons, gl_length] at hl
            simp [skipBack, hk']
            intro h; omega
          rw [matchBack, hs, ← ih (p :: ps) (i + 1)]
          cases hts : gl ts with
          | nil => simp [matchBack, skipBack]
          | cons g rest => rw [matchBack]
        · have hs : skipBack kp (t.g :: gl ts) ps.length = t.g :: gl ts := by
            simp only [List.length_cons, gl_length] at hl
            simp [skipBack]
            intro h; omega
          rw [matchBack, hs]
          have hl' : (t.g :: gl ts).length ≤ ps.length := by omega
          simp only [hl', if_true]
          simp only [List.length_cons, gl_length] at hl'
          rw [matchSeq_short kp (p :: ps) ts (i + 1) (by simp only [List.length_cons]; omega)]
          rfl

/-! ## (3) input / lookahead of the formats 1, 2 -/

/-- the skip loop in closed form: it passes over the leading unkept glyphs, but not beyond the
last position that leaves `needed` glyphs before the limit -/
theorem skipFwd_gl (kp) (R : List TG) (s lim needed : Nat) (h : lim ≤ R.length) :
    skipFwd kp (gl R) s ((s + lim : Nat) : Int) needed
      = .ok (s + min (lim - needed) (R.takeWhile fun t => !kp t.g.gid).length) := by
  induction R generalizing s lim with
  | nil =>
    simp only [List.length_nil] at h
    have : lim = 0 := by omega
    subst this
    simp only [gl_nil, skipFwd]
    rw [if_neg (by omega)]
    simp
  | cons t R ih =>
    simp only [gl_cons, skipFwd]
    simp only [List.length_cons] at h
    by_cases hc : (s : Int) + needed < ((s + lim : Nat) : Int)
    · rw [if_pos hc]
      by_cases hk : kp t.g.gid = true
      · simp [hk]
      · have hk' : kp t.g.gid = false := by simpa using hk
        simp only [hk', Bool.false_eq_true, if_false]
        have e : s + lim = (s + 1) + (lim - 1) := by omega
        rw [e, ih (s + 1) (lim - 1) (by omega)]
        simp only [List.takeWhile_cons, hk', Bool.not_false, if_true, List.length_cons]
        congr 1
        omega
    · rw [if_neg hc]
      have : lim - needed = 0 := by omega
      simp [this]

/-- the body of `matchFwd` for a non-empty predicate list, with the skip loop started anywhere -/
def fwdBody (kp : Nat → Bool) (seq : List Glyph) (pr : Nat → Bool) (prs : List (Nat → Bool))
    (rest : List Glyph) (s : Nat) (limit : Int) : Outcome (Option (List Nat × Nat)) := do
  let q ← skipFwd kp rest s limit prs.length
  if (q : Int) + prs.length ≥ limit then .ok none else
  let g ← idx "match:seq[p]" seq q
  if pr g.gid then
    match ← matchFwd kp seq prs q limit with
    | some (ps, last) => .ok (some (q :: ps, last))
    | none => .ok none
  else .ok none

theorem matchFwd_cons (kp) (seq : List Glyph) (pr) (prs : List (Nat → Bool)) (p : Nat) (limit : Int) :
    matchFwd kp seq (pr :: prs) p limit = fwdBody kp seq pr prs (seq.drop (p + 1)) (p + 1) limit := by
  rw [matchFwd]; rfl

theorem getLast?_cons_getD (a d : Nat) (l : List Nat) :
    (a :: l).getLast?.getD d = l.getLast?.getD a := by
  cases l with
  | nil => rfl
  | cons b l =>
    rw [List.getLast?_cons_cons]
    cases h : (b :: l).getLast? with
    | none => simp at h
    | some x => rfl

theorem fwdBody_eq (kp) (pr : Nat → Bool) (prs : List (Nat → Bool))
    (ih : ∀ (L : List Glyph) (R : List TG) (p lim : Nat), L.length = p + 1 → lim ≤ R.length →
      matchFwd kp (L ++ gl R) prs p ((p + 1 + lim : Nat) : Int)
        = .ok ((matchSeq kp prs (R.take lim) (p + 1)).map fun ps => (ps, ps.getLast?.getD p)))
    (R : List TG) : ∀ (L : List Glyph) (s lim d : Nat), L.length = s → lim ≤ R.length →
      fwdBody kp (L ++ gl R) pr prs (gl R) s ((s + lim : Nat) : Int)
        = .ok ((matchSeq kp (pr :: prs) (R.take lim) s).map fun ps => (ps, ps.getLast?.getD d)) := by
  induction R with
  | nil =>
    intro L s lim d hL hlim
    simp only [List.length_nil] at hlim
    have : lim = 0 := by omega
    subst this
    simp only [fwdBody, gl_nil, skipFwd]
    rw [if_neg (by omega)]
    simp only [bind_ok_eq]
    rw [if_pos (by omega)]
    rfl
  | cons t R ihR =>
    intro L s lim d hL hlim
    simp only [List.length_cons] at hlim
    by_cases hc : (s : Int) + prs.length < ((s + lim : Nat) : Int)
    · -- room for the remaining predicates
      obtain ⟨lim', rfl⟩ : ∃ lim', lim = lim' + 1 := ⟨lim - 1, by omega⟩
      by_cases hk : kp t.g.gid = true
      · simp only [fwdBody, gl_cons, skipFwd]
        rw [if_pos hc]
        simp only [hk, if_true, bind_ok_eq]
        rw [if_neg (by omega)]
        have hidx : idx "match:seq[p]" (L ++ t.g :: gl R) s = .ok t.g := by
          simp [idx, hL]
        rw [hidx]
        simp only [bind_ok_eq, List.take_succ_cons, matchSeq, hk, if_true]
        by_cases hp : pr t.g.gid = true
        · simp only [hp, if_true]
          have e1 : L ++ t.g :: gl R = (L ++ [t.g]) ++ gl R := by simp
          have e2 : s + (lim' + 1) = s + 1 + lim' := by omega
          rw [e1, e2, ih (L ++ [t.g]) R s lim' (by simp [hL]) (by omega)]
          cases matchSeq kp prs (R.take lim') (s + 1) with
          | none => rfl
          | some ps =>
            simp only [bind_ok_eq, Option.map_some, getLast?_cons_getD]
        · have hp' : pr t.g.gid = false := by simpa using hp
          simp [hp']
      · have hk' : kp t.g.gid = false := by simpa using hk
        have e1 : L ++ t.g :: gl R = (L ++ [t.g]) ++ gl R := by simp
        have e2 : s + (lim' + 1) = s + 1 + lim' := by omega
        have h := ihR (L ++ [t.g]) (s + 1) lim' d (by simp [hL]) (by omega)
        simp only [fwdBody] at h
        simp only [fwdBody, gl_cons, skipFwd]
        rw [if_pos hc]
        simp only [hk', Bool.false_eq_true, if_false, List.take_succ_cons, matchSeq]
        rw [e1, e2]
        exact h
    · -- too few glyphs before the limit
      simp only [fwdBody, gl_cons, skipFwd]
      rw [if_neg hc]
      simp only [bind_ok_eq]
      rw [if_pos (by omega)]
      rw [matchSeq_short]
      · rfl
      · simp only [List.length_take, List.length_cons]
        omega

theorem matchFwd_eq (kp) (prs : List (Nat → Bool)) (L : List Glyph) (R : List TG) (p lim : Nat)
    (hL : L.length = p + 1) (hlim : lim ≤ R.length) :
    matchFwd kp (L ++ gl R) prs p ((p + 1 + lim : Nat) : Int)
      = .ok ((matchSeq kp prs (R.take lim) (p + 1)).map fun ps => (ps, ps.getLast?.getD p)) := by
  induction prs generalizing L R p lim with
  | nil => simp [matchFwd, matchSeq]
  | cons pr prs ih =>
    rw [matchFwd_cons]
    have hd : (L ++ gl R).drop (p + 1) = gl R := by
      rw [← hL]; simp
    rw [hd]
    exact fwdBody_eq kp pr prs ih R L (p + 1) lim p hL hlim

/-! ## the sequence around the current glyph -/

theorem seq_split (pre : List TG) (cur : TG) (post : List TG) :
    gl (pre.reverse ++ cur :: post) = ((gl pre).reverse ++ [cur.g]) ++ gl post := by
  simp [gl_reverse]

theorem seq_length (pre : List TG) (cur : TG) (post : List TG) :
    (gl (pre.reverse ++ cur :: post)).length = pre.length + 1 + post.length := by
  simp; omega

theorem seq_take_rev (pre : List TG) (cur : TG) (post : List TG) :
    ((gl (pre.reverse ++ cur :: post)).take pre.length).reverse = gl pre := by
  have : pre.length = (gl pre).reverse.length := by simp
  rw [seq_split, List.append_assoc, this, List.take_left]
  simp

theorem seq_idx (site : String) (pre : List TG) (cur : TG) (post : List TG) :
    idx site (gl (pre.reverse ++ cur :: post)) pre.length = .ok cur.g := by
  simp [idx, gl_reverse]

/-- (3) at the current position of the sequence, with offsets into `post` -/
theorem matchFwd_seq (kp) (prs : List (Nat → Bool)) (pre : List TG) (cur : TG) (post : List TG)
    (lim : Nat) (hlim : lim ≤ post.length) :
    matchFwd kp (gl (pre.reverse ++ cur :: post)) prs pre.length ((pre.length + 1 + lim : Nat) : Int)
      = .ok ((matchSeq kp prs (post.take lim) 0).map fun offs =>
          (offs.map (· + (pre.length + 1)), (offs.map (· + (pre.length + 1))).getLast?.getD pre.length)) := by
  rw [seq_split, matchFwd_eq kp prs _ post pre.length lim (by simp) hlim]
  have := matchSeq_shift kp prs (post.take lim) 0 (pre.length + 1)
  rw [Nat.zero_add] at this
  rw [this]
  cases matchSeq kp prs (post.take lim) 0 <;> rfl

/-! ## (4) GSUB 8.1 -/

theorem R_pure {α : Type} (a : α) : (pure a : R α) = .ok a := rfl

theorem subEq_gsub81 (kp gd pre cur post) (input : Cov) (back look : List Cov) (subst : List Nat) :
    SubEq kp gd pre cur post (.gsub81 input back look subst) := by
  unfold SubEq
  simp only [matchSub, applySub, seq_idx, bind_ok_eq, seq_take_rev, matchBack_eq kp _ pre 0]
  cases hc : covGet input cur.g.gid with
  | none => simp only [R_pure]
  | some i =>
    have hf := matchFwd_seq kp (look.map covHas) pre cur post post.length (Nat.le_refl _)
    rw [List.take_length] at hf
    simp only [R_pure, seq_length, hf]
    cases hb : matchSeq kp (back.map covHas) pre 0 with
    | none => simp
    | some bo =>
      cases hl : matchSeq kp (look.map covHas) post 0 with
      | none => simp [bind_ok_eq]
      | some lo =>
        simp only [Option.isSome_some, Bool.not_true, Bool.false_eq_true, if_false, Option.map_some,
          bind_ok_eq]
        cases hs : subst[i]? with
        | none => simp [need, undef, bind, Except.bind]
        | some n =>
          simp only [need, R_pure, bind, Except.bind, idx, hs]
          simp [TG.withGid]

/-! ## (5) one rule of a (chained) sequence context -/

/-- matched indices lie inside the list -/
theorem matchSeq_bound (kp) (prs : List (Nat → Bool)) (ts : List TG) (i : Nat) (offs : List Nat)
    (h : matchSeq kp prs ts i = some offs) : ∀ o ∈ offs, o < i + ts.length := by
  induction ts generalizing prs i offs with
  | nil =>
    cases prs with
    | nil => simp only [matchSeq] at h; cases h; intro o ho; cases ho
    | cons p ps => simp [matchSeq] at h
  | cons t ts ih =>
    cases prs with
    | nil => simp only [matchSeq] at h; cases h; intro o ho; cases ho
    | cons p ps =>
      simp only [matchSeq] at h
      split at h
      · split at h
        · cases hm : matchSeq kp ps ts (i + 1) with
          | none => rw [hm] at h; cases h
          | some offs' =>
            rw [hm] at h
            cases h
            intro o ho
            simp only [List.mem_cons] at ho
            simp only [List.length_cons]
            rcases ho with rfl | ho
            · omega
            · have := ih ps (i + 1) offs' hm o ho
              omega
        · cases h
      · intro o ho
        have := ih (p :: ps) (i + 1) offs h o ho
        simp only [List.length_cons]
        omega

theorem usedLen_le (kp) (prs : List (Nat → Bool)) (ts : List TG) (offs : List Nat)
    (h : matchSeq kp prs ts 0 = some offs) : usedLen offs ≤ ts.length := by
  unfold usedLen
  cases hl : offs.getLast? with
  | none => simp
  | some o =>
    have := matchSeq_bound kp prs ts 0 offs h o (List.mem_of_getLast? hl)
    simp only []
    omega

/-- the last matched position, as an absolute position -/
theorem last_pos (offs : List Nat) (a : Nat) :
    (offs.map (· + (a + 1))).getLast?.getD a + 1 = a + 1 + usedLen offs := by
  unfold usedLen
  rw [List.getLast?_map]
  cases offs.getLast? with
  | none => rfl
  | some o => simp only [Option.map_some, Option.getD_some]; omega

theorem seq_drop (pre : List TG) (cur : TG) (post : List TG) (k : Nat) :
    (gl (pre.reverse ++ cur :: post)).drop (pre.length + 1 + k) = gl (post.drop k) := by
  have : pre.length + 1 + k = ((gl pre).reverse ++ [cur.g]).length + k := by simp
  rw [seq_split, this, List.drop_length_add_append, gl_drop]

theorem seq_take (pre : List TG) (cur : TG) (post : List TG) (k : Nat) :
    (gl (pre.reverse ++ cur :: post)).take (pre.length + 1 + k)
      = (gl pre).reverse ++ [cur.g] ++ gl (post.take k) := by
  have : pre.length + 1 + k = ((gl pre).reverse ++ [cur.g]).length + k := by simp
  rw [seq_split, this, List.take_length_add_append, gl_take]

/-- (3) for the lookahead: from the last input position to the end of the sequence -/
theorem matchFwd_look (kp) (prs : List (Nat → Bool)) (pre : List TG) (cur : TG) (post : List TG)
    (used p : Nat) (hu : used ≤ post.length) (hp : p + 1 = pre.length + 1 + used) :
    ∃ f, matchFwd kp (gl (pre.reverse ++ cur :: post)) prs p
        ((gl (pre.reverse ++ cur :: post)).length : Int)
      = .ok ((matchSeq kp prs (post.drop used) 0).map f) := by
  have hs : gl (pre.reverse ++ cur :: post)
      = ((gl pre).reverse ++ [cur.g] ++ gl (post.take used)) ++ gl (post.drop used) := by
    rw [← seq_take, ← seq_drop, List.take_append_drop]
  have hlen : (gl (pre.reverse ++ cur :: post)).length = p + 1 + (post.drop used).length := by
    rw [seq_length, List.length_drop]; omega
  rw [hlen, hs, matchFwd_eq kp prs _ (post.drop used) p (post.drop used).length
    (by simp [List.length_take]; omega) (Nat.le_refl _), List.take_length]
  have := matchSeq_shift kp prs (post.drop used) 0 (p + 1)
  rw [Nat.zero_add] at this
  rw [this, Option.map_map]
  exact ⟨_, rfl⟩

theorem takeWhile_take_length {α : Type} (q : α → Bool) (l : List α) (n : Nat) :
    ((l.take n).takeWhile q).length = min n (l.takeWhile q).length := by
  induction l generalizing n with
  | nil => simp
  | cons x l ih =>
    cases n with
    | zero => simp
    | succ n =>
      simp only [List.take_succ_cons, List.takeWhile_cons]
      split
      · simp only [List.length_cons, ih]; omega
      · simp

theorem matchRule_eq (kp) (back input look : List (Nat → Bool)) (pre : List TG) (cur : TG)
    (post : List TG) (lim : Nat) (hlim : lim ≤ post.length) :
    matchRule kp (gl (pre.reverse ++ cur :: post)) pre.length ((pre.length + 1 + lim : Nat) : Int)
        back input look
      = .ok ((matchContext kp back input look pre post lim).map fun m =>
          (pre.length :: m.offs.map (· + (pre.length + 1)), pre.length + 1 + m.wlen)) := by
  unfold matchRule matchContext
  rw [seq_take_rev, matchBack_eq kp back pre 0]
  cases hb : matchSeq kp back pre 0 with
  | none => rfl
  | some bo =>
    simp only [Option.isSome_some, Bool.not_true, Bool.false_eq_true, if_false]
    rw [matchFwd_seq kp input pre cur post lim hlim]
    cases hi : matchSeq kp input (post.take lim) 0 with
    | none => rfl
    | some offs =>
      simp only [Option.map_some, bind_ok_eq]
      have hu := usedLen_le kp input (post.take lim) offs hi
      rw [List.length_take] at hu
      have hp := last_pos offs pre.length
      generalize (offs.map (· + (pre.length + 1))).getLast?.getD pre.length = p at hp
      obtain ⟨f, hf⟩ := matchFwd_look kp look pre cur post (usedLen offs) p (by omega) hp
      rw [hf]
      cases hl : matchSeq kp look (post.drop (usedLen offs)) 0 with
      | none => rfl
      | some lo =>
        simp only [Option.map_some, bind_ok_eq]
        have e : pre.length + 1 + lim = (p + 1) + (lim - usedLen offs) := by omega
        rw [hp, seq_drop, ← hp, e, skipFwd_gl kp _ (p + 1) (lim - usedLen offs) 0
          (by rw [List.length_drop]; omega)]
        simp only [bind_ok_eq, List.drop_take, takeWhile_take_length, Nat.sub_zero]
        rw [hp, Nat.add_assoc (pre.length + 1)]

/-! ## (6) the rule loop of the formats 1 and 2 -/

theorem firstRule_eq (kp) (mb mi ml : Nat → Nat → Bool) (pre : List TG) (cur : TG) (post : List TG)
    (lim : Nat) (hlim : lim ≤ post.length) (stack : List Nested) (rs : List Rule) :
    SfntV.Shape.firstRule kp ⟨gl (pre.reverse ++ cur :: post), stack⟩ pre.length
        ((pre.length + 1 + lim : Nat) : Int) mb mi ml rs
      = .ok ((SfntV.Spec.Shape.firstRule kp mb mi ml pre post lim rs).map fun (m, acts) =>
          (pushMatch ⟨gl (pre.reverse ++ cur :: post), stack⟩
              (pre.length :: m.offs.map (· + (pre.length + 1))) acts (pre.length + 1 + m.wlen),
           pre.length + 1 + m.wlen)) := by
  induction rs with
  | nil => rfl
  | cons r rs ih =>
    simp only [SfntV.Shape.firstRule, SfntV.Spec.Shape.firstRule,
      matchRule_eq kp _ _ _ pre cur post lim hlim, bind_ok_eq]
    cases matchContext kp (r.back.map mb) (r.input.map mi) (r.look.map ml) pre post lim with
    | none => simpa using ih
    | some m => rfl

/-! ## chained context format 3

`chain3Input` tests the glyph at `p` first and then skips with `needed` = number of sets still
to match INCLUDING the next one, so the skip loop stops one position earlier than that of
`matchFwd`; when exactly as many glyphs remain before the limit as sets remain to be matched,
they are tested one after the other WITHOUT the `keep` filter.  The engine therefore agrees with
the reference only if the sets after the first accept no glyph the lookup ignores (`hK` below);
see the counterexamples at the end of the file. -/

/-- `chain3Input` after the test of the glyph at `p`: skip, then the remaining sets -/
def tailC (kp : Nat → Bool) (seq : List Glyph) (cs : List GSet) (rest : List Glyph) (s : Nat)
    (limit : Int) : Outcome (Option (List Nat × Nat)) := do
  let q ← skipFwd kp rest s limit cs.length
  chain3Input kp seq cs q limit

theorem chain3Input_cons (kp) (seq : List Glyph) (c : GSet) (cs : List GSet) (p : Nat) (limit : Int) :
    chain3Input kp seq (c :: cs) p limit =
      (if (p : Int) + cs.length ≥ limit then .ok none else do
      let g ← idx "chain3:seq[p]" seq p
      if !setVal c g.gid then .ok none else
      match ← tailC kp seq cs (seq.drop (p + 1)) (p + 1) limit with
      | some (ps, last) => .ok (some (p :: ps, last))
      | none => .ok none) := by
  rw [chain3Input]
  split
  · rfl
  · cases idx "chain3:seq[p]" seq p with
    | ok g =>
      simp only [bind_ok_eq]
      split
      · rfl
      · simp only [tailC]
        cases skipFwd kp (seq.drop (p + 1)) (p + 1) limit cs.length <;> rfl
    | err e => rfl
    | panic e => rfl

/-- the window of a match inside `W`: up to the last matched glyph, plus the unkept glyphs behind it -/
def winLen (kp : Nat → Bool) (offs : List Nat) (W : List TG) : Nat :=
  usedLen offs + ((W.drop (usedLen offs)).takeWhile fun t => !kp t.g.gid).length

theorem matchSeq_length (kp) (prs : List (Nat → Bool)) (ts : List TG) (i : Nat) (offs : List Nat)
    (h : matchSeq kp prs ts i = some offs) : offs.length = prs.length := by
  induction ts generalizing prs i offs with
  | nil =>
    cases prs with
    | nil => simp only [matchSeq] at h; cases h; rfl
    | cons p ps => simp [matchSeq] at h
  | cons t ts ih =>
    cases prs with
    | nil => simp only [matchSeq] at h; cases h; rfl
    | cons p ps =>
      simp only [matchSeq] at h
      split at h
      · split at h
        · cases hm : matchSeq kp ps ts (i + 1) with
          | none => rw [hm] at h; cases h
          | some offs' =>
            rw [hm] at h
            cases h
            simp only [List.length_cons, ih ps (i + 1) offs' hm]
        · cases h
      · exact ih (p :: ps) (i + 1) offs h

theorem usedLen_zero_cons (l : List Nat) : usedLen (0 :: l.map (· + 1)) = usedLen l + 1 := by
  unfold usedLen
  rw [List.getLast?_cons, List.getLast?_map]
  cases l.getLast? <;> rfl

theorem usedLen_shift (l : List Nat) (h : l ≠ []) : usedLen (l.map (· + 1)) = usedLen l + 1 := by
  unfold usedLen
  rw [List.getLast?_map]
  cases hl : l.getLast? with
  | none => exact absurd (List.getLast?_eq_none_iff.mp hl) h
  | some o => rfl

theorem tailC_eq (kp) (cs : List GSet) (hK : ∀ c ∈ cs, ∀ g, setVal c g = true → kp g = true) :
    ∀ (R : List TG) (L : List Glyph) (s lim : Nat), L.length = s → lim ≤ R.length →
      tailC kp (L ++ gl R) cs (gl R) s ((s + lim : Nat) : Int)
        = .ok ((matchSeq kp (cs.map setVal) (R.take lim) 0).map fun offs =>
            (offs.map (· + s), s + winLen kp offs (R.take lim))) := by
  induction cs with
  | nil =>
    intro R L s lim hL hlim
    simp only [tailC, List.length_nil, skipFwd_gl kp R s lim 0 hlim, bind_ok_eq, chain3Input,
      List.map_nil, matchSeq, Option.map_some, winLen, usedLen, List.getLast?_nil, List.drop_zero,
      takeWhile_take_length, Nat.sub_zero, Nat.zero_add]
  | cons c cs ihc =>
    have hKc := hK c (List.mem_cons_self)
    have hKs : ∀ c' ∈ cs, ∀ g, setVal c' g = true → kp g = true :=
      fun c' hc' => hK c' (List.mem_cons_of_mem _ hc')
    have ihc := ihc hKs
    intro R
    induction R with
    | nil =>
      intro L s lim hL hlim
      simp only [List.length_nil] at hlim
      have : lim = 0 := by omega
      subst this
      simp only [tailC, gl_nil, skipFwd]
      rw [if_neg (by omega)]
      simp only [bind_ok_eq, chain3Input_cons]
      rw [if_pos (by omega)]
      rfl
    | cons t R ihR =>
      intro L s lim hL hlim
      simp only [List.length_cons] at hlim
      by_cases hshort : lim ≤ cs.length
      · -- not even room for the sets after this one
        simp only [tailC, gl_cons, skipFwd, List.length_cons]
        rw [if_neg (by omega)]
        simp only [bind_ok_eq, chain3Input_cons]
        rw [if_pos (by omega)]
        rw [matchSeq_short]
        · rfl
        · simp only [List.length_take, List.length_cons, List.length_map]
          omega
      · obtain ⟨lim', rfl⟩ : ∃ lim', lim = lim' + 1 := ⟨lim - 1, by omega⟩
        have e1 : L ++ t.g :: gl R = (L ++ [t.g]) ++ gl R := by simp
        have e2 : s + (lim' + 1) = s + 1 + lim' := by omega
        have hidx : idx "chain3:seq[p]" (L ++ t.g :: gl R) s = .ok t.g := by
          simp [idx, hL]
        have hdrop : (L ++ t.g :: gl R).drop (s + 1) = gl R := by
          rw [e1, ← hL]
          have : L.length + 1 = (L ++ [t.g]).length := by simp
          rw [this, List.drop_left]
        -- what happens once the loop has stopped at `s`
        have stop : chain3Input kp (L ++ t.g :: gl R) (c :: cs) s ((s + (lim' + 1) : Nat) : Int)
            = if setVal c t.g.gid then
                .ok ((matchSeq kp (cs.map setVal) (R.take lim') 0).map fun offs =>
                  (s :: offs.map (· + (s + 1)), s + 1 + winLen kp offs (R.take lim')))
              else .ok none := by
          rw [chain3Input_cons, if_neg (by omega), hidx]
          simp only [bind_ok_eq]
          cases hv : setVal c t.g.gid with
          | false => rfl
          | true =>
            simp only [Bool.not_true, Bool.false_eq_true, if_false, if_true, hdrop]
            rw [e1, e2, ihc R (L ++ [t.g]) (s + 1) lim' (by simp [hL]) (by omega)]
            cases matchSeq kp (cs.map setVal) (R.take lim') 0 <;> rfl
        by_cases hk : kp t.g.gid = true
        · -- the loop stops at the kept glyph (or has no room to run): it is tested
          have hskip : skipFwd kp (t.g :: gl R) s ((s + (lim' + 1) : Nat) : Int) (cs.length + 1) = .ok s := by
            simp only [skipFwd, hk, if_true]
            split <;> rfl
          simp only [tailC, gl_cons, List.length_cons, hskip, bind_ok_eq, stop]
          simp only [List.map_cons, List.take_succ_cons, matchSeq, hk, if_true]
          cases hv : setVal c t.g.gid with
          | false => simp
          | true =>
            simp only [if_true]
            have hsh := matchSeq_shift kp (cs.map setVal) (R.take lim') 0 1
            rw [Nat.zero_add] at hsh
            rw [hsh]
            cases matchSeq kp (cs.map setVal) (R.take lim') 0 with
            | none => rfl
            | some offs =>
              simp only [Option.map_some, winLen, usedLen_zero_cons, List.drop_succ_cons,
                List.map_cons, List.map_map]
              congr 3
              · congr 1
                · omega
                · apply List.map_congr_left
                  intro a _
                  simp only [Function.comp]
                  omega
              · omega
        · have hk' : kp t.g.gid = false := by simpa using hk
          by_cases hroom : cs.length + 1 < lim' + 1
          · -- the unkept glyph is passed over
            have h := ihR (L ++ [t.g]) (s + 1) lim' (by simp [hL]) (by omega)
            simp only [tailC, List.length_cons] at h
            simp only [tailC, gl_cons, List.length_cons, skipFwd]
            rw [if_pos (by omega)]
            simp only [hk', Bool.false_eq_true, if_false]
            rw [e1, e2, h]
            simp only [List.map_cons, List.take_succ_cons, matchSeq, hk', Bool.false_eq_true, if_false]
            have hsh := matchSeq_shift kp (setVal c :: cs.map setVal) (R.take lim') 0 1
            rw [Nat.zero_add] at hsh
            rw [hsh]
            cases hm : matchSeq kp (setVal c :: cs.map setVal) (R.take lim') 0 with
            | none => rfl
            | some offs =>
              have hne : offs ≠ [] := by
                intro h0
                have := matchSeq_length kp _ _ _ _ hm
                rw [h0] at this
                simp at this
              simp only [Option.map_some, winLen, usedLen_shift offs hne, List.drop_succ_cons,
                List.map_map]
              congr 3
              · apply List.map_congr_left
                intro a _
                simp only [Function.comp]
                omega
              · omega
          · -- exactly as many glyphs as sets remain: the unkept glyph is tested
            have hskip : skipFwd kp (t.g :: gl R) s ((s + (lim' + 1) : Nat) : Int) (cs.length + 1) = .ok s := by
              simp only [skipFwd]
              rw [if_neg (by omega)]
            have hv : setVal c t.g.gid = false := by
              cases hv : setVal c t.g.gid with
              | false => rfl
              | true => rw [hKc _ hv] at hk'; cases hk'
            simp only [tailC, gl_cons, List.length_cons, hskip, bind_ok_eq, stop, hv]
            simp only [List.map_cons, List.take_succ_cons, matchSeq, hk', Bool.false_eq_true, if_false]
            rw [matchSeq_short]
            · rfl
            · simp only [List.length_take, List.length_cons, List.length_map]
              omega

/-- the input sets of format 3 at the current position (any limit) -/
theorem chain3Input_eq (kp) (c0 : GSet) (cs : List GSet)
    (hK : ∀ c ∈ cs, ∀ g, setVal c g = true → kp g = true)
    (pre : List TG) (cur : TG) (post : List TG) (lim : Nat) (hlim : lim ≤ post.length) :
    chain3Input kp (gl (pre.reverse ++ cur :: post)) (c0 :: cs) pre.length
        ((pre.length + 1 + lim : Nat) : Int)
      = .ok (if setVal c0 cur.g.gid then
          (matchSeq kp (cs.map setVal) (post.take lim) 0).map fun offs =>
            (pre.length :: offs.map (· + (pre.length + 1)), pre.length + 1 + winLen kp offs (post.take lim))
        else none) := by
  rw [chain3Input_cons]
  by_cases hshort : lim < cs.length
  · rw [if_pos (by omega), matchSeq_short]
    · simp
    · simp only [List.length_take, List.length_map]; omega
  · rw [if_neg (by omega), seq_idx]
    simp only [bind_ok_eq]
    cases hv : setVal c0 cur.g.gid with
    | false => rfl
    | true =>
      have hd := seq_drop pre cur post 0
      rw [Nat.add_zero, List.drop_zero] at hd
      simp only [Bool.not_true, Bool.false_eq_true, if_false, if_true, hd]
      rw [seq_split, tailC_eq kp cs hK post _ (pre.length + 1) lim (by simp) hlim]
      cases matchSeq kp (cs.map setVal) (post.take lim) 0 <;> rfl

/-- the lookahead sets of format 3, tested from a position that is the end of the sequence or
holds a kept glyph, up to the end of the sequence -/
theorem chain3Look_eq (kp) (look : List GSet)
    (hK : ∀ c ∈ look.tail, ∀ g, setVal c g = true → kp g = true)
    (L : List Glyph) (R : List TG) (p : Nat) (hL : L.length = p)
    (hR : ∀ t r, R = t :: r → kp t.g.gid = true) :
    ∃ f, chain3Input kp (L ++ gl R) look p ((L ++ gl R).length : Int)
      = .ok ((matchSeq kp (look.map setVal) R 0).map f) := by
  cases look with
  | nil => exact ⟨fun _ => ([], p), by simp [chain3Input, matchSeq]⟩
  | cons l0 ls =>
    simp only [List.tail_cons] at hK
    cases R with
    | nil =>
      refine ⟨fun _ => ([], p), ?_⟩
      rw [chain3Input_cons, if_pos (by simp [hL]; omega)]
      rfl
    | cons t R =>
      have hk := hR t R rfl
      rw [chain3Input_cons]
      simp only [List.map_cons, matchSeq, hk, if_true]
      by_cases hshort : R.length < ls.length
      · refine ⟨fun _ => ([], p), ?_⟩
        rw [if_pos (by simp [hL]; omega), matchSeq_short]
        · simp
        · simp only [List.length_map]; omega
      · have hlen : (L ++ gl (t :: R)).length = p + 1 + R.length := by simp [hL]; omega
        rw [if_neg (by rw [hlen]; omega)]
        have hidx : idx "chain3:seq[p]" (L ++ gl (t :: R)) p = .ok t.g := by
          simp [idx, hL]
        rw [hidx]
        simp only [bind_ok_eq]
        cases hv : setVal l0 t.g.gid with
        | false => exact ⟨fun _ => ([], p), rfl⟩
        | true =>
          have e1 : L ++ gl (t :: R) = (L ++ [t.g]) ++ gl R := by simp
          have hdrop : (L ++ gl (t :: R)).drop (p + 1) = gl R := by
            rw [e1, ← hL]
            have : L.length + 1 = (L ++ [t.g]).length := by simp
            rw [this, List.drop_left]
          simp only [Bool.not_true, Bool.false_eq_true, if_false, if_true, hdrop]
          rw [hlen, e1, tailC_eq kp ls hK R _ (p + 1) R.length (by simp [hL]) (Nat.le_refl _),
            List.take_length]
          have hsh := matchSeq_shift kp (ls.map setVal) R 0 1
          rw [Nat.zero_add] at hsh
          rw [hsh]
          cases matchSeq kp (ls.map setVal) R 0 with
          | none => exact ⟨fun _ => ([], p), rfl⟩
          | some offs => exact ⟨fun x => (p :: (offs.map (· + (p + 1))), p + 1 + winLen kp offs R), rfl⟩

theorem drop_takeWhile_length {α : Type} (q : α → Bool) (l : List α) :
    l.drop (l.takeWhile q).length = l.dropWhile q := by
  induction l with
  | nil => rfl
  | cons x l ih =>
    simp only [List.takeWhile_cons, List.dropWhile_cons]
    split
    · simpa using ih
    · rfl

theorem takeWhile_length_le {α : Type} (q : α → Bool) (l : List α) :
    (l.takeWhile q).length ≤ l.length := by
  induction l with
  | nil => simp
  | cons x l ih =>
    simp only [List.takeWhile_cons]
    split
    · simp only [List.length_cons]; omega
    · simp

theorem dropWhile_head {α : Type} (q : α → Bool) (l : List α) (t : α) (r : List α)
    (h : l.dropWhile q = t :: r) : q t = false := by
  induction l with
  | nil => cases h
  | cons x l ih =>
    simp only [List.dropWhile_cons] at h
    split at h
    · exact ih h
    · rename_i hx
      cases h
      simpa using hx

/-- leading unkept glyphs do not matter for a match -/
theorem matchSeq_dropWhile_isSome (kp) (prs : List (Nat → Bool)) (l : List TG) :
    (matchSeq kp prs (l.dropWhile fun t => !kp t.g.gid) 0).isSome = (matchSeq kp prs l 0).isSome := by
  cases prs with
  | nil => simp [matchSeq]
  | cons p ps =>
    induction l with
    | nil => rfl
    | cons t l ih =>
      simp only [List.dropWhile_cons]
      by_cases hk : kp t.g.gid = true
      · simp [hk]
      · have hk' : kp t.g.gid = false := by simpa using hk
        simp only [hk', Bool.not_false, if_true, ih]
        conv => rhs; simp only [matchSeq, hk', Bool.false_eq_true, if_false]
        have hsh := matchSeq_shift kp (p :: ps) l 0 1
        rw [Nat.zero_add] at hsh
        rw [hsh, Option.isSome_map]

/-- Chained context format 3 at top level (the whole rest of the sequence is available): the
engine agrees with the reference PROVIDED the input and lookahead sets after the first accept
only glyphs the lookup keeps. -/
theorem chain3_top (kp gd) (pre : List TG) (cur : TG) (post : List TG) (stack : List Nested)
    (back input look : List GSet) (actions : List Action)
    (hi : ∀ c ∈ input.tail, ∀ g, setVal c g = true → kp g = true)
    (hl : ∀ c ∈ look.tail, ∀ g, setVal c g = true → kp g = true) :
    match matchSub kp gd pre cur post post.length (.chain3 back input look actions) with
    | .error _ => True
    | .ok none =>
      applySub kp ⟨gl (pre.reverse ++ cur :: post), stack⟩ pre.length
        (gl (pre.reverse ++ cur :: post)).length (.chain3 back input look actions) = .ok none
    | .ok (some (.ctx m acts)) =>
      applySub kp ⟨gl (pre.reverse ++ cur :: post), stack⟩ pre.length
        (gl (pre.reverse ++ cur :: post)).length (.chain3 back input look actions)
        = .ok (some (pushMatch ⟨gl (pre.reverse ++ cur :: post), stack⟩
            (pre.length :: m.offs.map (· + (pre.length + 1))) acts (pre.length + 1 + m.wlen),
            pre.length + 1 + m.wlen))
    | .ok (some (.done _ _)) => False := by
  cases input with
  | nil => simp only [matchSub, undef]
  | cons c0 cs =>
    simp only [List.tail_cons] at hi
    have hin := chain3Input_eq kp c0 cs hi pre cur post post.length (Nat.le_refl _)
    rw [List.take_length] at hin
    simp only [matchSub, applySub, seq_take_rev, matchBack_eq kp _ pre 0, seq_length, hin, R_pure]
    cases hv : setVal c0 cur.g.gid with
    | false =>
      simp only [Bool.not_false, if_true, Bool.false_eq_true, if_false, bind_ok_eq]
      split <;> rfl
    | true =>
      simp only [Bool.not_true, Bool.false_eq_true, if_false, if_true, matchContext, List.take_length]
      cases hb : matchSeq kp (back.map setVal) pre 0 with
      | none => simp
      | some bo =>
        simp only [Option.isSome_some, Bool.not_true, Bool.false_eq_true, if_false, bind_ok_eq]
        cases hm : matchSeq kp (cs.map setVal) post 0 with
        | none => simp
        | some offs =>
          simp only [Option.map_some]
          have hu := usedLen_le kp _ post offs hm
          -- the lookahead starts at the end of the window
          have hw : post.drop (winLen kp offs post)
              = (post.drop (usedLen offs)).dropWhile fun t => !kp t.g.gid := by
            rw [← drop_takeWhile_length, List.drop_drop]; rfl
          have hwle : winLen kp offs post ≤ post.length := by
            have := takeWhile_length_le (fun t : TG => !kp t.g.gid) (post.drop (usedLen offs))
            rw [List.length_drop] at this
            unfold winLen; omega
          have hs : gl (pre.reverse ++ cur :: post)
              = ((gl pre).reverse ++ [cur.g] ++ gl (post.take (winLen kp offs post)))
                ++ gl (post.drop (winLen kp offs post)) := by
            rw [← seq_take, ← seq_drop, List.take_append_drop]
          obtain ⟨f, hf⟩ := chain3Look_eq kp look hl
            ((gl pre).reverse ++ [cur.g] ++ gl (post.take (winLen kp offs post)))
            (post.drop (winLen kp offs post)) (pre.length + 1 + winLen kp offs post)
            (by simp [List.length_take]; omega)
            (by
              intro t r htr
              rw [hw] at htr
              simpa using dropWhile_head _ _ t r htr)
          rw [← hs, seq_length] at hf
          have hsome := matchSeq_dropWhile_isSome kp (look.map setVal) (post.drop (usedLen offs))
          rw [← hw] at hsome
          simp only [bind_ok_eq, hf]
          cases hl1 : matchSeq kp (look.map setVal) (post.drop (winLen kp offs post)) 0 with
          | none =>
            rw [hl1] at hsome
            cases hl2 : matchSeq kp (look.map setVal) (post.drop (usedLen offs)) 0 with
            | none => rfl
            | some _ => rw [hl2] at hsome; cases hsome
          | some lo =>
            rw [hl1] at hsome
            cases hl2 : matchSeq kp (look.map setVal) (post.drop (usedLen offs)) 0 with
            | none => rw [hl2] at hsome; cases hsome
            | some _ => rfl

/-- Chained context format 3 without lookahead, at any limit (nested application included), under
the same proviso on the input sets. -/
theorem chain3_nolook (kp gd) (pre : List TG) (cur : TG) (post : List TG) (stack : List Nested)
    (back input : List GSet) (actions : List Action) (lim : Nat) (hlim : lim ≤ post.length)
    (hi : ∀ c ∈ input.tail, ∀ g, setVal c g = true → kp g = true) :
    match matchSub kp gd pre cur post lim (.chain3 back input [] actions) with
    | .error _ => True
    | .ok none =>
      applySub kp ⟨gl (pre.reverse ++ cur :: post), stack⟩ pre.length
        ((pre.length + 1 + lim : Nat) : Int) (.chain3 back input [] actions) = .ok none
    | .ok (some (.ctx m acts)) =>
      applySub kp ⟨gl (pre.reverse ++ cur :: post), stack⟩ pre.length
        ((pre.length + 1 + lim : Nat) : Int) (.chain3 back input [] actions)
        = .ok (some (pushMatch ⟨gl (pre.reverse ++ cur :: post), stack⟩
            (pre.length :: m.offs.map (· + (pre.length + 1))) acts (pre.length + 1 + m.wlen),
            pre.length + 1 + m.wlen))
    | .ok (some (.done _ _)) => False := by
  cases input with
  | nil => simp only [matchSub, undef]
  | cons c0 cs =>
    simp only [List.tail_cons] at hi
    have hin := chain3Input_eq kp c0 cs hi pre cur post lim hlim
    simp only [matchSub, applySub, seq_take_rev, matchBack_eq kp _ pre 0, hin, R_pure]
    cases hv : setVal c0 cur.g.gid with
    | false =>
      simp only [Bool.not_false, if_true, Bool.false_eq_true, if_false, bind_ok_eq]
      split <;> rfl
    | true =>
      simp only [Bool.not_true, Bool.false_eq_true, if_false, if_true, matchContext]
      cases hb : matchSeq kp (back.map setVal) pre 0 with
      | none => simp
      | some bo =>
        simp only [Option.isSome_some, Bool.not_true, Bool.false_eq_true, if_false, bind_ok_eq]
        cases hm : matchSeq kp (cs.map setVal) (post.take lim) 0 with
        | none => simp
        | some offs =>
          simp only [List.map_nil, matchSeq, Option.map_some, chain3Input, bind_ok_eq, winLen]

/-! ## counterexamples for format 3 (glyph 9 is ignored by the lookup, glyphs 1 and 2 are kept)

Without the proviso the engine and the reference differ even at top level: when exactly as many
glyphs remain as sets are still to be matched, `ChainedSeqContext3.apply` tests them without
consulting the lookup flags. -/

/-- input `[{1},{9}]` on the glyphs `1 9`: the engine matches (input positions 0 and 1), the
reference does not (9 is ignored, no second input glyph is left) -/
example :
    applySub (fun g => g != 9) ⟨[⟨1, [], 0, 0, 0⟩, ⟨9, [], 0, 0, 0⟩], []⟩ 0 2
        (.chain3 [] [[(1, true)], [(9, true)]] [] [])
      = .ok (some (⟨[⟨1, [], 0, 0, 0⟩, ⟨9, [], 0, 0, 0⟩], [⟨[0, 1], [], 2⟩]⟩, 2))
    ∧ matchContext (fun g => g != 9) [] [setVal [(9, true)]] [] [] [{ g := ⟨9, [], 0, 0, 0⟩ }] 1 = none := by
  decide

/-- lookahead `[{2},{9}]` on the glyphs `1 2 9`: the engine matches, the reference does not -/
example :
    applySub (fun g => g != 9) ⟨[⟨1, [], 0, 0, 0⟩, ⟨2, [], 0, 0, 0⟩, ⟨9, [], 0, 0, 0⟩], []⟩ 0 3
        (.chain3 [] [[(1, true)]] [[(2, true)], [(9, true)]] [])
      = .ok (some (⟨[⟨1, [], 0, 0, 0⟩, ⟨2, [], 0, 0, 0⟩, ⟨9, [], 0, 0, 0⟩], [⟨[0], [], 1⟩]⟩, 1))
    ∧ matchContext (fun g => g != 9) [] [] [setVal [(2, true)], setVal [(9, true)]] []
        [{ g := ⟨2, [], 0, 0, 0⟩ }, { g := ⟨9, [], 0, 0, 0⟩ }] 2 = none := by
  decide

/-- nested application (window = the first glyph only) with lookahead `[{2}]` on the glyphs
`1 9 2`: the engine tests the ignored glyph 9 at the window end against the lookahead and does
not match, the reference skips it and matches — even though all sets accept kept glyphs only -/
example :
    applySub (fun g => g != 9) ⟨[⟨1, [], 0, 0, 0⟩, ⟨9, [], 0, 0, 0⟩, ⟨2, [], 0, 0, 0⟩], []⟩ 0 1
        (.chain3 [] [[(1, true)]] [[(2, true)]] [])
      = .ok none
    ∧ matchContext (fun g => g != 9) [] [] [setVal [(2, true)]] []
        [{ g := ⟨9, [], 0, 0, 0⟩ }, { g := ⟨2, [], 0, 0, 0⟩ }] 0 = some ⟨[], 0⟩ := by
  decide

end SfntV.Spec.Shape
