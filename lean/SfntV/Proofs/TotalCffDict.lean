/-
C02 (decoders are total): proofs about the checked-index models of cff `decodeDict` and
`decodeFloat` (`SfntV.Total.CffDict`): no panic for any byte string and ANY external functions
(`Env`: number parser, real→SID conversion, string table), linear cost (every loop iteration consumes
at least half a byte (float nibbles) resp. one byte (DICT tokens); the operand stack is unbounded but
every operand costs a byte), and the bridge to the value-level model of C13 (`SfntV.Cff`).
-/
import SfntV.Model.TotalCffDict
import SfntV.Proofs.TotalGdef

namespace SfntV.Total.CffDict
open SfntV SfntV.Total
open SfntV.Total.Gdef (idx_ok ok_bind bind_noPanic bind_eq_ok)

/-! ## checked slices -/

theorem sliceFrom_ok (site : String) (xs : List α) (a : Nat) (h : a ≤ xs.length) :
    sliceFrom site xs a = .ok (xs.drop a) := by
  unfold sliceFrom
  rw [if_pos h]

theorem err_bind (e : String) (f : α → Outcome β) : (Outcome.err e >>= f) = .err e := rfl

/-! ## `decodeFloat` -/

theorem floatLoop_noPanic : ∀ (fuel : Nat) (buf : Bytes) (s : List Nat) (first : Bool) (next : Nat)
    (c : Cost), (floatLoop fuel buf s first next c).noPanic
  | 0, _, _, _, _, _ => True.intro
  | fuel+1, buf, s, first, next, c => by
    unfold floatLoop
    cases first
    · simp only [Bool.false_eq_true, if_false]
      show Outcome.noPanic (Outcome.ok _ >>= _)
      rw [ok_bind]
      dsimp only
      repeat' split
      all_goals first | exact True.intro | exact floatLoop_noPanic fuel _ _ _ _ _
    · simp only [if_true]
      by_cases h0 : buf.length = 0
      · rw [if_pos h0]; exact True.intro
      · rw [if_neg h0]
        rw [idx_ok _ buf 0 (by omega), ok_bind, sliceFrom_ok _ buf 1 (by omega), ok_bind]
        show Outcome.noPanic (Outcome.ok _ >>= _)
        rw [ok_bind]
        dsimp only
        repeat' split
        all_goals first | exact True.intro | exact floatLoop_noPanic fuel _ _ _ _ _

theorem decodeFloat_noPanic (E : Env) (buf : Bytes) : (decodeFloat E buf).noPanic := by
  unfold decodeFloat
  refine bind_noPanic (floatLoop_noPanic _ _ _ _ _ _) (fun r _ => ?_)
  obtain ⟨⟨rest, s⟩, c⟩ := r
  dsimp only
  split <;> exact True.intro

/-- the loop invariant of `decodeFloat`: with the potential `2·len(buf) + [¬first]` every iteration
costs one step and lowers the potential by one; at most two characters are appended per step;
`alloc` = characters appended + `len(s)` for `string(s)` -/
theorem floatLoop_cost : ∀ (fuel : Nat) (buf : Bytes) (s : List Nat) (first : Bool) (next : Nat)
    (c : Cost) (rest : Bytes) (s' : List Nat) (c' : Cost),
    floatLoop fuel buf s first next c = .ok ((rest, s'), c') →
      c'.steps + 2 * rest.length ≤ c.steps + 2 * buf.length + (if first then 0 else 1) ∧
      s'.length + 2 * c.steps ≤ s.length + 2 * c'.steps ∧
      c'.alloc + s.length = c.alloc + 2 * s'.length ∧
      rest.length + (if first then 1 else 0) ≤ buf.length
  | 0, _, _, _, _, _, _, _, _, h => by cases h
  | fuel+1, buf, s, first, next, c, rest, s', c', h => by
    unfold floatLoop at h
    cases first
    · simp only [Bool.false_eq_true, if_false] at h ⊢
      change (Outcome.ok _ >>= _) = _ at h
      rw [ok_bind] at h
      dsimp only at h
      repeat' split at h
      all_goals first
        | (have ih := floatLoop_cost fuel _ _ _ _ _ _ _ _ h
           simp only [List.length_append, List.length_cons, List.length_nil, Cost.tick, Cost.mem,
             if_true] at ih
           omega)
        | (cases h <;> (simp only [Cost.tick, Cost.mem]; omega))
    · simp only [if_true] at h ⊢
      by_cases h0 : buf.length = 0
      · rw [if_pos h0] at h; cases h
      · rw [if_neg h0] at h
        rw [idx_ok _ buf 0 (by omega), ok_bind, sliceFrom_ok _ buf 1 (by omega), ok_bind] at h
        change (Outcome.ok _ >>= _) = _ at h
        rw [ok_bind] at h
        dsimp only at h
        repeat' split at h
        all_goals first
          | (have ih := floatLoop_cost fuel _ _ _ _ _ _ _ _ h
             simp only [List.length_append, List.length_cons, List.length_nil, Cost.tick, Cost.mem,
               List.length_drop, Bool.false_eq_true, if_false] at ih
             omega)
          | (cases h <;> (simp only [Cost.tick, Cost.mem, List.length_drop]; omega))

/-- `decodeFloat` is linear: at most two iterations per byte consumed, at most 4 allocated
elements per iteration; at least one byte is consumed -/
theorem decodeFloat_cost' (E : Env) (buf rest : Bytes) (s : List Nat) (v : Real) (c : Cost)
    (h : decodeFloat E buf = .ok ((rest, s, v), c)) :
    c.steps + 2 * rest.length ≤ 2 * buf.length ∧ c.alloc ≤ 4 * c.steps ∧
      rest.length + 1 ≤ buf.length := by
  unfold decodeFloat at h
  obtain ⟨r, hr, h⟩ := bind_eq_ok h
  obtain ⟨⟨rest0, s0⟩, c0⟩ := r
  dsimp only at h
  split at h
  · cases h
  · cases h
    have := floatLoop_cost _ _ _ _ _ _ _ _ _ hr
    simp only [List.length_nil, Cost.zero, if_true] at this
    omega

theorem decodeFloat_cost (E : Env) (buf : Bytes) (r : Bytes × List Nat × Real) (c : Cost)
    (h : decodeFloat E buf = .ok (r, c)) :
    c.steps ≤ 2 * buf.length ∧ c.alloc ≤ 8 * buf.length := by
  obtain ⟨rest, s, v⟩ := r
  have := decodeFloat_cost' E buf rest s v c h
  omega

/-! ## `flush` -/

theorem flushLoop_noPanic (E : Env) : ∀ (n i : Nat) (stack : List Operand) (c : Cost),
    i + n ≤ stack.length → (flushLoop E n i stack c).noPanic
  | 0, _, _, _, _ => True.intro
  | n+1, i, stack, c, h => by
    unfold flushLoop
    rw [idx_ok _ stack i (by omega), ok_bind]
    dsimp only
    split
    · exact True.intro
    · rw [if_neg (by omega)]
      split
      · exact True.intro
      · exact flushLoop_noPanic E n (i + 1) _ _ (by rw [List.length_set]; omega)

theorem flushLoop_cost (E : Env) : ∀ (n i : Nat) (stack : List Operand) (c : Cost)
    (st' : List Operand) (c' : Cost), flushLoop E n i stack c = .ok (st', c') →
      c'.steps = c.steps + n ∧ c'.alloc = c.alloc + n ∧ st'.length = stack.length
  | 0, _, _, _, _, _, h => by
    unfold flushLoop at h
    cases h
    exact ⟨rfl, rfl, rfl⟩
  | n+1, i, stack, c, st', c', h => by
    unfold flushLoop at h
    obtain ⟨x, _, h⟩ := bind_eq_ok h
    dsimp only at h
    split at h
    · cases h
    · split at h
      · cases h
      · split at h
        · cases h
        · have ih := flushLoop_cost E n (i + 1) _ _ _ _ h
          simp only [List.length_set, Cost.tick, Cost.mem] at ih
          omega

theorem flush_noPanic (E : Env) (op : Nat) (stack : List Operand) (res : Dict) (c : Cost) :
    (flush E op stack res c).noPanic := by
  unfold flush
  refine bind_noPanic ?_ (fun _ _ => True.intro)
  split
  · dsimp only
    apply flushLoop_noPanic
    split <;> omega
  · exact True.intro

/-- one step per converted SID, one allocated element per converted SID plus the map entry -/
theorem flush_cost (E : Env) (op : Nat) (stack : List Operand) (res res' : Dict) (c c' : Cost)
    (h : flush E op stack res c = .ok (res', c')) :
    c'.steps ≤ c.steps + stack.length ∧ c'.alloc ≤ c.alloc + stack.length + 1 := by
  unfold flush at h
  obtain ⟨r, hr, h⟩ := bind_eq_ok h
  cases h
  split at hr
  · dsimp only at hr
    have := flushLoop_cost E _ _ _ _ _ _ hr
    simp only [Cost.mem]
    split at this <;> omega
  · cases hr
    simp only [Cost.mem]
    omega

theorem flushThen_noPanic (E : Env) (site : String) (op : Nat) (buf : Bytes) (n : Nat)
    (stack : List Operand) (res : Dict) (c : Cost) (hn : n ≤ buf.length) :
    (flushThen E site op buf n stack res c).noPanic := by
  unfold flushThen
  have hf := flush_noPanic E op stack res c
  split
  · rename_i s hs
    rw [hs] at hf
    exact hf
  · rw [sliceFrom_ok _ _ _ hn, ok_bind]
    cases hfr : flush E op stack res c with
    | ok a => exact True.intro
    | err e => exact True.intro
    | panic s => rw [hfr] at hf; exact hf.elim

theorem flushThen_cost (E : Env) (site : String) (op : Nat) (buf : Bytes) (n : Nat)
    (stack : List Operand) (res : Dict) (c : Cost) (buf' : Bytes) (stack' : List Operand)
    (res' : Dict) (c' : Cost)
    (h : flushThen E site op buf n stack res c = .ok ((buf', stack', res'), c')) :
    n ≤ buf.length ∧ buf'.length + n = buf.length ∧ stack' = [] ∧
      c'.steps ≤ c.steps + stack.length ∧ c'.alloc ≤ c.alloc + stack.length + 1 := by
  unfold flushThen at h
  split at h
  · cases h
  · obtain ⟨b2, hb, h⟩ := bind_eq_ok h
    obtain ⟨r, hr, h⟩ := bind_eq_ok h
    obtain ⟨res2, c2⟩ := r
    cases h
    have hc := flush_cost E op stack res _ c _ hr
    unfold sliceFrom at hb
    split at hb
    · cases hb
      rw [List.length_drop]
      exact ⟨by assumption, by omega, rfl, hc.1, hc.2⟩
    · cases hb

/-! ## the fuel of the two loops is never exhausted -/

theorem floatLoop_noFuel : ∀ (fuel : Nat) (buf : Bytes) (s : List Nat) (first : Bool) (next : Nat)
    (c : Cost), 2 * buf.length + (if first then 1 else 2) ≤ fuel →
      floatLoop fuel buf s first next c ≠ .err "fuel"
  | 0, _, _, first, _, _, h => by cases first <;> simp at h
  | fuel+1, buf, s, first, next, c, h => by
    unfold floatLoop
    cases first
    · simp only [Bool.false_eq_true, if_false] at h ⊢
      change (Outcome.ok _ >>= _) ≠ _
      rw [ok_bind]
      dsimp only
      repeat' split
      all_goals first
        | (apply floatLoop_noFuel; simp only [if_true]; omega)
        | (intro hh; first | (injection hh with hh; revert hh; decide) | cases hh)
    · simp only [if_true] at h ⊢
      by_cases h0 : buf.length = 0
      · rw [if_pos h0]; intro hh; injection hh with hh; revert hh; decide
      · rw [if_neg h0]
        rw [idx_ok _ buf 0 (by omega), ok_bind, sliceFrom_ok _ buf 1 (by omega), ok_bind]
        change (Outcome.ok _ >>= _) ≠ _
        rw [ok_bind]
        dsimp only
        repeat' split
        all_goals first
          | (apply floatLoop_noFuel
             simp only [List.length_drop, Bool.false_eq_true, if_false]; omega)
          | (intro hh; first | (injection hh with hh; revert hh; decide) | cases hh)


theorem decodeFloat_noFuel (E : Env) (buf : Bytes) : decodeFloat E buf ≠ .err "fuel" := by
  unfold decodeFloat
  have hnf := floatLoop_noFuel (2 * buf.length + 1) buf [] true 0 Cost.zero (by simp only [if_true]; omega)
  cases hfl : floatLoop (2 * buf.length + 1) buf [] true 0 Cost.zero with
  | ok r =>
    obtain ⟨⟨rest, s⟩, c⟩ := r
    rw [ok_bind]
    dsimp only
    split
    · intro hh; injection hh with hh; revert hh; decide
    · intro hh; cases hh
  | err e =>
    intro hh
    rw [hfl] at hnf
    injection hh with hh
    subst hh
    exact hnf rfl
  | panic s => intro hh; cases hh

theorem flushLoop_err (E : Env) : ∀ (n i : Nat) (stack : List Operand) (c : Cost) (e : String),
    flushLoop E n i stack c = .err e → e = "other"
  | 0, _, _, _, _, h => by unfold flushLoop at h; cases h
  | n+1, i, stack, c, e, h => by
    unfold flushLoop at h
    cases hx : idx "dict.go:48#stack[i]" stack i with
    | ok x =>
      rw [hx, ok_bind] at h
      dsimp only at h
      split at h
      · cases h; rfl
      · split at h
        · cases h
        · split at h
          · cases h; rfl
          · exact flushLoop_err E n _ _ _ e h
    | err e2 => unfold idx at hx; split at hx <;> cases hx
    | panic s => rw [hx] at h; cases h

theorem flush_err (E : Env) (op : Nat) (stack : List Operand) (res : Dict) (c : Cost) (e : String)
    (h : flush E op stack res c = .err e) : e = "other" := by
  unfold flush at h
  split at h
  · dsimp only at h
    generalize hl : (if op = Cff.opROS ∧ stack.length > 2 then 2 else stack.length) = l at h
    cases hfl : flushLoop E l 0 stack c with
    | ok r => rw [hfl] at h; cases h
    | err e2 => rw [hfl] at h; cases h; exact flushLoop_err E _ _ _ _ _ hfl
    | panic s => rw [hfl] at h; cases h
  · cases h

theorem flushThen_err (E : Env) (site : String) (op : Nat) (buf : Bytes) (n : Nat)
    (stack : List Operand) (res : Dict) (c : Cost) (e : String)
    (h : flushThen E site op buf n stack res c = .err e) : e = "other" := by
  unfold flushThen at h
  cases hf : flush E op stack res c with
  | ok r =>
    rw [hf] at h
    dsimp only at h
    unfold sliceFrom at h
    split at h <;> cases h
  | err e2 =>
    rw [hf] at h
    dsimp only at h
    unfold sliceFrom at h
    split at h
    · cases h; exact flush_err E op stack res c _ hf
    · cases h
  | panic s => rw [hf] at h; cases h

/-! ## one token -/

/-- what one iteration guarantees (`c` = cost after charging the iteration): no panic; at least
one byte consumed; with the potentials `3·len(buf) + len(stack)` (steps) and
`9·len(buf) + len(stack)` (alloc) the iteration pays for itself; the error is never the model's own "fuel" -/
def IterSpec (buf : Bytes) (stack : List Operand) (c : Cost) :
    Outcome ((Bytes × List Operand × Dict) × Cost) → Prop
  | .ok ((buf', stack', _), c') =>
    buf'.length + 1 ≤ buf.length ∧
    c'.steps + 3 * buf'.length + stack'.length + 1 ≤ c.steps + 3 * buf.length + stack.length ∧
    c'.alloc + 9 * buf'.length + stack'.length ≤ c.alloc + 9 * buf.length + stack.length
  | .err e => e ≠ "fuel"
  | .panic _ => False

theorem spec_push (buf : Bytes) (stack : List Operand) (c : Cost) (k : Nat) (x : Operand) (res : Dict)
    (h1 : 1 ≤ k) (h2 : k ≤ buf.length) :
    IterSpec buf stack c (.ok ((buf.drop k, stack ++ [x], res), c.mem 1)) := by
  simp only [IterSpec, List.length_drop, List.length_append, List.length_cons, List.length_nil,
    Cost.mem]
  omega

theorem spec_flushThen (E : Env) (site : String) (op : Nat) (buf : Bytes) (n : Nat)
    (stack : List Operand) (res : Dict) (c : Cost) (h1 : 1 ≤ n) (h2 : n ≤ buf.length) :
    IterSpec buf stack c (flushThen E site op buf n stack res c) := by
  have hnp := flushThen_noPanic E site op buf n stack res c h2
  cases hft : flushThen E site op buf n stack res c with
  | ok r =>
    obtain ⟨⟨buf', stack', res'⟩, c'⟩ := r
    have := flushThen_cost E site op buf n stack res c buf' stack' res' c' hft
    obtain ⟨_, hl, hs, h3, h4⟩ := this
    subst hs
    simp only [IterSpec, List.length_nil]
    omega
  | err e =>
    have := flushThen_err E site op buf n stack res c e hft
    subst this
    show "other" ≠ "fuel"
    decide
  | panic s => rw [hft] at hnp; exact hnp

theorem spec_escape (E : Env) (buf : Bytes) (stack : List Operand) (res : Dict) (c : Cost) :
    IterSpec buf stack c (iterEscape E buf stack res c) := by
  unfold iterEscape
  split
  · show "invalid" ≠ "fuel"
    decide
  · rw [idx_ok _ buf 1 (by omega), ok_bind]
    exact spec_flushThen _ _ _ _ _ _ _ _ (by omega) (by omega)

theorem spec_int16 (buf : Bytes) (stack : List Operand) (res : Dict) (c : Cost) :
    IterSpec buf stack c (iterInt16 buf stack res c) := by
  unfold iterInt16
  split
  · show "invalid" ≠ "fuel"
    decide
  · rw [idx_ok _ buf 1 (by omega), ok_bind, idx_ok _ buf 2 (by omega), ok_bind,
      sliceFrom_ok _ buf 3 (by omega), ok_bind]
    exact spec_push _ _ _ _ _ _ (by omega) (by omega)

theorem spec_int32 (buf : Bytes) (stack : List Operand) (res : Dict) (c : Cost) :
    IterSpec buf stack c (iterInt32 buf stack res c) := by
  unfold iterInt32
  split
  · show "invalid" ≠ "fuel"
    decide
  · rw [idx_ok _ buf 1 (by omega), ok_bind, idx_ok _ buf 2 (by omega), ok_bind,
      idx_ok _ buf 3 (by omega), ok_bind, idx_ok _ buf 4 (by omega), ok_bind,
      sliceFrom_ok _ buf 5 (by omega), ok_bind]
    exact spec_push _ _ _ _ _ _ (by omega) (by omega)

theorem spec_byte (v : Nat) (buf : Bytes) (stack : List Operand) (res : Dict) (c : Cost)
    (h : 0 < buf.length) : IterSpec buf stack c (iterByte v buf stack res c) := by
  unfold iterByte
  rw [sliceFrom_ok _ buf 1 (by omega), ok_bind]
  exact spec_push _ _ _ _ _ _ (by omega) (by omega)

theorem spec_pos (v : Nat) (buf : Bytes) (stack : List Operand) (res : Dict) (c : Cost) :
    IterSpec buf stack c (iterPos v buf stack res c) := by
  unfold iterPos
  split
  · show "invalid" ≠ "fuel"
    decide
  · rw [idx_ok _ buf 1 (by omega), ok_bind, sliceFrom_ok _ buf 2 (by omega), ok_bind]
    exact spec_push _ _ _ _ _ _ (by omega) (by omega)

theorem spec_neg (v : Nat) (buf : Bytes) (stack : List Operand) (res : Dict) (c : Cost) :
    IterSpec buf stack c (iterNeg v buf stack res c) := by
  unfold iterNeg
  split
  · show "invalid" ≠ "fuel"
    decide
  · rw [idx_ok _ buf 1 (by omega), ok_bind, sliceFrom_ok _ buf 2 (by omega), ok_bind]
    exact spec_push _ _ _ _ _ _ (by omega) (by omega)

theorem spec_real (E : Env) (buf : Bytes) (stack : List Operand) (res : Dict) (c : Cost)
    (h : 0 < buf.length) : IterSpec buf stack c (iterReal E buf stack res c) := by
  unfold iterReal
  rw [sliceFrom_ok _ buf 1 (by omega), ok_bind]
  have hnp := decodeFloat_noPanic E (buf.drop 1)
  cases hdf : decodeFloat E (buf.drop 1) with
  | ok r =>
    obtain ⟨⟨rest, s, v⟩, cf⟩ := r
    have := decodeFloat_cost' E _ rest s v cf hdf
    rw [List.length_drop] at this
    rw [ok_bind]
    simp only [IterSpec, List.length_append, List.length_cons, List.length_nil, Cost.mem, addCost]
    omega
  | err e =>
    have := decodeFloat_noFuel E (buf.drop 1)
    rw [hdf] at this
    show e ≠ "fuel"
    intro hh
    subst hh
    exact this rfl
  | panic s => rw [hdf] at hnp; exact hnp

theorem spec_switch (E : Env) (v : Nat) (buf : Bytes) (stack : List Operand) (res : Dict) (c : Cost)
    (h : 0 < buf.length) : IterSpec buf stack c (iterSwitch E v buf stack res c) := by
  unfold iterSwitch
  repeat' split
  all_goals first
    | (show "invalid" ≠ "fuel"; decide)
    | exact spec_escape _ _ _ _ _
    | exact spec_flushThen _ _ _ _ _ _ _ _ (by omega) (by omega)
    | exact spec_int16 _ _ _ _
    | exact spec_int32 _ _ _ _
    | exact spec_real _ _ _ _ _ h
    | exact spec_byte _ _ _ _ _ h
    | exact spec_pos _ _ _ _ _
    | exact spec_neg _ _ _ _ _

theorem spec_iter (E : Env) (buf : Bytes) (stack : List Operand) (res : Dict) (c : Cost)
    (h : 0 < buf.length) : IterSpec buf stack c.tick (dictIter E buf stack res c) := by
  unfold dictIter
  rw [idx_ok _ buf 0 h, ok_bind]
  exact spec_switch _ _ _ _ _ _ h

theorem dictIter_noPanic (E : Env) (buf : Bytes) (stack : List Operand) (res : Dict) (c : Cost)
    (h : 0 < buf.length) : (dictIter E buf stack res c).noPanic := by
  have := spec_iter E buf stack res c h
  cases hd : dictIter E buf stack res c with
  | ok r => exact True.intro
  | err e => exact True.intro
  | panic s => rw [hd] at this; exact this

/-! ## `decodeDict` -/

theorem dictLoop_noPanic (E : Env) : ∀ (fuel : Nat) (buf : Bytes) (stack : List Operand) (res : Dict)
    (c : Cost), (dictLoop E fuel buf stack res c).noPanic
  | 0, buf, stack, res, c => by
    unfold dictLoop
    repeat' split
    all_goals exact True.intro
  | fuel+1, buf, stack, res, c => by
    unfold dictLoop
    split
    · split <;> exact True.intro
    · refine bind_noPanic (dictIter_noPanic E buf stack res c (by omega)) (fun r _ => ?_)
      exact dictLoop_noPanic E fuel _ _ _ _

/-- `decodeDict` never panics: for ALL byte strings, any string table, any number parser -/
theorem decodeDict_noPanic (E : Env) (buf : Bytes) : (decodeDict E buf).noPanic :=
  dictLoop_noPanic E _ _ _ _ _

theorem dictLoop_cost (E : Env) : ∀ (fuel : Nat) (buf : Bytes) (stack : List Operand) (res : Dict)
    (c : Cost) (d : Dict) (c' : Cost), dictLoop E fuel buf stack res c = .ok (d, c') →
      c'.steps ≤ c.steps + 3 * buf.length + stack.length ∧
      c'.alloc ≤ c.alloc + 9 * buf.length + stack.length
  | 0, buf, stack, res, c, d, c', h => by
    unfold dictLoop at h
    repeat' split at h
    all_goals cases h
    omega
  | fuel+1, buf, stack, res, c, d, c', h => by
    unfold dictLoop at h
    split at h
    · split at h
      · cases h
      · cases h; omega
    · obtain ⟨r, hr, h⟩ := bind_eq_ok h
      obtain ⟨⟨buf', stack', res'⟩, c1⟩ := r
      have hs := spec_iter E buf stack res c (by omega)
      rw [hr] at hs
      simp only [IterSpec, Cost.tick] at hs
      have ih := dictLoop_cost E fuel buf' stack' res' c1 d c' h
      omega

/-- `decodeDict` is linear in the input: at most 3 steps and 9 allocated elements per byte (the
operand stack has no limit, but every operand costs at least one byte) -/
theorem decodeDict_cost (E : Env) (buf : Bytes) (d : Dict) (c : Cost)
    (h : decodeDict E buf = .ok (d, c)) :
    c.steps ≤ 3 * buf.length ∧ c.alloc ≤ 9 * buf.length + 1 := by
  have := dictLoop_cost E _ _ _ _ _ _ _ h
  simp only [Cost.zero, Cost.mem, List.length_nil] at this
  omega

/-! ## the fuel of the DICT loop is never exhausted

so the error outcomes of the model are errors of the Go code, and no panic site is hidden behind
an artificial stop (for `decodeFloat`: `decodeFloat_noFuel` above) -/

theorem dictLoop_noFuel (E : Env) : ∀ (fuel : Nat) (buf : Bytes) (stack : List Operand) (res : Dict)
    (c : Cost), buf.length ≤ fuel → dictLoop E fuel buf stack res c ≠ .err "fuel"
  | 0, buf, stack, res, c, h => by
    unfold dictLoop
    rw [if_pos (by omega)]
    split
    · intro hh; injection hh with hh; revert hh; decide
    · intro hh; cases hh
  | fuel+1, buf, stack, res, c, h => by
    unfold dictLoop
    split
    · split
      · intro hh; injection hh with hh; revert hh; decide
      · intro hh; cases hh
    · have hs := spec_iter E buf stack res c (by omega)
      cases hdi : dictIter E buf stack res c with
      | ok r =>
        obtain ⟨⟨buf', stack', res'⟩, c'⟩ := r
        rw [hdi] at hs
        simp only [IterSpec] at hs
        rw [ok_bind]
        exact dictLoop_noFuel E fuel buf' stack' res' c' (by omega)
      | err e =>
        rw [hdi] at hs
        intro hh
        injection hh with hh
        exact hs hh
      | panic s => intro hh; cases hh

theorem decodeDict_noFuel (E : Env) (buf : Bytes) : decodeDict E buf ≠ .err "fuel" :=
  dictLoop_noFuel E _ _ _ _ _ (Nat.le_refl _)

/-! ## bridge to the value-level model of C13 (`SfntV.Cff`, Model/CffDict.lean) -/

/-- the `switch nibble` of dict.go:215-239 (the part of `floatLoop` after the nibble is fetched) -/
def nibTail (fuel nibble : Nat) (buf : Bytes) (s : List Nat) (first : Bool) (next : Nat) (c : Cost) :
    Outcome ((Bytes × List Nat) × Cost) :=
  let c := c.tick
  if nibble = 10 then floatLoop fuel buf (s ++ [10]) first next (c.mem 1)
  else if nibble = 11 then floatLoop fuel buf (s ++ [11]) first next (c.mem 1)
  else if nibble = 12 then floatLoop fuel buf (s ++ [11, 14]) first next (c.mem 2)
  else if nibble = 13 then .err "other"
  else if nibble = 14 then floatLoop fuel buf (s ++ [14]) first next (c.mem 1)
  else if nibble = 15 then .ok ((buf, s), c.mem s.length)
  else floatLoop fuel buf (s ++ [nibble]) first next (c.mem 1)

theorem floatLoop_first (fuel : Nat) (b : UInt8) (r : Bytes) (s : List Nat) (next : Nat) (c : Cost) :
    floatLoop (fuel + 1) (b :: r) s true next c
      = nibTail fuel (b.toNat / 16) r s false (b.toNat % 16) c := by
  rw [floatLoop]
  simp only [if_true, List.length_cons, Nat.add_one_ne_zero, if_false]
  rfl

theorem floatLoop_second (fuel : Nat) (buf : Bytes) (s : List Nat) (next : Nat) (c : Cost) :
    floatLoop (fuel + 1) buf s false next c = nibTail fuel next buf s true next c := by
  rw [floatLoop]
  rfl

theorem nibTail_13 (fuel : Nat) (buf : Bytes) (s : List Nat) (first : Bool) (next : Nat) (c : Cost) :
    nibTail fuel 13 buf s first next c = .err "other" := rfl

theorem nibTail_15 (fuel : Nat) (buf : Bytes) (s : List Nat) (first : Bool) (next : Nat) (c : Cost) :
    nibTail fuel 15 buf s first next c = .ok ((buf, s), c.tick.mem s.length) := rfl

theorem nibTail_other (fuel n : Nat) (buf : Bytes) (s : List Nat) (first : Bool) (next : Nat)
    (c : Cost) (h13 : n ≠ 13) (h15 : n ≠ 15) :
    nibTail fuel n buf s first next c
      = floatLoop fuel buf (s ++ Cff.nibChars n) first next (c.tick.mem (Cff.nibChars n).length) := by
  unfold nibTail Cff.nibChars
  by_cases h10 : n = 10
  · subst h10; rfl
  by_cases h11 : n = 11
  · subst h11; rfl
  by_cases h12 : n = 12
  · subst h12; rfl
  by_cases h14 : n = 14
  · subst h14; rfl
  simp only [if_neg h10, if_neg h11, if_neg h12, if_neg h13, if_neg h14, if_neg h15,
    List.length_cons, List.length_nil]

/-- the nibble loop computes `Cff.floatNibbles`, refuses the reserved nibble `d`, and hands
the characters `ns.flatMap nibChars` to the number parser -/
theorem floatLoop_nibbles : ∀ (buf : Bytes) (fuel : Nat) (s : List Nat) (next : Nat) (c : Cost),
    2 * buf.length + 1 ≤ fuel →
    match Cff.floatNibbles buf with
    | none => floatLoop fuel buf s true next c = .err "other"
    | some (ns, rest) =>
      if ns.any (· = 13) then floatLoop fuel buf s true next c = .err "other"
      else ∃ c', floatLoop fuel buf s true next c = .ok ((rest, s ++ ns.flatMap Cff.nibChars), c')
  | [], fuel, s, next, c, h => by
    obtain ⟨f, rfl⟩ : ∃ f, fuel = f + 1 := ⟨fuel - 1, by omega⟩
    simp only [Cff.floatNibbles]
    rw [floatLoop]
    rfl
  | b :: r, fuel, s, next, c, h => by
    obtain ⟨f, rfl⟩ : ∃ f, fuel = f + 2 := ⟨fuel - 2, by simp only [List.length_cons] at h; omega⟩
    have hf : 2 * r.length + 1 ≤ f := by simp only [List.length_cons] at h; omega
    rw [floatLoop_first]
    simp only [Cff.floatNibbles]
    by_cases hh15 : b.toNat / 16 = 15
    · rw [if_pos hh15, hh15, nibTail_15]
      simp only [List.any_nil, Bool.false_eq_true, if_false, List.flatMap_nil, List.append_nil]
      exact ⟨_, rfl⟩
    rw [if_neg hh15]
    by_cases hh13 : b.toNat / 16 = 13
    · rw [hh13, nibTail_13]
      by_cases hl15 : b.toNat % 16 = 15
      · simp [hl15]
      · cases hfn : Cff.floatNibbles r with
        | none => simp [hl15]
        | some p => simp [hl15]
    rw [nibTail_other _ _ _ _ _ _ _ hh13 hh15, floatLoop_second]
    by_cases hl15 : b.toNat % 16 = 15
    · rw [if_pos hl15, hl15, nibTail_15]
      simp only [List.any_cons, List.any_nil, Bool.or_false, decide_eq_true_eq, if_neg hh13,
        List.flatMap_cons, List.flatMap_nil, List.append_nil]
      exact ⟨_, rfl⟩
    rw [if_neg hl15]
    by_cases hl13 : b.toNat % 16 = 13
    · rw [hl13, nibTail_13]
      cases hfn : Cff.floatNibbles r with
      | none => simp
      | some p => simp
    rw [nibTail_other _ _ _ _ _ _ _ hl13 hl15]
    have ih := floatLoop_nibbles r f (s ++ Cff.nibChars (b.toNat / 16) ++ Cff.nibChars (b.toNat % 16))
      (b.toNat % 16) ((c.tick.mem (Cff.nibChars (b.toNat / 16)).length).tick.mem
        (Cff.nibChars (b.toNat % 16)).length) hf
    cases hfn : Cff.floatNibbles r with
    | none => rw [hfn] at ih; exact ih
    | some p =>
      obtain ⟨ns, rest⟩ := p
      rw [hfn] at ih
      simp only [List.any_cons, hh13, hl13, decide_false, Bool.false_or,
        List.flatMap_cons] at ih ⊢
      simp only [List.append_assoc] at ih ⊢
      exact ih

theorem clampValue_cases (v : Bool × Nat × Int) :
    (∃ w, Cff.clampValue v = .ok w) ∨ Cff.clampValue v = .err "other" := by
  obtain ⟨neg, m, e⟩ := v
  unfold Cff.clampValue
  dsimp only
  repeat' split
  all_goals first | exact Or.inl ⟨_, rfl⟩ | exact Or.inr rfl

/-- C13's number parser yields a value or the error class "other", never a panic -/
theorem floatValue_cases (s : List Nat) :
    (∃ w, Cff.floatValue s = .ok w) ∨ Cff.floatValue s = .err "other" := by
  unfold Cff.floatValue
  split
  · exact Or.inr rfl
  · exact clampValue_cases _

/-- forget the cost and the decimal string -/
def eraseFloat : Outcome ((Bytes × List Nat × Real) × Cost) → Outcome (Cff.Operand × Bytes)
  | .ok ((rest, _, v), _) => .ok (.real v.1 v.2.1 v.2.2, rest)
  | .err e => .err e
  | .panic s => .panic s

/-- bridging lemma: with C13's number parser for the external `ParseFloat`, the checked model of
`decodeFloat` is C13's `Cff.decodeReal` on every input -/
theorem decodeFloat_erase (E : Env) (hfv : E.fv = fvC13) (buf : Bytes) :
    eraseFloat (decodeFloat E buf) = Cff.decodeReal buf := by
  unfold decodeFloat Cff.decodeReal
  have hl := floatLoop_nibbles buf (2 * buf.length + 1) [] 0 Cost.zero (Nat.le_refl _)
  cases hfn : Cff.floatNibbles buf with
  | none =>
    rw [hfn] at hl
    rw [hl]
    rfl
  | some p =>
    obtain ⟨ns, rest⟩ := p
    rw [hfn] at hl
    dsimp only at hl ⊢
    by_cases hany : (ns.any (· = 13)) = true
    · rw [if_pos hany] at hl ⊢
      rw [hl]
      rfl
    · rw [if_neg hany] at hl ⊢
      obtain ⟨c', hc'⟩ := hl
      rw [hc', ok_bind, List.nil_append]
      dsimp only
      rw [hfv]
      unfold fvC13
      rcases floatValue_cases (ns.flatMap Cff.nibChars) with ⟨w, hw⟩ | hw
      · rw [hw]
        obtain ⟨neg, m, e⟩ := w
        rfl
      · rw [hw]
        rfl

/-- forget the cost -/
def eraseCost : Outcome (α × Cost) → Outcome α
  | .ok (a, _) => .ok a
  | .err e => .err e
  | .panic s => .panic s

/-- C13's conversion of one operand of a string-valued operator (the `conv` of `Cff.flushArgs`) -/
def convC13 (std custom : Array String) (o : Operand) : Outcome Operand :=
  let idx : Option Int := match o with
    | .int v => some v
    | .real neg m e => Cff.realAsIndex neg m e
    | .str _ => none
  match idx with
  | none => .err "other"
  | some i => match Cff.stringsGet std custom i with
    | some s => .ok (.str s)
    | none => .err "other"

theorem idx_mid (site : String) (pre : List α) (x : α) (post : List α) :
    idx site (pre ++ x :: post) pre.length = .ok x := by
  unfold idx
  simp

theorem flushLoop_go (std custom : Array String) : ∀ (mid pre post : List Operand) (c : Cost),
    eraseCost (flushLoop (envC13 std custom) mid.length pre.length (pre ++ (mid ++ post)) c)
      = match Cff.flushArgs.go (convC13 std custom) mid with
        | .ok r => .ok (pre ++ (r ++ post))
        | e => e
  | [], pre, post, c => by
    simp only [List.length_nil, List.nil_append, flushLoop, Cff.flushArgs.go, eraseCost]
  | x :: xs, pre, post, c => by
    simp only [List.length_cons, List.cons_append]
    rw [flushLoop, idx_mid, ok_bind, Cff.flushArgs.go]
    have hlen : ¬ pre.length ≥ (pre ++ x :: (xs ++ post)).length := by
      simp only [List.length_append, List.length_cons]; omega
    have hset : ∀ v, (pre ++ x :: (xs ++ post)).set pre.length v = (pre ++ [v]) ++ (xs ++ post) := by
      intro v; simp
    have ih := fun v c => flushLoop_go std custom xs (pre ++ [v]) post c
    simp only [List.length_append, List.length_cons, List.length_nil, Nat.zero_add] at ih
    cases x with
    | int v =>
      simp only [convC13, envC13, if_neg hlen]
      cases hg : Cff.stringsGet std custom v with
      | none => rfl
      | some str =>
        simp only [hset]
        rw [show envC13 std custom = { fv := fvC13, asIdx := Cff.realAsIndex, get := Cff.stringsGet std custom } from rfl] at ih
        rw [ih]
        cases Cff.flushArgs.go (convC13 std custom) xs <;> simp
    | real neg m e =>
      simp only [convC13, envC13, if_neg hlen]
      cases ha : Cff.realAsIndex neg m e with
      | none => rfl
      | some v =>
        dsimp only
        cases hg : Cff.stringsGet std custom v with
        | none => rfl
        | some str =>
          simp only [hset]
          rw [show envC13 std custom = { fv := fvC13, asIdx := Cff.realAsIndex, get := Cff.stringsGet std custom } from rfl] at ih
          rw [ih]
          cases Cff.flushArgs.go (convC13 std custom) xs <;> simp
    | str s => rfl

theorem flushArgs_eq (std custom : Array String) (op : Nat) (stack : List Operand) :
    Cff.flushArgs std custom op stack =
      if Cff.isStringOp op then
        match Cff.flushArgs.go (convC13 std custom)
            (stack.take (if op = Cff.opROS ∧ stack.length > 2 then 2 else stack.length)) with
        | .ok r => .ok (r ++ stack.drop (if op = Cff.opROS ∧ stack.length > 2 then 2 else stack.length))
        | e => e
      else .ok stack := rfl

/-- what C13 does with an operator: convert, store -/
def storeC13 (std custom : Array String) (op : Nat) (stack : List Operand) (res : Dict) : Outcome Dict :=
  match Cff.flushArgs std custom op stack with
  | .ok args => .ok (Cff.dictSet res op args)
  | .err e => .err e
  | .panic s => .panic s

theorem flush_erase (std custom : Array String) (op : Nat) (stack : List Operand) (res : Dict) (c : Cost) :
    eraseCost (flush (envC13 std custom) op stack res c) = storeC13 std custom op stack res := by
  unfold flush storeC13
  rw [flushArgs_eq]
  by_cases hs : Cff.isStringOp op = true
  · simp only [if_pos hs]
    generalize hl : (if op = Cff.opROS ∧ stack.length > 2 then 2 else stack.length) = l
    have hle : l ≤ stack.length := by subst hl; split <;> omega
    have := flushLoop_go std custom (stack.take l) [] (stack.drop l) c
    simp only [List.length_take, Nat.min_eq_left hle, List.length_nil, List.nil_append,
      List.take_append_drop] at this
    cases hfl : flushLoop (envC13 std custom) l 0 stack c with
    | ok r =>
      obtain ⟨st, c1⟩ := r
      rw [hfl] at this
      cases hgo : Cff.flushArgs.go (convC13 std custom) (stack.take l) with
      | ok r2 => rw [hgo] at this; simp only [eraseCost] at this; cases this; rfl
      | err e => rw [hgo] at this; cases this
      | panic s => rw [hgo] at this; cases this
    | err e =>
      rw [hfl] at this
      cases hgo : Cff.flushArgs.go (convC13 std custom) (stack.take l) with
      | ok r2 => rw [hgo] at this; cases this
      | err e2 => rw [hgo] at this; simp only [eraseCost] at this; cases this; rfl
      | panic s => rw [hgo] at this; cases this
    | panic s =>
      rw [hfl] at this
      cases hgo : Cff.flushArgs.go (convC13 std custom) (stack.take l) with
      | ok r2 => rw [hgo] at this; cases this
      | err e2 => rw [hgo] at this; cases this
      | panic s2 => rw [hgo] at this; simp only [eraseCost] at this; cases this; rfl
  · simp only [if_neg hs]
    rfl


/-- one iteration of C13's loop (`Cff.decodeDictAux`): token, then push or convert-and-store -/
def stepC13 (std custom : Array String) (buf : Bytes) (stack : List Operand) (res : Dict) :
    Outcome (Bytes × List Operand × Dict) :=
  match Cff.dictStep buf with
  | .err e => .err e
  | .panic s => .panic s
  | .ok (.operand o, r) => .ok (r, stack ++ [o], res)
  | .ok (.op code, r) =>
    match Cff.flushArgs std custom code stack with
    | .ok args => .ok (r, [], Cff.dictSet res code args)
    | .err e => .err e
    | .panic s => .panic s

theorem flushThen_erase (std custom : Array String) (site : String) (op : Nat) (buf : Bytes) (n : Nat)
    (stack : List Operand) (res : Dict) (c : Cost) (hn : n ≤ buf.length) :
    eraseCost (flushThen (envC13 std custom) site op buf n stack res c)
      = match Cff.flushArgs std custom op stack with
        | .ok args => .ok (buf.drop n, [], Cff.dictSet res op args)
        | .err e => .err e
        | .panic s => .panic s := by
  have hfe := flush_erase std custom op stack res c
  unfold storeC13 at hfe
  unfold flushThen
  rw [sliceFrom_ok _ _ _ hn]
  cases hf : flush (envC13 std custom) op stack res c with
  | ok r =>
    obtain ⟨d, c1⟩ := r
    rw [hf] at hfe
    cases hfa : Cff.flushArgs std custom op stack with
    | ok a => rw [hfa] at hfe; simp only [eraseCost] at hfe; cases hfe; rfl
    | err e => rw [hfa] at hfe; cases hfe
    | panic s => rw [hfa] at hfe; cases hfe
  | err e =>
    rw [hf] at hfe
    cases hfa : Cff.flushArgs std custom op stack with
    | ok a => rw [hfa] at hfe; cases hfe
    | err e2 => rw [hfa] at hfe; simp only [eraseCost] at hfe; cases hfe; rfl
    | panic s => rw [hfa] at hfe; cases hfe
  | panic s =>
    rw [hf] at hfe
    cases hfa : Cff.flushArgs std custom op stack with
    | ok a => rw [hfa] at hfe; cases hfe
    | err e2 => rw [hfa] at hfe; cases hfe
    | panic s2 => rw [hfa] at hfe; simp only [eraseCost] at hfe; cases hfe; rfl

theorem iter_erase (std custom : Array String) (b0 : UInt8) (rest : Bytes) (stack : List Operand)
    (res : Dict) (c : Cost) :
    eraseCost (dictIter (envC13 std custom) (b0 :: rest) stack res c)
      = stepC13 std custom (b0 :: rest) stack res := by
  unfold dictIter
  rw [show idx "dict.go:72#buf[0]" (b0 :: rest) 0 = .ok b0 from rfl, ok_bind]
  unfold iterSwitch stepC13 Cff.dictStep
  dsimp only
  by_cases h12 : b0.toNat = 12
  · simp only [if_pos h12]
    unfold iterEscape
    cases rest with
    | nil => rfl
    | cons b1 r =>
      simp only [List.length_cons]
      rw [if_neg (by omega), show idx "dict.go:79#buf[1]" (b0 :: b1 :: r) 1 = .ok b1 from rfl, ok_bind,
        flushThen_erase _ _ _ _ _ _ _ _ _ (by simp only [List.length_cons]; omega)]
      rfl
  simp only [if_neg h12]
  by_cases h21 : b0.toNat ≤ 21
  · simp only [if_pos h21]
    rw [flushThen_erase _ _ _ _ _ _ _ _ _ (by simp only [List.length_cons]; omega)]
    rfl
  simp only [if_neg h21]
  by_cases h27 : b0.toNat ≤ 27
  · simp only [if_pos h27]; rfl
  simp only [if_neg h27]
  by_cases h28 : b0.toNat = 28
  · simp only [if_pos h28]
    unfold iterInt16
    match rest with
    | [] => rfl
    | [_] => rfl
    | b1 :: b2 :: r => rfl
  simp only [if_neg h28]
  by_cases h29 : b0.toNat = 29
  · simp only [if_pos h29]
    unfold iterInt32
    match rest with
    | [] => rfl
    | [_] => rfl
    | [_, _] => rfl
    | [_, _, _] => rfl
    | b1 :: b2 :: b3 :: b4 :: r => rfl
  simp only [if_neg h29]
  by_cases h30 : b0.toNat = 30
  · simp only [if_pos h30]
    unfold iterReal
    rw [show sliceFrom "dict.go:100#buf[1:]" (b0 :: rest) 1 = .ok rest from rfl, ok_bind]
    have hfe := decodeFloat_erase (envC13 std custom) rfl rest
    cases hdf : decodeFloat (envC13 std custom) rest with
    | ok r =>
      obtain ⟨⟨tmp, s, v⟩, cf⟩ := r
      rw [hdf] at hfe
      simp only [eraseFloat] at hfe
      rw [← hfe]
      rfl
    | err e => rw [hdf] at hfe; simp only [eraseFloat] at hfe; rw [← hfe]; rfl
    | panic s => rw [hdf] at hfe; simp only [eraseFloat] at hfe; rw [← hfe]; rfl
  simp only [if_neg h30]
  by_cases h31 : b0.toNat = 31
  · simp only [if_pos h31]; rfl
  simp only [if_neg h31]
  by_cases h246 : b0.toNat ≤ 246
  · simp only [if_pos h246]; rfl
  simp only [if_neg h246]
  by_cases h250 : b0.toNat ≤ 250
  · simp only [if_pos h250]
    unfold iterPos
    match rest with
    | [] => rfl
    | b1 :: r => rfl
  simp only [if_neg h250]
  by_cases h254 : b0.toNat ≤ 254
  · simp only [if_pos h254]
    unfold iterNeg
    match rest with
    | [] => rfl
    | b1 :: r => rfl
  simp only [if_neg h254]
  rfl


theorem decodeDictAux_step (std custom : Array String) (fuel : Nat) (b : UInt8) (rest : Bytes)
    (stack : List Operand) (res : Dict) :
    Cff.decodeDictAux std custom (fuel + 1) (b :: rest) stack res
      = (stepC13 std custom (b :: rest) stack res >>= fun t =>
          Cff.decodeDictAux std custom fuel t.1 t.2.1 t.2.2) := by
  rw [Cff.decodeDictAux]
  · unfold stepC13
    cases Cff.dictStep (b :: rest) with
    | ok t =>
      obtain ⟨tok, r⟩ := t
      cases tok with
      | operand o => rfl
      | op code =>
        dsimp only
        cases Cff.flushArgs std custom code stack <;> rfl
    | err e => rfl
    | panic s => rfl
  · intro h; cases h

theorem dictLoop_erase (std custom : Array String) : ∀ (fuel : Nat) (buf : Bytes)
    (stack : List Operand) (res : Dict) (c : Cost),
    eraseCost (dictLoop (envC13 std custom) fuel buf stack res c)
      = Cff.decodeDictAux std custom fuel buf stack res
  | 0, [], stack, res, c => by
    rw [dictLoop, Cff.decodeDictAux]
    simp only [List.length_nil, if_true]
    split <;> rfl
  | 0, b :: rest, stack, res, c => by
    rw [dictLoop, Cff.decodeDictAux]
    simp only [List.length_cons, Nat.add_one_ne_zero, if_false]
    rfl
  | fuel+1, [], stack, res, c => by
    rw [dictLoop, Cff.decodeDictAux]
    simp only [List.length_nil, if_true]
    split <;> rfl
  | fuel+1, b :: rest, stack, res, c => by
    rw [dictLoop, decodeDictAux_step]
    simp only [List.length_cons, Nat.add_one_ne_zero, if_false]
    have hie := iter_erase std custom b rest stack res c
    cases hdi : dictIter (envC13 std custom) (b :: rest) stack res c with
    | ok r =>
      obtain ⟨⟨buf', stack', res'⟩, c'⟩ := r
      rw [hdi] at hie
      simp only [eraseCost] at hie
      rw [← hie, ok_bind, ok_bind]
      exact dictLoop_erase std custom fuel buf' stack' res' c'
    | err e => rw [hdi] at hie; simp only [eraseCost] at hie; rw [← hie]; rfl
    | panic s => rw [hdi] at hie; simp only [eraseCost] at hie; rw [← hie]; rfl

/-- bridging lemma: with C13's value-level functions for the three external parameters
(`envC13`), the checked model of `decodeDict` is C13's `Cff.decodeDict` on EVERY input: same
value, same error class, (hence, by `decodeDict_noPanic`, C13's model never panics either) -/
theorem decodeDict_erase (std custom : Array String) (buf : Bytes) :
    eraseCost (decodeDict (envC13 std custom) buf) = Cff.decodeDict std custom buf :=
  dictLoop_erase std custom _ _ _ _ _

/-! ## non-vacuity -/

/-- a Top DICT with a SID (version), an array (FontBBox), a real behind an escape operator
(ItalicAngle -12.5), 3- and 5-byte integers (CharStrings, charset), two-byte integers (Private)
and ROS (two SIDs and an integer); 33 bytes, 29 steps, 34 allocated elements -/
example : decodeDict (envC13 #["a", "b"] #["c"])
    [139, 0,  0x8c, 0x8d, 0x8e, 0x8f, 5,  30, 0xe1, 0x2a, 0x5f, 12, 2,  28, 0x12, 0x34, 17,
     29, 0, 1, 0x86, 0xa0, 15,  247, 0, 251, 0, 18,  141, 140, 139, 12, 30]
    = .ok ([(0, [.str "a"]), (5, [.int 1, .int 2, .int 3, .int 4]), (3074, [.real true 125 (-1)]),
            (17, [.int 4660]), (15, [.int 100000]), (18, [.int 108, .int (-108)]),
            (3102, [.str "c", .str "b", .int 0])], ⟨29, 34⟩) := by decide +kernel

/-- a SID beyond the string table is an error, not a panic -/
example : decodeDict (envC13 #["a", "b"] #["c"]) [142, 0] = .err "other" := by decide +kernel
/-- an operand left on the stack, a truncated operand, a reserved byte -/
example : decodeDict (envC13 #[] #[]) [139] = .err "invalid" := by decide +kernel
example : decodeDict (envC13 #[] #[]) [29, 1, 2, 3] = .err "invalid" := by decide +kernel
example : decodeDict (envC13 #[] #[]) [255] = .err "invalid" := by decide +kernel

set_option synthInstance.maxSize 512 in
/-- `-12.5` followed by one more byte: remaining bytes, decimal string `-12.5`, value -/
example : decodeFloat (envC13 #[] #[]) [0xe1, 0x2a, 0x5f, 7]
    = .ok (([7], [14, 1, 2, 10, 5], (true, 125, -1)), ⟨6, 10⟩) := by decide +kernel
set_option synthInstance.maxSize 512 in
/-- `1e-3` -/
example : decodeFloat (envC13 #[] #[]) [0x1c, 0x3f]
    = .ok (([], [1, 11, 14, 3], (false, 1, -3)), ⟨4, 8⟩) := by decide +kernel
set_option synthInstance.maxSize 512 in
/-- reserved nibble, unterminated real -/
example : decodeFloat (envC13 #[] #[]) [0x1d, 0x3f] = .err "other" := by decide +kernel
set_option synthInstance.maxSize 512 in
example : decodeFloat (envC13 #[] #[]) [0x12] = .err "other" := by decide +kernel

end SfntV.Total.CffDict
