import SfntV.Proofs.DslChain
/-! C19, chained contextual lookups (GSUB 6, GPOS 8): formats 1 and 2, the loop, the lookup level. -/
set_option linter.unusedSimpArgs false
set_option linter.unusedVariables false
namespace SfntV.Dsl

/-- `" | "` read by `required(itemBar)`, then the rest -/
theorem frag_bar_then {β : Type} {k : PM β} {X : List Piece} {y : β} {P : Tok → Prop} {N : Option Nat → Prop}
    (hb : Frag k X y P N) : Frag (required tBar >>= fun _ => k) (barP ++ X) y P N := by
  have h1 : FragU (required tBar) [.tok tBar (ascii [124])] anyTok notBarNext :=
    fragU_required tBar _ notBarNext bar_tokOk (tk_canon tBar _ (by decide))
  have := frag_ws [a1 32] ws_sp (frag_then h1 (frag_ws [a1 32] ws_sp hb)
    (fun nx _ r hr => by simp [nextRune, render, Piece.rbs, a1] at hr; subst hr; decide) (fun _ _ _ => trivial))
  simpa [barP, sp, tk] using this

theorem bar_noGlyph (f : Font) (t : Tok) (h : t.typ = tBar) : glyphItem f t = false := by
  simp [glyphItem, h, tBar, tIdentifier, tString, tInteger, tHyphen]

structure ChRuleOk (f : Font) (r : ChRule) : Prop where
  back : ∀ g ∈ r.back, g < f.numGlyphs
  input : ∀ g ∈ r.input, g < f.numGlyphs
  look : ∀ g ∈ r.look, g < f.numGlyphs
  acts : ∀ a ∈ r.actions, ActOk a

structure Chain1Ok (f : Font) (rules : List (Nat × List ChRule)) : Prop where
  ne : rules ≠ []
  asc : Asc (rules.map (·.1))
  ok : ∀ p ∈ rules, p.1 < f.numGlyphs ∧ p.2 ≠ [] ∧ ∀ r ∈ p.2, ChRuleOk f r

def ch1Pc (f : Font) (i : Nat × ChRule) : List Piece :=
  (newExplainer f).writeGlyphList i.2.back.reverse ++ (barP ++ ((newExplainer f).writeGlyphList (i.1 :: i.2.input) ++
    (barP ++ ((newExplainer f).writeGlyphList i.2.look ++ (arrow ++ (nestedP i.2.actions ++ []))))))

/-- one rule of chained format 1 -/
theorem frag_chain1Rule (f : Font) (hf : FontOk f) (fuel : Nat) (res : List (Nat × List ChRule)) (i : Nat × ChRule)
    (hg : i.1 < f.numGlyphs) (hr : ChRuleOk f i.2) (hfuel : tokCount (ch1Pc f i) + 2 < fuel) :
    Frag (chain1Rule f fuel res) (ch1Pc f i) (appendAt res i.1 i.2) (fun t => isInt t = false) notDigit := by
  unfold ch1Pc at hfuel ⊢
  have hnl := nested_len i.2.actions
  simp only [tokCount_append, barP, arrow, sp, tk, tokCount, List.append_nil] at hfuel
  have hb := frag_glyphList f hf i.2.back.reverse (fun g hg' => hr.back g (by simpa using hg')) fuel (by omega)
  have hi := frag_glyphList f hf (i.1 :: i.2.input) (by
    intro g hg'; simp only [List.mem_cons] at hg'
    rcases hg' with rfl | hg'
    · exact hg
    · exact hr.input g hg') fuel (by omega)
  have hl := frag_glyphList f hf i.2.look hr.look fuel (by omega)
  have hn := frag_nested i.2.actions fuel (by omega) hr.acts
  have hsp : ∀ (X : List Piece) (nx : Option Nat), nextRune (barP ++ X) nx = some 32 := by
    intro X nx; simp [nextRune, render, barP, sp, Piece.rbs, a1]
  unfold chain1Rule
  refine frag_bind hb ?_ (fun nx _ => by rw [hsp]; exact safe_space)
    (fun line t _ => by apply bar_noGlyph; simp [mkToks, barP, sp, tk])
  apply frag_bar_then
  refine frag_bind hi ?_ (fun nx _ => by rw [hsp]; exact safe_space)
    (fun line t _ => by apply bar_noGlyph; simp [mkToks, barP, sp, tk])
  apply frag_bar_then
  refine frag_bind hl ?_ (fun nx _ => by
      have : nextRune (arrow ++ (nestedP i.2.actions ++ [])) nx = some 32 := by
        simp [nextRune, render, arrow, sp, Piece.rbs, a1]
      rw [this]; exact safe_space)
    (fun line t _ => by apply arrow_noGlyph; simp [mkToks, arrow, sp, tk])
  apply frag_arrow_then
  refine frag_bind hn ?_ (fun nx h => by simpa [nextRune, render] using h)
    (fun line t ht => by simpa [mkToks] using ht)
  simp only [List.isEmpty_cons, Bool.false_eq_true, if_false, List.headD_cons, List.drop_succ_cons, List.drop_zero,
    List.reverse_reverse]
  exact frag_weaken (frag_pure _ _) (fun _ h => h) (fun _ _ => trivial)

theorem peekTypeOf_head (X : List Tok) (t : Tok) (h : X.head? = some t) (hb : (t.typ == tBar) = false) :
    peekTypeOf X = some t.typ := by
  cases X with
  | nil => cases h
  | cons t1 X1 =>
    simp at h; subst h
    cases X1 with
    | nil => simp [peekTypeOf, hb]
    | cons t2 X2 => simp [peekTypeOf, hb]

theorem peekTypeOf_two (X : List Tok) (t1 t2 : Tok) (h1 : X.head? = some t1) (h2 : X.tail.head? = some t2)
    (hb : (t1.typ == tBar) = true) : peekTypeOf X = some t2.typ := by
  cases X with
  | nil => cases h1
  | cons a X1 =>
    simp at h1; subst h1
    cases X1 with
    | nil => simp at h2
    | cons b X2 => simp at h2; subst h2; simp [peekTypeOf, hb]

/-- head facts of the text of a chained format 1 rule -/
theorem ch1Pc_head (f : Font) (i : Nat × ChRule) (X : List Piece) :
    ∃ ty, GlyphTyp ty ∧ ∀ line,
      (∃ t, (mkToks line (ch1Pc f i ++ X)).head? = some t ∧ [tEOL].contains t.typ = false ∧
        [tHyphen].contains t.typ = false) ∧
      KwFree (mkToks line (ch1Pc f i ++ X)) ∧
      peekTypeOf (mkToks line (ch1Pc f i ++ X)) = some ty := by
  obtain ⟨ty2, v2, ps2, hw2, hn2⟩ := writeGlyphList_head (newExplainer f) (i.1 :: i.2.input) (by simp)
  cases hb : i.2.back.reverse with
  | nil =>
    refine ⟨ty2, hn2, fun line => ?_⟩
    have e0 : (newExplainer f).writeGlyphList [] = [] := rfl
    have hh1 : (mkToks line (ch1Pc f i ++ X)).head? = some { typ := tBar, val := ascii [124], line := line } := by
      simp [ch1Pc, hb, e0, barP, sp, tk, mkToks]
    have hh2 : (mkToks line (ch1Pc f i ++ X)).tail.head? = some { typ := ty2, val := v2, line := line } := by
      simp [ch1Pc, hb, e0, hw2, barP, sp, tk, mkToks, nextLine, tBar, tEOL]
    exact ⟨⟨_, hh1, by simp [tBar, tEOL], by simp [tBar, tHyphen]⟩, kwFree_head _ _ hh1 (by simp [tBar, tIdentifier]),
      peekTypeOf_two _ _ _ hh1 hh2 (by simp)⟩
  | cons b0 bs =>
    obtain ⟨ty1, v1, ps1, hw1, hn1⟩ := writeGlyphList_head (newExplainer f) (b0 :: bs) (by simp)
    refine ⟨ty1, hn1, fun line => ?_⟩
    obtain ⟨_, _, e3, e4⟩ := typ_glyph_cases ty1 hn1
    have hh : (mkToks line (ch1Pc f i ++ X)).head? = some { typ := ty1, val := v1, line := line } := by
      simp [ch1Pc, hb, hw1, mkToks]
    have e5 : ty1 ≠ tHyphen := by rcases hn1 with h | h | h <;> subst h <;> decide
    have hfree : ∀ kw, kwNoOf kw (mkToks line (ch1Pc f i ++ X)) := by
      intro kw
      have := kwNoOf_glyphs kw (newExplainer f) (b0 :: bs) (by simp)
        ((barP ++ ((newExplainer f).writeGlyphList (i.1 :: i.2.input) ++ (barP ++ ((newExplainer f).writeGlyphList i.2.look ++
          (arrow ++ (nestedP i.2.actions ++ [])))))) ++ X) line
        (fun line' => ⟨{ typ := tBar, val := ascii [124], line := line' }, by simp [mkToks, barP, sp, tk],
          by simp [tBar, tColon]⟩)
      simpa [ch1Pc, hb, List.append_assoc] using this
    exact ⟨⟨_, hh, by simpa using e4, by simpa using e5⟩, ⟨hfree _, hfree _, hfree _⟩, peekTypeOf_head _ _ hh e3⟩

structure Chain1Facts (f : Font) (fuel : Nat) (st : ChSt) (ps : List Piece) (sub : Subtable) : Prop where
  head : ∀ line, (∃ t, (mkToks line ps).head? = some t ∧ [tEOL].contains t.typ = false ∧
    [tHyphen].contains t.typ = false) ∧ KwFree (mkToks line ps)
  ty : ∃ ty, (∀ line, peekTypeOf (mkToks line ps) = some ty) ∧
    Frag (chainBranch f fuel st ty) ps (sub, st) SubStop Safe
  ws : ∃ rest, ps = .ws [a1 32] :: rest

theorem chain1_branch (f : Font) (hf : FontOk f) (fuel : Nat) (st : ChSt)
    (rules : List (Nat × List ChRule)) (h : Chain1Ok f rules)
    (hfuel : tokCount (subP f (.chain1 rules)) + 2 < fuel) :
    Chain1Facts f fuel st (subP f (.chain1 rules)) (.chain1 rules) := by
  obtain ⟨hne, hasc, hok⟩ := h
  let upd : List (Nat × List ChRule) → Nat × ChRule → List (Nat × List ChRule) := fun acc x => appendAt acc x.1 x.2
  have hflatOk : ∀ i ∈ rules.flatMap (fun p => p.2.map fun r => (p.1, r)), i.1 < f.numGlyphs ∧ ChRuleOk f i.2 := by
    intro i hi
    simp only [List.mem_flatMap, List.mem_map] at hi
    obtain ⟨p, hp, r, hr, rfl⟩ := hi
    exact ⟨(hok p hp).1, (hok p hp).2.2 r hr⟩
  have hpieces0 : subP f (.chain1 rules) =
      entries ((rules.flatMap fun p => p.2.map fun r => (p.1, r)).map (ch1Pc f)) := by
    have hfun : (fun x : Nat × ChRule => (newExplainer f).writeGlyphList x.2.back.reverse ++ barP ++
        (newExplainer f).writeGlyphList (x.1 :: x.2.input) ++ barP ++ (newExplainer f).writeGlyphList x.2.look ++ arrow ++
        nestedP x.2.actions) = ch1Pc f := by
      funext x; simp [ch1Pc, List.append_assoc]
    simp only [subP, Explainer.subtable]
    rw [hfun]
  cases hmm : rules.flatMap (fun p => p.2.map fun r => (p.1, r)) with
  | nil =>
    exfalso
    cases rules with
    | nil => exact hne rfl
    | cons p ps =>
      have := (hok p (by simp)).2.1
      cases hp2 : p.2 with
      | nil => exact this hp2
      | cons r rs => simp [hp2] at hmm
  | cons m0 rest =>
    rw [hmm] at hflatOk hpieces0
    have hpieces : subP f (.chain1 rules) =
        .ws [a1 32] :: (ch1Pc f m0 ++ rest.flatMap (fun y => [commaP, sp] ++ ch1Pc f y)) := by
      rw [hpieces0]; simp [entries, sp, List.flatMap_map]
    rw [hpieces] at hfuel ⊢
    have hfuel' : tokCount (ch1Pc f m0 ++ rest.flatMap (fun y => [commaP, sp] ++ ch1Pc f y)) + 2 < fuel := by
      simpa [tokCount] using hfuel
    have hpc_le : ∀ p ∈ m0 :: rest, tokCount (ch1Pc f p) + 2 < fuel := by
      intro p hp
      simp only [List.mem_cons] at hp
      rw [tokCount_append] at hfuel'
      rcases hp with rfl | hp
      · omega
      · have := tokCount_flatMap_mem (fun y => [commaP, sp] ++ ch1Pc f y) rest p hp
        simp only [tokCount_append] at this
        omega
    have hlenr : rest.length < fuel := by
      have := length_le_tokCount_flatMap (fun y => [commaP, sp] ++ ch1Pc f y) rest (by
        intro x _; simp [tokCount_append, commaP, tk, tokCount])
      rw [tokCount_append] at hfuel'
      omega
    obtain ⟨ty, hty, hfacts⟩ := ch1Pc_head f m0 (rest.flatMap (fun y => [commaP, sp] ++ ch1Pc f y))
    refine ⟨fun line => ?_, ⟨ty, fun line => by simpa [mkToks] using (hfacts line).2.2, ?_⟩, ⟨_, rfl⟩⟩
    · obtain ⟨⟨t, h1, h3, h4⟩, hfree, _⟩ := hfacts line
      exact ⟨⟨t, by simpa [mkToks] using h1, h3, h4⟩, by simpa [mkToks] using hfree⟩
    obtain ⟨e1, e2, _, _⟩ := typ_glyph_cases ty hty
    apply frag_ws [a1 32] ws_sp
    unfold chainBranch
    simp only [e1, e2, Bool.false_eq_true, if_false]
    have hres : (m0 :: rest).foldl upd [] = rules := by
      rw [← hmm]
      have := fold_groups rules [] (by simpa using hasc) (fun p hp => (hok p hp).2.1)
      simpa [upd] using this
    have hp : ch1Pc f m0 ++ rest.flatMap (fun y => [commaP, sp] ++ ch1Pc f y) =
        (ch1Pc f m0 ++ rest.flatMap (fun y => [commaP, sp] ++ ch1Pc f y)) ++ [] := by simp
    rw [hp]
    refine frag_bind (frag_pairsLoop (chain1Rule f fuel) (ch1Pc f) upd
      SubStop (fun t => isInt t = false) Safe notDigit
      (fun t ht => ⟨by rcases ht with h | h | h <;> simp [h, tOr, tEOL, tEOF, tComma], substop_notInt t ht⟩)
      (fun t ht => by simp [isInt, ht, tComma, tInteger]) safe_notDigit (fun r hr => by cases hr; decide)
      rest [] m0 fuel hlenr (fun i hi line => ?_) ?_) ?_ (fun nx h => by simpa [nextRune, render] using h)
        (fun line t ht => by simpa [mkToks] using ht)
    · obtain ⟨ty', _, hf'⟩ := ch1Pc_head f i []
      obtain ⟨t, h1, h3, _⟩ := (hf' line).1
      exact ⟨t, by simpa using h1, h3⟩
    · intro pre i post e
      have hi : i ∈ m0 :: rest := by rw [e]; simp
      obtain ⟨hi1, hi2⟩ := hflatOk i hi
      have := frag_chain1Rule f hf fuel (pre.foldl upd []) i hi1 hi2 (hpc_le i hi)
      have hfold : (pre ++ [i]).foldl upd [] = appendAt (pre.foldl upd []) i.1 i.2 := by
        simp [List.foldl_append, upd]
      rw [hfold]
      exact this
    · rw [hres, byGlyph_asc rules hasc]
      exact frag_weaken (frag_pure _ SubStop) (fun _ h => h) (fun _ _ => trivial)

/-! ### format 2 -/

structure Chain2Ok (f : Font) (cov : List Nat) (bcls icls lcls : List (Nat × Nat)) (rules : List (List ChRule)) : Prop where
  covAsc : Asc cov
  covIn : ∀ g ∈ cov, g < f.numGlyphs
  bOk : ClassOk f bcls
  iOk : ClassOk f icls
  lOk : ClassOk f lcls
  len : rules.length = (classGlyphs icls).length + 1
  small : (classGlyphs bcls).length + 2 < 65536 ∧ (classGlyphs icls).length + 2 < 65536 ∧ (classGlyphs lcls).length + 2 < 65536
  ne : flatChRules rules 0 ≠ []
  ok : ∀ rs ∈ rules, ∀ r ∈ rs, (∀ c ∈ r.back, c ≤ (classGlyphs bcls).length) ∧
    (∀ c ∈ r.input, c ≤ (classGlyphs icls).length) ∧ (∀ c ∈ r.look, c ≤ (classGlyphs lcls).length) ∧
    ∀ a ∈ r.actions, ActOk a

/-- the text of one rule of chained format 2 (it starts with a space) -/
def ch2Rt (x : Nat × ChRule) : List Piece :=
  clsListP x.2.back.reverse ++ (barP ++ (clsListP (x.1 :: x.2.input) ++ (barP ++ (clsListP x.2.look ++
    (arrow ++ (nestedP x.2.actions ++ []))))))

theorem ch2Rt_ws (x : Nat × ChRule) : ch2Rt x = .ws [a1 32] :: (ch2Rt x).drop 1 := by
  unfold ch2Rt
  cases hb : x.2.back.reverse with
  | nil => simp [clsListP, barP, sp]
  | cons c cs => simp [clsListP, sp]

def chain2Tail (f : Font) (cov : List Nat) (rules : List (List ChRule)) : List Piece :=
  [tk tSlash [47]] ++ (newExplainer f).writeGlyphList cov ++ [tk tSlash [47]] ++
    commaJoin ((flatChRules rules 0).map ch2Rt)

theorem mem_flatChRules (rules : List (List ChRule)) : ∀ (c : Nat) (x : Nat × ChRule), x ∈ flatChRules rules c →
    (∃ rs ∈ rules, x.2 ∈ rs) ∧ c ≤ x.1 ∧ x.1 < c + rules.length := by
  induction rules with
  | nil => intro c x hx; simp [flatChRules] at hx
  | cons rs more ih =>
    intro c x hx
    simp only [flatChRules, List.mem_append, List.mem_map] at hx
    rcases hx with ⟨r, hr, rfl⟩ | hx
    · exact ⟨⟨rs, by simp, hr⟩, Nat.le_refl _, by simp⟩
    · obtain ⟨⟨rs', h1, h2⟩, h3, h4⟩ := ih (c + 1) x hx
      exact ⟨⟨rs', by simp [h1], h2⟩, by omega, by simp at h4 ⊢; omega⟩

theorem clsList_len (l : List Nat) : l.length ≤ tokCount (clsListP l) :=
  length_le_tokCount_flatMap (fun c => [sp] ++ classRefP c) l (by
    intro c _; unfold classRefP; split <;> simp [tokCount_append, tokCount, tk, sp])

/-- one rule of chained format 2, with its leading space -/
theorem frag_chain2Rule (fuel kb ki kl : Nat) (hkb : kb < 65536) (hki : ki < 65536) (hkl : kl < 65536)
    (rules : List (List ChRule)) (x : Nat × ChRule)
    (hx0 : x.1 ≤ ki) (hb : ∀ c ∈ x.2.back, c ≤ kb) (hi : ∀ c ∈ x.2.input, c ≤ ki) (hl : ∀ c ∈ x.2.look, c ≤ kl)
    (ha : ∀ a ∈ x.2.actions, ActOk a) (hfuel : tokCount (ch2Rt x) + 2 < fuel) :
    Frag (chain2Rule fuel (clsFrom 1 kb) (clsFrom 1 ki) (clsFrom 1 kl) rules) (ch2Rt x)
      (appendIdx rules x.1 x.2) (fun t => isInt t = false) notDigit := by
  unfold ch2Rt at hfuel ⊢
  have hnl := nested_len x.2.actions
  have h1 := clsList_len x.2.back.reverse
  have h2 := clsList_len (x.1 :: x.2.input)
  have h3 := clsList_len x.2.look
  simp only [tokCount_append, barP, arrow, sp, tk, tokCount, List.append_nil] at hfuel
  have hnb := frag_classNames x.2.back.reverse fuel [] (by omega)
  have hni := frag_classNames (x.1 :: x.2.input) fuel [] (by omega)
  have hnlk := frag_classNames x.2.look fuel [] (by omega)
  have hn := frag_nested x.2.actions fuel (by omega) ha
  simp only [List.nil_append] at hnb hni hnlk
  unfold chain2Rule
  refine frag_bind hnb ?_ (fun _ _ => trivial) (fun line t _ => by simp [mkToks, barP, sp, tk, tBar, tColon])
  apply frag_bar_then
  refine frag_bind hni ?_ (fun _ _ => trivial) (fun line t _ => by simp [mkToks, barP, sp, tk, tBar, tColon])
  apply frag_bar_then
  refine frag_bind hnlk ?_ (fun _ _ => trivial) (fun line t _ => by simp [mkToks, arrow, sp, tk, tArrow, tColon])
  apply frag_arrow_then
  refine frag_bind hn ?_ (fun nx h => by simpa [nextRune, render] using h)
    (fun line t ht => by simpa [mkToks] using ht)
  simp only [List.map_cons, List.isEmpty_cons, Bool.false_eq_true, if_false]
  have hri := frag_resolve ki hki (x.1 :: x.2.input) (by
    intro c hc; simp only [List.mem_cons] at hc
    rcases hc with rfl | hc
    · exact hx0
    · exact hi c hc) (fun t => isInt t = false)
  have hrb := frag_resolve kb hkb x.2.back.reverse (fun c hc => hb c (by simpa using hc)) (fun t => isInt t = false)
  have hrl := frag_resolve kl hkl x.2.look hl (fun t => isInt t = false)
  simp only [List.map_cons] at hri
  refine frag_bind0 hri ?_ (fun _ _ => trivial) (fun _ _ h => h)
  refine frag_bind0 hrb ?_ (fun _ _ => trivial) (fun _ _ h => h)
  refine frag_bind0 hrl ?_ (fun _ _ => trivial) (fun _ _ h => h)
  simp only [List.headD_cons, List.drop_succ_cons, List.drop_zero, List.reverse_reverse]
  exact frag_weaken (frag_pure _ _) (fun _ h => h) (fun _ _ => trivial)

/-- the class state after the definitions of a chained format 2 subtable -/
def chSt (bcls icls lcls : List (Nat × Nat)) : ChSt :=
  { b := (clsFrom 1 (classGlyphs bcls).length, assign 1 (classGlyphs bcls)),
    i := (clsFrom 1 (classGlyphs icls).length, assign 1 (classGlyphs icls)),
    l := (clsFrom 1 (classGlyphs lcls).length, assign 1 (classGlyphs lcls)) }

theorem chain2_branch (f : Font) (hf : FontOk f) (fuel : Nat) (cov : List Nat) (bcls icls lcls : List (Nat × Nat))
    (rules : List (List ChRule)) (h : Chain2Ok f cov bcls icls lcls rules)
    (hfuel : tokCount (chain2Tail f cov rules) + 2 < fuel) :
    Frag (chainBranch f fuel (chSt bcls icls lcls) tSlash) (chain2Tail f cov rules)
      (.chain2 cov bcls icls lcls rules, ChSt.empty) SubStop Safe := by
  obtain ⟨hca, hci, hbok, hiok, hlok, hlen, hsmall, hne, hok⟩ := h
  let kb := (classGlyphs bcls).length
  let ki := (classGlyphs icls).length
  let kl := (classGlyphs lcls).length
  let pc : Nat × ChRule → List Piece := fun x => (ch2Rt x).drop 1
  let upd : List (List ChRule) → Nat × ChRule → List (List ChRule) := fun acc x => appendIdx acc x.1 x.2
  have hflatOk : ∀ x ∈ flatChRules rules 0, x.1 ≤ ki ∧ (∀ c ∈ x.2.back, c ≤ kb) ∧ (∀ c ∈ x.2.input, c ≤ ki) ∧
      (∀ c ∈ x.2.look, c ≤ kl) ∧ ∀ a ∈ x.2.actions, ActOk a := by
    intro x hx
    obtain ⟨⟨rs, hrs, hr⟩, _, h3⟩ := mem_flatChRules rules 0 x hx
    exact ⟨by rw [hlen] at h3; omega, hok rs hrs x.2 hr⟩
  cases hmm : flatChRules rules 0 with
  | nil => exact absurd hmm hne
  | cons m0 rest =>
    rw [hmm] at hflatOk
    have hjoin : commaJoin ((m0 :: rest).map ch2Rt) =
        .ws [a1 32] :: (pc m0 ++ rest.flatMap (fun y => [commaP, sp] ++ pc y)) := by
      have hcm : ∀ (l : List (Nat × ChRule)), l.flatMap (fun y => [commaP] ++ ch2Rt y) =
          l.flatMap (fun y => [commaP, sp] ++ pc y) := by
        intro l
        apply flatMap_congr'
        intro y _
        show [commaP] ++ ch2Rt y = [commaP, sp] ++ (ch2Rt y).drop 1
        conv => lhs; rw [ch2Rt_ws y]
        simp [sp]
      simp only [commaJoin, List.map_cons, List.flatMap_map]
      rw [hcm rest]
      conv => lhs; rw [ch2Rt_ws m0]
      simp [pc]
    have heq : chain2Tail f cov rules = .tok tSlash (ascii [47]) :: ((newExplainer f).writeGlyphList cov ++
        (.tok tSlash (ascii [47]) :: .ws [a1 32] :: ((pc m0 ++ rest.flatMap (fun y => [commaP, sp] ++ pc y)) ++ []))) := by
      unfold chain2Tail
      rw [hmm, hjoin]
      simp [tk]
    rw [heq] at hfuel ⊢
    simp only [tokCount, tokCount_append, List.append_nil] at hfuel
    have hpcle : ∀ y, tokCount (ch2Rt y) = tokCount (pc y) := by
      intro y
      conv => lhs; rw [ch2Rt_ws y]
      simp [tokCount, pc]
    have hpc_le : ∀ p ∈ m0 :: rest, tokCount (ch2Rt p) + 2 < fuel := by
      intro p hp
      rw [hpcle]
      simp only [List.mem_cons] at hp
      rcases hp with rfl | hp
      · omega
      · have := tokCount_flatMap_mem (fun y => [commaP, sp] ++ pc y) rest p hp
        simp only [tokCount_append] at this
        omega
    have hlenr : rest.length < fuel := by
      have := length_le_tokCount_flatMap (fun y => [commaP, sp] ++ pc y) rest (by
        intro x _; simp [tokCount_append, commaP, tk, tokCount])
      omega
    unfold chainBranch
    simp only [beq_self_eq_true, if_true, chSt]
    have hsl : FragU (required tSlash) [.tok tSlash (ascii [47])] anyTok anyNext :=
      fragU_required tSlash _ anyNext (fun nx _ => slash_tokOk nx) (tk_canon tSlash _ (by decide))
    refine frag_then1 hsl ?_ (fun _ _ => trivial) (fun _ _ _ => trivial)
    refine frag_bind (frag_glyphList f hf cov hci fuel (by omega)) ?_ (fun nx _ => by
        simpa [nextRune, render, ascii, Piece.rbs, a1] using safe_slash)
      (fun line t _ => by simp [mkToks, glyphItem, tSlash, tIdentifier, tString, tInteger, tHyphen])
    refine frag_then1 hsl ?_ (fun _ _ => trivial) (fun _ _ _ => trivial)
    apply frag_ws [a1 32] ws_sp
    have hres : (m0 :: rest).foldl upd (List.replicate ((clsFrom 1 ki).length + 1) []) = rules := by
      rw [← hmm, clsFrom_length]
      have := fold_flat flatChRules (fun c => rfl) (fun rs more c => rfl) rules []
      simp only [List.length_nil, List.nil_append] at this
      rw [hlen] at this
      exact this
    refine frag_bind (frag_pairsLoop (chain2Rule fuel (clsFrom 1 kb) (clsFrom 1 ki) (clsFrom 1 kl)) pc upd
      SubStop (fun t => isInt t = false) Safe notDigit
      (fun t ht => ⟨by rcases ht with h | h | h <;> simp [h, tOr, tEOL, tEOF, tComma], substop_notInt t ht⟩)
      (fun t ht => by simp [isInt, ht, tComma, tInteger]) safe_notDigit (fun r hr => by cases hr; decide)
      rest _ m0 fuel hlenr (fun i hi line => ?_) ?_) ?_ (fun nx h => by simpa [nextRune, render] using h)
        (fun line t ht => by simpa [mkToks] using ht)
    · -- the first item of a rule is `:` (a class reference) or `|`
      have : ∃ t, (mkToks line (ch2Rt i)).head? = some t ∧ (t.typ = tColon ∨ t.typ = tBar) := by
        unfold ch2Rt
        cases hbk : i.2.back.reverse with
        | nil => exact ⟨_, by simp [clsListP, barP, sp, tk, mkToks]; rfl, Or.inr rfl⟩
        | cons c cs =>
          refine ⟨{ typ := tColon, val := ascii [58], line := line }, ?_, Or.inl rfl⟩
          simp only [clsListP, List.flatMap_cons, classRefP]
          split <;> simp [mkToks, tk, sp]
      obtain ⟨t, h1, h2⟩ := this
      refine ⟨t, ?_, by rcases h2 with h | h <;> simp [h, tColon, tBar, tEOL]⟩
      rw [ch2Rt_ws i] at h1
      simpa [mkToks, pc] using h1
    · intro pre i post e
      have hi : i ∈ m0 :: rest := by rw [e]; simp
      obtain ⟨hi0, hi1, hi2, hi3, hi4⟩ := hflatOk i hi
      have := frag_chain2Rule fuel kb ki kl (by omega) (by omega) (by omega)
        (pre.foldl upd (List.replicate ((clsFrom 1 ki).length + 1) [])) i hi0 hi1 hi2 hi3 hi4 (hpc_le i hi)
      rw [ch2Rt_ws i] at this
      have h' := frag_unws this
      have hfold : (pre ++ [i]).foldl upd (List.replicate ((clsFrom 1 ki).length + 1) []) =
          appendIdx (pre.foldl upd (List.replicate ((clsFrom 1 ki).length + 1) [])) i.1 i.2 := by
        simp [List.foldl_append, upd]
      rw [hfold]
      exact h'
    · rw [hres, sortUnique_asc cov hca]
      obtain ⟨_, hb2, hb3⟩ := classGlyphs_facts f bcls hbok
      obtain ⟨_, hi2, hi3⟩ := classGlyphs_facts f icls hiok
      obtain ⟨_, hl2, hl3⟩ := classGlyphs_facts f lcls hlok
      rw [sortByGlyph_perm _ bcls hbok.asc hb3 (by rw [assign_fst]; exact hb2),
        sortByGlyph_perm _ icls hiok.asc hi3 (by rw [assign_fst]; exact hi2),
        sortByGlyph_perm _ lcls hlok.asc hl3 (by rw [assign_fst]; exact hl2)]
      exact frag_weaken (frag_pure _ SubStop) (fun _ h => h) (fun _ _ => trivial)

/-! ### the loop -/

def ChainSub (f : Font) (st : Subtable) : Prop :=
  (∃ rules, st = .chain1 rules ∧ Chain1Ok f rules) ∨
  (∃ cov b i l rules, st = .chain2 cov b i l rules ∧ Chain2Ok f cov b i l rules) ∨
  (∃ back input look acts, st = .chain3 back input look acts ∧ Chain3Ok f back input look acts)

def chainSize : List Subtable → Nat
  | [] => 0
  | .chain2 _ b i l _ :: more =>
    (classGlyphs b).length + (classGlyphs i).length + (classGlyphs l).length + 1 + chainSize more
  | _ :: more => 1 + chainSize more

theorem chain2_subP (f : Font) (cov : List Nat) (b i l : List (Nat × Nat)) (rules : List (List ChRule)) :
    subP f (.chain2 cov b i l rules) = .ws [a1 32] ::
      (classDefsP kwBacktrackclass (newExplainer f).writeGlyphSet (classGlyphs b) (([] : List (List Nat)).length + 1) ++
        (classDefsP kwInputclass (newExplainer f).writeGlyphSet (classGlyphs i) (([] : List (List Nat)).length + 1) ++
          (classDefsP kwLookaheadclass (newExplainer f).writeGlyphSet (classGlyphs l) (([] : List (List Nat)).length + 1) ++
            chain2Tail f cov rules))) := by
  have hfun : (fun x : Nat × ChRule => clsListP x.2.back.reverse ++ barP ++ clsListP (x.1 :: x.2.input) ++ barP ++
      clsListP x.2.look ++ arrow ++ nestedP x.2.actions) = ch2Rt := by
    funext x; simp [ch2Rt, List.append_assoc]
  simp only [subP, Explainer.subtable, Explainer.defineClasses, chain2Tail]
  rw [hfun]
  simp [sp]

theorem chain_sub_step (f : Font) (hf : FontOk f) (fuel : Nat) (st0 : Subtable) (hsub : ChainSub f st0)
    (hfu : tokCount (subP f st0) + 2 < fuel) (n : Nat) (acc : List Subtable) (TAIL : List Piece) (y : List Subtable)
    (P : Tok → Prop) (N : Option Nat → Prop)
    (hcont : Frag (chainCont f fuel n acc (st0, ChSt.empty)) TAIL y P N)
    (hN : ∀ nx, N nx → Safe (nextRune TAIL nx))
    (hP : ∀ line t, P t → SubStop ((mkToks line TAIL).head?.getD t)) :
    Frag (chainLoop f fuel (n + chainSize [st0]) ChSt.empty acc) (subP f st0 ++ TAIL) y P N := by
  rcases hsub with ⟨rules, rfl, hok⟩ | ⟨cov, b, i, l, rules, rfl, hok⟩ | ⟨back, input, look, acts, rfl, hok⟩
  · obtain ⟨hhead, ⟨ty, hty, hbr⟩, _⟩ := chain1_branch f hf fuel ChSt.empty rules hok hfu
    exact chain_unit f fuel n ChSt.empty acc _ TAIL ty _ y P N (fun line => (hhead line).2) hty hbr hcont hN hP
  · rw [chain2_subP] at hfu ⊢
    simp only [tokCount, tokCount_append] at hfu
    simp only [List.cons_append, List.append_assoc]
    apply frag_ws [a1 32] ws_sp
    obtain ⟨hbs, hbnd⟩ := classGlyphs_sets f b hok.bOk
    obtain ⟨his, hind⟩ := classGlyphs_sets f i hok.iOk
    obtain ⟨hls, hlnd⟩ := classGlyphs_sets f l hok.lOk
    have hcb := classDefs_count kwBacktrackclass f (classGlyphs b) 1
    have hci := classDefs_count kwInputclass f (classGlyphs i) 1
    have hcl := classDefs_count kwLookaheadclass f (classGlyphs l) 1
    simp only [List.length_nil, Nat.zero_add] at hfu
    have hsz : n + chainSize [.chain2 cov b i l rules] =
        (((n + 1) + (classGlyphs l).length) + (classGlyphs i).length) + (classGlyphs b).length := by
      simp only [chainSize]; omega
    rw [hsz]
    -- the three groups of class definitions, then the rules
    refine defs_induct kwBacktrackclass f fuel (fun m c => chainLoop f fuel m { b := c, i := ([], []), l := ([], []) } acc)
      (fun m pre gg REST y' P' N' hd hk' => chain_defB f hf fuel m
        { b := (clsFrom 1 pre.length, assign 1 pre), i := ([], []), l := ([], []) } acc pre gg hd REST y' P' N' rfl hk')
      (classGlyphs b) [] _ _ y P N
      (fun gg hgg => ⟨(hbs gg hgg).1, (hbs gg hgg).2, by have := hcb gg hgg; omega⟩)
      (by simpa using hbnd) (by simp; have := hok.small.1; omega) ?_
    simp only [List.nil_append]
    refine defs_induct kwInputclass f fuel (fun m c => chainLoop f fuel m
        { b := (clsFrom 1 (classGlyphs b).length, assign 1 (classGlyphs b)), i := c, l := ([], []) } acc)
      (fun m pre gg REST y' P' N' hd hk' => chain_defI f hf fuel m
        { b := (clsFrom 1 (classGlyphs b).length, assign 1 (classGlyphs b)), i := (clsFrom 1 pre.length, assign 1 pre),
          l := ([], []) } acc pre gg hd REST y' P' N' rfl hk')
      (classGlyphs i) [] _ _ y P N
      (fun gg hgg => ⟨(his gg hgg).1, (his gg hgg).2, by have := hci gg hgg; omega⟩)
      (by simpa using hind) (by simp; have := hok.small.2.1; omega) ?_
    simp only [List.nil_append]
    refine defs_induct kwLookaheadclass f fuel (fun m c => chainLoop f fuel m
        { b := (clsFrom 1 (classGlyphs b).length, assign 1 (classGlyphs b)),
          i := (clsFrom 1 (classGlyphs i).length, assign 1 (classGlyphs i)), l := c } acc)
      (fun m pre gg REST y' P' N' hd hk' => chain_defL f hf fuel m
        { b := (clsFrom 1 (classGlyphs b).length, assign 1 (classGlyphs b)),
          i := (clsFrom 1 (classGlyphs i).length, assign 1 (classGlyphs i)), l := (clsFrom 1 pre.length, assign 1 pre) }
        acc pre gg hd REST y' P' N' rfl hk')
      (classGlyphs l) [] _ _ y P N
      (fun gg hgg => ⟨(hls gg hgg).1, (hls gg hgg).2, by have := hcl gg hgg; omega⟩)
      (by simpa using hlnd) (by simp; have := hok.small.2.2; omega) ?_
    simp only [List.nil_append]
    have hbr := chain2_branch f hf fuel cov b i l rules hok (by omega)
    have hhd : ∀ line, (mkToks line (chain2Tail f cov rules)).head? = some { typ := tSlash, val := ascii [47], line := line } := by
      intro line; simp [chain2Tail, mkToks, tk]
    exact chain_unit f fuel n (chSt b i l) acc _ TAIL tSlash _ y P N
      (fun line => kwFree_head _ _ (hhd line) (by simp [tSlash, tIdentifier]))
      (fun line => peekTypeOf_head _ _ (hhd line) (by simp [tSlash, tBar])) hbr hcont hN hP
  · rw [chain3P_eq] at hfu ⊢
    have hbr := chain3_branch f hf fuel ChSt.empty back input look acts hok (by omega)
    cases input with
    | nil => exact absurd rfl hok.ne
    | cons s0 rest =>
      have hfacts : ∀ line, KwFree (mkToks line (chain3P f back (s0 :: rest) look acts)) ∧
          peekTypeOf (mkToks line (chain3P f back (s0 :: rest) look acts)) = some tSquareBracketOpen := by
        intro line
        cases hb : back.reverse with
        | nil =>
          have hh1 : (mkToks line (chain3P f back (s0 :: rest) look acts)).head? =
              some { typ := tBar, val := ascii [124], line := line } := by
            simp [chain3P, hb, spaceJoin, sp, mkToks]
          have hh2 : (mkToks line (chain3P f back (s0 :: rest) look acts)).tail.head? =
              some { typ := tSquareBracketOpen, val := ascii [91], line := line } := by
            simp [chain3P, hb, spaceJoin, sp, mkToks, Explainer.writeGlyphSet, tk, nextLine, tBar, tEOL]
          exact ⟨kwFree_head _ _ hh1 (by simp [tBar, tIdentifier]), peekTypeOf_two _ _ _ hh1 hh2 (by simp)⟩
        | cons b0 bs =>
          have hh1 : (mkToks line (chain3P f back (s0 :: rest) look acts)).head? =
              some { typ := tSquareBracketOpen, val := ascii [91], line := line } := by
            simp [chain3P, hb, spaceJoin, mkToks, Explainer.writeGlyphSet, tk]
          exact ⟨kwFree_head _ _ hh1 (by simp [tSquareBracketOpen, tIdentifier]),
            peekTypeOf_head _ _ hh1 (by simp [tSquareBracketOpen, tBar])⟩
      exact chain_unit f fuel n ChSt.empty acc _ TAIL tSquareBracketOpen _ y P N
        (fun line => (hfacts line).1) (fun line => (hfacts line).2) hbr hcont hN hP

theorem chainSize_cons (st : Subtable) (more : List Subtable) : chainSize (st :: more) = chainSize [st] + chainSize more := by
  cases st <;> simp [chainSize] <;> omega

theorem chain_tail_facts (f : Font) (more : List Subtable) :
    (∀ nx, Safe nx → Safe (nextRune (more.flatMap fun st => orSep ++ subP f st) nx)) ∧
    (∀ line t, LookStop t → SubStop ((mkToks line (more.flatMap fun st => orSep ++ subP f st)).head?.getD t)) :=
  ctx_tail_facts f more

theorem frag_chainLoop (f : Font) (hf : FontOk f) (fuel : Nat) :
    ∀ (more : List Subtable) (st0 : Subtable) (j : Nat) (acc : List Subtable),
      (∀ st ∈ st0 :: more, ChainSub f st ∧ tokCount (subP f st) + 2 < fuel) →
      Frag (chainLoop f fuel (chainSize (st0 :: more) + j) ChSt.empty acc)
        (subP f st0 ++ more.flatMap (fun st => orSep ++ subP f st)) (acc ++ st0 :: more) LookStop Safe := by
  intro more
  induction more with
  | nil =>
    intro st0 j acc hall
    obtain ⟨hsub, hfu⟩ := hall st0 (by simp)
    obtain ⟨hN, hP⟩ := chain_tail_facts f []
    have hcont : Frag (chainCont f fuel j acc (st0, ChSt.empty)) [] (acc ++ [st0]) LookStop Safe :=
      frag_weaken (chain_cont_end f fuel j acc (st0, ChSt.empty))
        (fun t ht => by rcases ht with h | h <;> simp [h, tOr, tEOL, tEOF]) (fun _ _ => trivial)
    have := chain_sub_step f hf fuel st0 hsub hfu j acc [] _ LookStop Safe hcont hN hP
    rw [Nat.add_comm] at this
    simpa using this
  | cons s1 ms ih =>
    intro st0 j acc hall
    obtain ⟨hsub, hfu⟩ := hall st0 (by simp)
    obtain ⟨hN, hP⟩ := chain_tail_facts f (s1 :: ms)
    have hih := ih s1 j (acc ++ [st0]) (fun st hst => hall st (by simp at hst ⊢; exact Or.inr hst))
    have hcont : Frag (chainCont f fuel (chainSize (s1 :: ms) + j) acc (st0, ChSt.empty))
        ((s1 :: ms).flatMap fun st => orSep ++ subP f st) (acc ++ st0 :: s1 :: ms) LookStop Safe := by
      have := chain_cont_more f fuel (chainSize (s1 :: ms) + j) acc (st0, ChSt.empty) _ _ LookStop Safe hih
      simpa [List.append_assoc] using this
    have := chain_sub_step f hf fuel st0 hsub hfu (chainSize (s1 :: ms) + j) acc _ _ LookStop Safe hcont hN hP
    have hsz : chainSize (st0 :: s1 :: ms) + j = chainSize (s1 :: ms) + j + chainSize [st0] := by
      rw [chainSize_cons st0]; omega
    rw [hsz]
    exact this

end SfntV.Dsl
