/-
GSUB 8.1 (reverse chaining contextual single substitution): decode ∘ encode = id and the declared size
is the emitted size, for the model of the repaired `Gsub8_1.encode` and of `readGsub8_1`.
-/
import SfntV.Proofs.OtlGsub
import SfntV.Proofs.OtlScriptList

namespace SfntV.Otl.Gsub
open SfntV SfntV.Otl

/-- the coverage tables one after the other -/
def covsB (cs : List (List Nat)) : Bytes := cs.flatMap fun c => wordsToBytes (Cov.encodeW c)

theorem covRead_at {B : Bytes} {p : Nat} (gs : List Nat) (h : Cov.Valid gs)
    (hb : LL.BytesAt B p (wordsToBytes (Cov.encodeW gs))) : Cov.read (B.drop p) = .ok gs.zipIdx := by
  obtain ⟨pre, post, rfl, rfl⟩ := hb
  rw [List.append_assoc, List.drop_left]
  unfold Cov.read
  rw [bytesToWords_append _ (Cov.encodeW_lt gs h)]
  exact Cov.readW_encodeW_append gs h _

theorem covsBytes_eq : ∀ (cs : List (List Nat)), (∀ c ∈ cs, Cov.Valid c) → covsBytes cs = .ok (covsB cs)
  | [], _ => rfl
  | c :: cs, h => by
    simp only [covsBytes, Cov.encode_eq c (h c (by simp)),
      covsBytes_eq cs (fun c' hc' => h c' (by simp [hc'])), covsB, List.flatMap_cons]

theorem covsLen_eq : ∀ (cs : List (List Nat)), (∀ c ∈ cs, Cov.Valid c) → covsLen cs = .ok (covsB cs).length
  | [], _ => rfl
  | c :: cs, h => by
    have hc := h c (by simp)
    simp only [covsLen, Cov.encodeLen_eq c hc, ← Cov.encodeW_length c hc,
      covsLen_eq cs (fun c' hc' => h c' (by simp [hc'])), covsB, List.flatMap_cons, List.length_append,
      length_wordsToBytes]

/-- the offsets `covOffsets` assigns are where the coverage tables lie -/
theorem covOffsets_spec {B : Bytes} : ∀ (cs : List (List Nat)) (total : Nat) (offs : List Nat) (t : Nat),
    (∀ c ∈ cs, Cov.Valid c) → covOffsets cs total = .ok (offs, t) → LL.BytesAt B total (covsB cs) →
    offs.length = cs.length ∧ (∀ o ∈ offs, o < 65536) ∧ t = total + (covsB cs).length ∧
    readCovs B offs = .ok (cs.map List.zipIdx)
  | [], total, offs, t, _, h, _ => by
    simp only [covOffsets, Outcome.ok.injEq, Prod.mk.injEq] at h
    obtain ⟨rfl, rfl⟩ := h
    simp [covsB, readCovs]
  | c :: cs, total, offs, t, hv, h, hb => by
    have hc := hv c (by simp)
    simp only [covOffsets, Cov.encodeLen_eq c hc, ← Cov.encodeW_length c hc] at h
    split at h
    · simp at h
    · rename_i hle
      cases h2 : covOffsets cs (total + 2 * (Cov.encodeW c).length) with
      | ok r =>
        obtain ⟨r, t'⟩ := r
        rw [h2] at h
        simp only [Outcome.ok.injEq, Prod.mk.injEq] at h
        obtain ⟨rfl, rfl⟩ := h
        have hb' : LL.BytesAt B total (wordsToBytes (Cov.encodeW c) ++ covsB cs) := by
          simpa [covsB] using hb
        have hb2 := SL.bytesAt_append_right hb'
        rw [length_wordsToBytes] at hb2
        obtain ⟨i1, i2, i3, i4⟩ := covOffsets_spec cs _ r t' (fun c' hc' => hv c' (by simp [hc'])) h2 hb2
        have hw : w16 total = total := w16_of_lt (by omega)
        refine ⟨by simp [i1], ?_, ?_, ?_⟩
        · intro o ho
          rw [List.mem_cons] at ho
          rcases ho with rfl | ho
          · exact w16_lt _
          · exact i2 o ho
        · rw [i3]
          simp only [covsB, List.flatMap_cons, List.length_append, length_wordsToBytes]
          omega
        · simp only [readCovs, hw, covRead_at c hc (SL.bytesAt_append_left hb'), i4, List.map_cons]
      | err e => rw [h2] at h; simp at h
      | panic s => rw [h2] at h; simp at h

/-- **GSUB 8.1 round trip**: whenever the encoder returns bytes, the reader gives the subtable back and
`encodeLen` is the number of bytes written -/
theorem roundtrip81 (input : List Nat) (back look : List (List Nat)) (subs : List Nat)
    (hi : Cov.Valid input) (hbk : ∀ c ∈ back, Cov.Valid c) (hlk : ∀ c ∈ look, Cov.Valid c)
    (hs : subs.length = input.length) (hsl : ∀ x ∈ subs, x < 65536) (b : Bytes)
    (henc : encode81 input back look subs = .ok b) :
    readSubtable 8 b = .ok (.s81 ⟨input.zipIdx, back.map List.zipIdx, look.map List.zipIdx, subs⟩) ∧
    encodeLen81 input back look subs = .ok b.length := by
  unfold encode81 at henc
  simp only [Cov.encodeLen_eq input hi, ← Cov.encodeW_length input hi, Cov.encode_eq input hi,
    covsBytes_eq back hbk, covsBytes_eq look hlk] at henc
  cases h1 : covOffsets back (10 + 2 * back.length + 2 * look.length + 2 * subs.length +
      2 * (Cov.encodeW input).length) with
  | err e => rw [h1] at henc; simp at henc
  | panic s => rw [h1] at henc; simp at henc
  | ok r1 =>
    obtain ⟨bo, t1⟩ := r1
    rw [h1] at henc
    simp only at henc
    cases h2 : covOffsets look t1 with
    | err e => rw [h2] at henc; simp at henc
    | panic s => rw [h2] at henc; simp at henc
    | ok r2 =>
      obtain ⟨lo, t2⟩ := r2
      rw [h2] at henc
      simp only at henc
      split at henc
      · simp at henc
      · rename_i hfit
        simp only [Outcome.ok.injEq] at henc
        -- lengths of the offset arrays, without the bytes
        have hbol : ∀ (cs : List (List Nat)) (tt : Nat) (os : List Nat) (t' : Nat),
            covOffsets cs tt = .ok (os, t') → os.length = cs.length := by
          intro cs
          induction cs with
          | nil => intro tt os t' h; simp [covOffsets] at h; simp [← h.1]
          | cons c cs ih =>
            intro tt os t' h
            simp only [covOffsets] at h
            split at h
            · split at h
              · simp at h
              · cases h3 : covOffsets cs (tt + _) with
                | ok r => obtain ⟨r, t''⟩ := r
                          rw [h3] at h
                          simp only [Outcome.ok.injEq, Prod.mk.injEq] at h
                          rw [← h.1]; simp [ih _ _ _ h3]
                | err e => rw [h3] at h; simp at h
                | panic s => rw [h3] at h; simp at h
            · simp at h
            · simp at h
        have hbo := hbol _ _ _ _ h1
        have hlo := hbol _ _ _ _ h2
        have hH : 10 + 2 * back.length + 2 * look.length + 2 * subs.length =
            2 * ([1, w16 (10 + 2 * back.length + 2 * look.length + 2 * subs.length), w16 back.length] ++ bo ++
              [w16 look.length] ++ lo ++ [w16 subs.length] ++ subs).length := by
          simp only [List.length_append, List.length_cons, List.length_nil, hbo, hlo]; omega
        generalize hco : 10 + 2 * back.length + 2 * look.length + 2 * subs.length = covOff at *
        generalize hHd : [1, w16 covOff, w16 back.length] ++ bo ++ [w16 look.length] ++ lo ++
          [w16 subs.length] ++ subs = H at *
        -- where the coverage tables lie
        have hBi : LL.BytesAt b covOff (wordsToBytes (Cov.encodeW input)) :=
          ⟨wordsToBytes H, covsB back ++ covsB look, by rw [← henc]; simp [List.append_assoc],
            by rw [length_wordsToBytes, ← hH]⟩
        have hBb : LL.BytesAt b (covOff + 2 * (Cov.encodeW input).length) (covsB back) :=
          ⟨wordsToBytes H ++ wordsToBytes (Cov.encodeW input), covsB look, by rw [← henc],
            by rw [List.length_append, length_wordsToBytes, length_wordsToBytes, ← hH]⟩
        obtain ⟨_, b2, b3, b4⟩ := covOffsets_spec back _ bo t1 hbk h1 hBb
        have hBl : LL.BytesAt b t1 (covsB look) :=
          ⟨wordsToBytes H ++ wordsToBytes (Cov.encodeW input) ++ covsB back, [], by rw [← henc]; simp,
            by rw [List.length_append, List.length_append, length_wordsToBytes, length_wordsToBytes, ← hH, b3]⟩
        obtain ⟨_, l2, l3, l4⟩ := covOffsets_spec look _ lo t2 hlk h2 hBl
        have w1 : w16 covOff = covOff := w16_of_lt (by omega)
        have w2 : w16 back.length = bo.length := by rw [hbo]; exact w16_of_lt (by omega)
        have w3 : w16 look.length = lo.length := by rw [hlo]; exact w16_of_lt (by omega)
        have w4 : w16 subs.length = subs.length := w16_of_lt (by omega)
        rw [w1, w2, w3, w4] at hHd
        have hlt : ∀ w ∈ H, w < 65536 := by
          intro w hw
          rw [← hHd] at hw
          simp only [List.mem_append, List.mem_cons, List.not_mem_nil, or_false] at hw
          rcases hw with (((((rfl | rfl | rfl) | hw) | rfl) | hw) | rfl) | hw
          · decide
          · omega
          · omega
          · exact b2 w hw
          · omega
          · exact l2 w hw
          · omega
          · exact hsl w hw
        have hw : bytesToWords b = 1 :: covOff :: bo.length :: (bo ++ lo.length :: (lo ++ subs.length ::
            (subs ++ bytesToWords (wordsToBytes (Cov.encodeW input) ++ covsB back ++ covsB look)))) := by
          rw [← henc, List.append_assoc, List.append_assoc, bytesToWords_append _ hlt, ← hHd]
          simp [List.append_assoc]
        have hrd : read81 b = .ok ⟨input.zipIdx, back.map List.zipIdx, look.map List.zipIdx, subs⟩ := by
          simp only [read81, hw, List.length_append, List.length_cons, List.drop_left, List.take_left,
            covRead_at input hi hBi, b4, l4]
          rw [if_neg (by omega), if_neg (by omega), if_neg (by omega)]
          rw [prune_same _ _ (by simp [hs])]
        refine ⟨?_, ?_⟩
        · simp [readSubtable, hw, hrd]
        · simp only [encodeLen81, Cov.encodeLen_eq input hi, ← Cov.encodeW_length input hi,
            covsLen_eq back hbk, covsLen_eq look hlk]
          rw [← henc]
          simp only [List.length_append, length_wordsToBytes, ← hH]
          congr 1
          omega

end SfntV.Otl.Gsub
