/-
C02 (decoders are total), group `chainctx`: the TRUE cost bounds of `readChainedSeqContext1/2/3`
(ok outcomes).  Formats 1 and 2 are linear in the input thanks to their size caps (which count
every VISIT of a rule, so aliased offsets do not escape); format 3 has no cap and is not linear
(count × per-table cost).
-/
import SfntV.Proofs.TotalChainCtx

namespace SfntV.Total.ChainCtx
open SfntV SfntV.Total SfntV.Total.Gdef SfntV.Total.Otl
open SfntV.Otl.Ctx (cruleLen)

/-! ## format 1: the caps sit inside the loops — a genuinely linear bound -/

theorem rulesLoop1_cost (b : Bytes) (base n : Nat) : ∀ (os : List Nat) (j size : Nat)
    (acc : List Rule) (c : Cost) (rules : List Rule) (size' : Nat) (c' : Cost),
    rulesLoop1 b base n os j size acc c = .ok (rules, size', c') →
    c'.steps + size ≤ c.steps + size' ∧ c'.alloc + size ≤ c.alloc + size' ∧
      size' ≤ max size (65535 + b.length)
  | [], _, size, acc, c, rules, size', c', h => by
    unfold rulesLoop1 at h
    cases h
    omega
  | o :: os, j, size, acc, c, rules, size', c', h => by
    unfold rulesLoop1 at h
    obtain ⟨⟨r, c1⟩, hr, h⟩ := bind_eq_ok h
    dsimp only at h
    split at h
    · cases h
    obtain ⟨u, _, h⟩ := bind_eq_ok h
    obtain ⟨hlen, hst, hal⟩ := readCRule_ok hr
    have ih := rulesLoop1_cost b base n os _ _ _ _ _ _ _ h
    simp only [Cost.tick] at hst hal
    have : cruleLen r = 8 + 2 * (r.back.length + r.input.length + r.look.length) + 4 * r.actions.length := rfl
    omega

theorem setsLoop1_cost (b : Bytes) (pos n : Nat) : ∀ (os : List Nat) (i total : Nat)
    (acc : Sets) (c : Cost) (sets : Sets) (total' : Nat) (c' : Cost),
    setsLoop1 b pos n os i total acc c = .ok (sets, total', c') →
    c'.steps + total ≤ c.steps + os.length + total' ∧ c'.alloc + total ≤ c.alloc + total' ∧
      total' ≤ max total (131070 + b.length)
  | [], _, total, acc, c, sets, total', c', h => by
    unfold setsLoop1 at h
    cases h
    simp only [List.length_nil]
    omega
  | o :: os, i, total, acc, c, sets, total', c', h => by
    unfold setsLoop1 at h
    simp only [List.length_cons]
    split at h
    · have ih := setsLoop1_cost b pos n os _ _ _ _ _ _ _ h
      simp only [Cost.tick] at ih
      omega
    obtain ⟨⟨offs, q1, c1⟩, hr, h⟩ := bind_eq_ok h
    dsimp only at h
    split at h
    · cases h
    obtain ⟨hq, hqle, hlt, hst, hal⟩ := readSlice_ok hr
    rw [mkSlice_ok _ _ _ hlt, ok_bind] at h
    obtain ⟨u, _, h⟩ := bind_eq_ok h
    obtain ⟨⟨rules, size, c2⟩, hrl, h⟩ := bind_eq_ok h
    dsimp only at h
    have h1 := rulesLoop1_cost b _ _ _ _ _ _ _ _ _ _ hrl
    have ih := setsLoop1_cost b pos n os _ _ _ _ _ _ _ h
    simp only [Cost.tick, Cost.mem] at hst hal h1
    omega

/-- COST of `readChainedSeqContext1` (ok outcomes): linear in the input with the constants of the
caps — `steps ≤ 1.5·|b| + 589824`, `alloc ≤ |b| + 458749`.  Aliased offsets do not escape: every
visit of a rule adds its encoded size to `ruleSetSize` / `total`, which are checked inside the
loops (all sets but the last ≤ 0xFFFF, all rules of the last set but the last ≤ 0xFFFF, the last
rule lies inside the data). -/
theorem readChainedSeqContext1_cost (b : Bytes) (pos : Nat) (r : Sub) (c : Cost)
    (h : read1 b pos = .ok (r, c)) :
    c.steps ≤ b.length + b.length / 2 + 589824 ∧ c.alloc ≤ b.length + 458749 := by
  unfold read1 at h
  obtain ⟨covOff, _, h⟩ := bind_eq_ok h
  obtain ⟨⟨offs0, q1, c1⟩, hr, h⟩ := bind_eq_ok h
  obtain ⟨_, _, hlt, hst, hal⟩ := readSlice_ok hr
  dsimp only at h
  obtain ⟨⟨cov0, cc⟩, hcov, h⟩ := bind_eq_ok h
  have hc0 := coverageRead_covOk hcov
  have hcc := coverageRead_cost _ _ _ _ hcov
  dsimp only at h
  obtain ⟨⟨cov, offs, c3⟩, hpr, h⟩ := bind_eq_ok h
  obtain ⟨_, hlen, _, hps, hpa⟩ := prune1_ok hc0 hpr
  dsimp only at h
  obtain ⟨n, _, h⟩ := bind_eq_ok h
  rw [mkSlice_ok _ _ _ (by omega), ok_bind] at h
  obtain ⟨⟨sets, total', c4⟩, hsl, h⟩ := bind_eq_ok h
  cases h
  have hs := setsLoop1_cost b pos _ _ _ _ _ _ _ _ _ hsl
  simp only [Cost.tick, Cost.mem, Cost.zero, Cost.add, mapLen] at hst hal hps hpa hs
  dsimp only
  omega

/-! ## format 2: the same caps, but in a pass AFTER everything has been read and allocated -/

/-- encoded size of the rules of a list -/
def lenSum (rs : List Rule) : Nat := (rs.map cruleLen).sum

/-- encoded size of a rule set: `2 + 2*len + Σ rule sizes` -/
def setSize (rs : List Rule) : Nat := 2 + 2 * rs.length + lenSum rs

/-- encoded size of all non-nil rule sets -/
def setsSize : Sets → Nat
  | [] => 0
  | none :: ss => setsSize ss
  | some rs :: ss => setSize rs + setsSize ss

/-- every rule of every set has encoded size at most `L` -/
def AllLe (L : Nat) (sets : Sets) : Prop := ∀ s ∈ sets, ∀ rs, s = some rs → ∀ r ∈ rs, cruleLen r ≤ L

theorem lenSum_cons (r : Rule) (rs : List Rule) : lenSum (r :: rs) = cruleLen r + lenSum rs := by
  simp [lenSum]

theorem rulesLoop2_cost (b : Bytes) (base n : Nat) : ∀ (os : List Nat) (j : Nat)
    (acc : List Rule) (c : Cost) (rules : List Rule) (c' : Cost),
    rulesLoop2 b base n os j acc c = .ok (rules, c') →
    ∃ new, rules = acc.reverse ++ new ∧ new.length = os.length ∧ (∀ r ∈ new, cruleLen r ≤ b.length) ∧
      c'.steps ≤ c.steps + lenSum new ∧ c'.alloc ≤ c.alloc + lenSum new
  | [], _, acc, c, rules, c', h => by
    unfold rulesLoop2 at h
    cases h
    exact ⟨[], by simp, rfl, fun r hr => (by cases hr), Nat.le_refl _, Nat.le_refl _⟩
  | o :: os, j, acc, c, rules, c', h => by
    unfold rulesLoop2 at h
    obtain ⟨⟨r, c1⟩, hr, h⟩ := bind_eq_ok h
    dsimp only at h
    obtain ⟨u, _, h⟩ := bind_eq_ok h
    obtain ⟨hlen, hst, hal⟩ := readCRule_ok hr
    obtain ⟨new, hnew, hl, hall, hs, ha⟩ := rulesLoop2_cost b base n os _ _ _ _ _ h
    refine ⟨r :: new, ?_, by simp [hl], ?_, ?_, ?_⟩
    · rw [hnew, List.reverse_cons, List.append_assoc]; rfl
    · intro x hx
      rcases List.mem_cons.mp hx with rfl | hx
      · omega
      · exact hall x hx
    · rw [lenSum_cons]
      simp only [Cost.tick] at hst
      have : cruleLen r = 8 + 2 * (r.back.length + r.input.length + r.look.length) + 4 * r.actions.length := rfl
      omega
    · rw [lenSum_cons]
      simp only [Cost.tick] at hal
      have : cruleLen r = 8 + 2 * (r.back.length + r.input.length + r.look.length) + 4 * r.actions.length := rfl
      omega

theorem setsLoop2_cost (b : Bytes) (pos n : Nat) : ∀ (os : List Nat) (i : Nat)
    (acc : Sets) (c : Cost) (sets : Sets) (c' : Cost),
    setsLoop2 b pos n os i acc c = .ok (sets, c') →
    ∃ new, sets = acc.reverse ++ new ∧ new.length = os.length ∧ AllLe b.length new ∧
      c'.steps ≤ c.steps + os.length + setsSize new ∧ c'.alloc ≤ c.alloc + setsSize new
  | [], _, acc, c, sets, c', h => by
    unfold setsLoop2 at h
    cases h
    exact ⟨[], by simp, rfl, fun s hs => (by cases hs), (by simp only [setsSize, List.length_nil]; omega), (by simp only [setsSize]; omega)⟩
  | o :: os, i, acc, c, sets, c', h => by
    unfold setsLoop2 at h
    split at h
    · obtain ⟨new, hnew, hl, hall, hs, ha⟩ := setsLoop2_cost b pos n os _ _ _ _ _ h
      refine ⟨none :: new, ?_, by simp [hl], ?_, ?_, ?_⟩
      · rw [hnew, List.reverse_cons, List.append_assoc]; rfl
      · intro s hs rs hrs
        rcases List.mem_cons.mp hs with rfl | hs
        · cases hrs
        · exact hall s hs rs hrs
      · simp only [Cost.tick, List.length_cons, setsSize] at hs ⊢; omega
      · simp only [Cost.tick, setsSize] at ha ⊢; omega
    obtain ⟨⟨offs, q1, c1⟩, hr, h⟩ := bind_eq_ok h
    dsimp only at h
    obtain ⟨hq, hqle, hlt, hst, hal⟩ := readSlice_ok hr
    rw [mkSlice_ok _ _ _ hlt, ok_bind] at h
    obtain ⟨u, _, h⟩ := bind_eq_ok h
    obtain ⟨⟨rules, c2⟩, hrl, h⟩ := bind_eq_ok h
    dsimp only at h
    obtain ⟨nr, hnr, hnl, hnall, hns, hna⟩ := rulesLoop2_cost b _ _ _ _ _ _ _ _ hrl
    obtain ⟨new, hnew, hl, hall, hs, ha⟩ := setsLoop2_cost b pos n os _ _ _ _ _ h
    simp only [List.reverse_nil, List.nil_append] at hnr
    subst hnr
    refine ⟨some rules :: new, ?_, by simp [hl], ?_, ?_, ?_⟩
    · rw [hnew, List.reverse_cons, List.append_assoc]; rfl
    · intro s hs rs hrs
      rcases List.mem_cons.mp hs with rfl | hs
      · cases hrs
        exact hnall
      · exact hall s hs rs hrs
    · simp only [Cost.tick, Cost.mem, List.length_cons, setsSize, setSize] at hst hns hs ⊢; omega
    · simp only [Cost.tick, Cost.mem, setsSize, setSize] at hal hna ha ⊢; omega

theorem checkPos_bound (L : Nat) : ∀ (rs : List Rule) (p p' : Nat),
    SfntV.Otl.Ctx.checkC2.pos rs p = some p' → (∀ r ∈ rs, cruleLen r ≤ L) →
    p' = p + lenSum rs ∧ (rs ≠ [] → p' ≤ 65535 + L)
  | [], p, p', h, _ => by
    unfold SfntV.Otl.Ctx.checkC2.pos at h
    cases h
    exact ⟨by simp [lenSum], fun h => absurd rfl h⟩
  | r :: rest, p, p', h, hall => by
    unfold SfntV.Otl.Ctx.checkC2.pos at h
    split at h
    · cases h
    obtain ⟨e, hb⟩ := checkPos_bound L rest _ _ h (fun x hx => hall x (List.mem_cons_of_mem _ hx))
    have hr := hall r (List.mem_cons_self)
    refine ⟨by rw [lenSum_cons]; omega, fun _ => ?_⟩
    cases rest with
    | nil =>
      simp only [lenSum, List.map_nil, List.sum_nil] at e
      omega
    | cons x xs => exact hb (by simp)

/-- the final size pass of format 2 passes only if the decoded rule sets are small -/
theorem checkC2_bound (L : Nat) : ∀ (sets : Sets) (total : Nat), AllLe L sets →
    SfntV.Otl.Ctx.checkC2 sets total = true → total + setsSize sets ≤ max total (131070 + L)
  | [], total, _, _ => by simp only [setsSize]; omega
  | none :: ss, total, hall, h => by
    unfold SfntV.Otl.Ctx.checkC2 at h
    have := checkC2_bound L ss total (fun s hs => hall s (List.mem_cons_of_mem _ hs)) h
    simp only [setsSize]
    exact this
  | some rules :: ss, total, hall, h => by
    unfold SfntV.Otl.Ctx.checkC2 at h
    split at h
    · cases h
    split at h
    · rename_i p hp
      obtain ⟨e, hb⟩ := checkPos_bound L rules _ _ hp (hall _ List.mem_cons_self rules rfl)
      have := checkC2_bound L ss _ (fun s hs => hall s (List.mem_cons_of_mem _ hs)) h
      simp only [setsSize, setSize]
      cases rules with
      | nil =>
        simp only [lenSum, List.map_nil, List.sum_nil, List.length_nil] at e ⊢
        omega
      | cons x xs =>
        have := hb (by simp)
        omega
    · cases h

theorem rulesCount_le : ∀ (sets : Sets), rulesCount sets ≤ setsSize sets
  | [] => Nat.le_refl _
  | none :: ss => by
    have := rulesCount_le ss
    simp only [rulesCount, List.map_cons, List.sum_cons, setsSize] at this ⊢
    omega
  | some rs :: ss => by
    have := rulesCount_le ss
    simp only [rulesCount, List.map_cons, List.sum_cons, setsSize, setSize] at this ⊢
    omega

theorem appendLenSteps_le (es : List (Nat × Nat)) : appendLenSteps es ≤ 131072 := by
  unfold appendLenSteps mapLen
  split <;> omega

/-- COST of `readChainedSeqContext2` (ok outcomes only): `steps ≤ 4·|b| + 1376259`,
`alloc ≤ |b| + 589824` — linear, because an ACCEPTED subtable has passed the size pass
(`checkC2_bound`).  The pass runs after all rule sets have been read and allocated: on a REJECTED
input nothing bounds the work done before the rejection (sets × rules × rule length, all
aliasable); the cost of error outcomes is not in the model. -/
theorem readChainedSeqContext2_cost (b : Bytes) (pos : Nat) (r : Sub) (c : Cost)
    (h : read2 b pos = .ok (r, c)) :
    c.steps ≤ 4 * b.length + 1376259 ∧ c.alloc ≤ b.length + 589824 := by
  unfold read2 at h
  obtain ⟨buf, _, h⟩ := bind_eq_ok h
  obtain ⟨covOff, _, h⟩ := bind_eq_ok h
  obtain ⟨bOff, _, h⟩ := bind_eq_ok h
  obtain ⟨iOff, _, h⟩ := bind_eq_ok h
  obtain ⟨lOff, _, h⟩ := bind_eq_ok h
  obtain ⟨⟨offs0, q1, c1⟩, hr, h⟩ := bind_eq_ok h
  obtain ⟨_, _, hlt, hst, hal⟩ := readSlice_ok hr
  dsimp only at h
  obtain ⟨⟨cov, cc⟩, hcov, h⟩ := bind_eq_ok h
  have hcc := coverageRead_cost _ _ _ _ hcov
  dsimp only at h
  obtain ⟨⟨cb, c2⟩, hcb, h⟩ := bind_eq_ok h
  have hc2 := classdefRead_cost _ _ _ _ hcb
  dsimp only at h
  obtain ⟨⟨ci, c3⟩, hci, h⟩ := bind_eq_ok h
  have hc3 := classdefRead_cost _ _ _ _ hci
  dsimp only at h
  obtain ⟨⟨cl, c4⟩, hcl, h⟩ := bind_eq_ok h
  have hc4 := classdefRead_cost _ _ _ _ hcl
  dsimp only at h
  obtain ⟨offs, hoffs, h⟩ := bind_eq_ok h
  have hlen : offs.length ≤ offs0.length := by
    unfold trunc2 at hoffs
    split at hoffs
    · unfold sliceTo at hoffs
      split at hoffs
      · cases hoffs
        simp only [List.length_take]; omega
      · cases hoffs
    · cases hoffs; exact Nat.le_refl _
  rw [mkSlice_ok _ _ _ (by omega), ok_bind] at h
  obtain ⟨⟨sets, c6⟩, hsl, h⟩ := bind_eq_ok h
  dsimp only at h
  obtain ⟨n, _, h⟩ := bind_eq_ok h
  split at h
  · rename_i hchk
    cases h
    obtain ⟨new, hnew, hnl, hall, hs, ha⟩ := setsLoop2_cost b pos _ _ _ _ _ _ _ hsl
    simp only [List.reverse_nil, List.nil_append] at hnew
    subst hnew
    have hb := checkC2_bound b.length _ _ hall hchk
    have h1 := rulesCount_le sets
    have e1 := appendLenSteps_le cb
    have e2 := appendLenSteps_le ci
    have e3 := appendLenSteps_le cl
    simp only [Cost.tick, Cost.mem, Cost.zero, Cost.add, mapLen] at hst hal hs ha ⊢
    omega
  · cases h

/-! ## format 3: no cap — one full coverage set per offset, offsets may all be the same -/

theorem covSetsLoop_cost (site : String) (b : Bytes) (pos n : Nat) : ∀ (os : List Nat) (i : Nat)
    (acc : List (List Nat)) (c : Cost) (r : List (List Nat)) (c' : Cost),
    covSetsLoop site b pos n os i acc c = .ok (r, c') →
    r.length = acc.length + os.length ∧
    c'.steps ≤ c.steps + os.length * (b.length / 2 + 131074) ∧
      c'.alloc ≤ c.alloc + os.length * 131072
  | [], _, acc, c, r, c', h => by
    unfold covSetsLoop at h
    cases h
    simp
  | o :: os, i, acc, c, r, c', h => by
    unfold covSetsLoop at h
    obtain ⟨⟨s, cs⟩, hs, h⟩ := bind_eq_ok h
    dsimp only at h
    obtain ⟨u, _, h⟩ := bind_eq_ok h
    have hc := readSet_cost _ _ _ _ hs
    have ih := covSetsLoop_cost site b pos n os _ _ _ _ _ h
    simp only [Cost.tick, Cost.add, List.length_cons, Nat.succ_mul] at ih ⊢
    omega

/-- COST of `readChainedSeqContext3` (ok outcomes): with `K` = number of coverage offsets
(backtrack + input + lookahead, `2·K + 10 ≤ |b|`), `steps ≤ |b| + K·(|b|/2 + 131074)` and
`alloc ≤ |b| + K·131072`.  NOT linear: the offsets may all point at one coverage table, which is
decoded (and its up to 131072 map entries allocated) once per offset. -/
theorem readChainedSeqContext3_cost (b : Bytes) (pos : Nat) (cb ci cl : List (List Nat))
    (acts : List Action) (ch : Bool) (c : Cost)
    (h : read3 b pos = .ok (.c3 cb ci cl acts ch, c)) :
    2 * (cb.length + ci.length + cl.length) + 10 ≤ b.length ∧
    c.steps ≤ b.length + (cb.length + ci.length + cl.length) * (b.length / 2 + 131074) ∧
      c.alloc ≤ b.length + (cb.length + ci.length + cl.length) * 131072 := by
  unfold read3 at h
  obtain ⟨⟨bo, q1, c1⟩, hr1, h⟩ := bind_eq_ok h
  obtain ⟨hq1, _, hbo, hs1, ha1⟩ := readSlice_ok hr1
  dsimp only at h
  obtain ⟨⟨io, q2, c2⟩, hr2, h⟩ := bind_eq_ok h
  obtain ⟨hq2, _, hio, hs2, ha2⟩ := readSlice_ok hr2
  dsimp only at h
  obtain ⟨⟨lo, q3, c3⟩, hr3, h⟩ := bind_eq_ok h
  obtain ⟨hq3, _, hlo, hs3, ha3⟩ := readSlice_ok hr3
  dsimp only at h
  split at h
  · cases h
  obtain ⟨slc, hslc, h⟩ := bind_eq_ok h
  obtain ⟨_, hlt, hqs⟩ := readU16_ok hslc
  obtain ⟨⟨acts', c4⟩, hn, h⟩ := bind_eq_ok h
  obtain ⟨_, hs4, ha4, hq4⟩ := readNested_ok hlt hn
  dsimp only at h
  rw [mkSlice_ok _ _ _ hbo, ok_bind] at h
  obtain ⟨⟨cb', c5⟩, hl1, h⟩ := bind_eq_ok h
  dsimp only at h
  rw [mkSlice_ok _ _ _ hio, ok_bind] at h
  obtain ⟨⟨ci', c6⟩, hl2, h⟩ := bind_eq_ok h
  dsimp only at h
  rw [mkSlice_ok _ _ _ hlo, ok_bind] at h
  obtain ⟨⟨cl', c7⟩, hl3, h⟩ := bind_eq_ok h
  cases h
  obtain ⟨e1, s1, a1⟩ := covSetsLoop_cost _ b pos _ _ _ _ _ _ _ hl1
  obtain ⟨e2, s2, a2⟩ := covSetsLoop_cost _ b pos _ _ _ _ _ _ _ hl2
  obtain ⟨e3, s3, a3⟩ := covSetsLoop_cost _ b pos _ _ _ _ _ _ _ hl3
  simp only [List.length_nil, Nat.zero_add] at e1 e2 e3
  rw [e1, e2, e3]
  simp only [Cost.tick, Cost.mem, Cost.zero, Nat.add_mul] at hs1 ha1 hs2 ha2 hs3 ha3 hs4 ha4 s1 a1 s2 a2 s3 a3 ⊢
  omega

end SfntV.Total.ChainCtx
