/-
C14 — lemmas about the Mac Roman and UTF-16 codecs.
-/
import SfntV.Model.NamesCodec

namespace SfntV.Names

/-! ### Mac Roman: whole-table facts by `decide` -/

/-- every one of the 256 bytes survives decode-then-encode (whole regenerated table) -/
theorem mac_enc_dec_byte : ∀ b : Fin 256, macEncodeOne (macDecodeByte b.val) = b.val := by
  decide +kernel

/-- every entry of `enc` points at a byte ≥ 128 whose `dec` entry is the key, and the key is ≥ 128 -/
theorem mac_enc_entries :
    Gen.macEnc.all (fun p => decide (128 ≤ p.1) && decide (macDecodeByte p.2 = p.1) && decide (p.2 < 256)) = true := by
  decide +kernel

/-- all runes in `dec` are Unicode scalar values (so `string(rr)` does not alter them) -/
theorem mac_dec_scalar : ∀ b : Fin 256, isScalar (macDecodeByte b.val) = true := by
  decide +kernel

theorem macDec_length : Gen.macDec.length = 128 := by decide +kernel

theorem assocGet_mem {m : List (Nat × Nat)} {k c : Nat} (h : assocGet m k = some c) : (k, c) ∈ m := by
  induction m with
  | nil => simp [assocGet] at h
  | cons p rest ih =>
    obtain ⟨a, b⟩ := p
    unfold assocGet at h
    split at h
    · next hak => cases h; subst hak; exact List.mem_cons_self
    · exact List.mem_cons_of_mem _ (ih h)

theorem mac_dec_enc_rune {r : Nat} (h : macRepresentable r = true) :
    macDecodeByte (macEncodeOne r) = r ∧ macEncodeOne r < 256 := by
  unfold macRepresentable at h
  by_cases hr : r < 128
  · have : macEncodeOne r = r := by simp [macEncodeOne, macEncodeOneWith, hr]
    rw [this]; simp [macDecodeByte, macDecodeOne, hr]; omega
  · simp [hr] at h
    obtain ⟨c, hc⟩ := Option.isSome_iff_exists.mp h
    have hm := assocGet_mem hc
    have hall := List.all_eq_true.mp mac_enc_entries _ hm
    simp at hall
    have : macEncodeOne r = c := by simp [macEncodeOne, macEncodeOneWith, hr, hc]
    rw [this]; exact ⟨hall.1.2, hall.2⟩

theorem fixRune_of_scalar {r : Nat} (h : isScalar r = true) : fixRune r = r := by
  simp [fixRune, h]

theorem mac_encode_decode (cc : List Nat) (h : ∀ c ∈ cc, c < 256) : macEncode (macDecode cc) = cc := by
  induction cc with
  | nil => rfl
  | cons c rest ih =>
    have hc : c < 256 := h c List.mem_cons_self
    have h1 := mac_enc_dec_byte ⟨c, hc⟩
    have h2 := mac_dec_scalar ⟨c, hc⟩
    have ih' := ih (fun x hx => h x (List.mem_cons_of_mem _ hx))
    simp only [macEncode, macDecode, macEncodeWith, macDecodeWith, List.map_cons, List.map_map] at ih' ⊢
    simp only [macDecodeByte, macEncodeOne] at h1 h2
    rw [ih']
    simp only [fixRune, h2, if_true, h1]

theorem mac_decode_encode (rr : List Nat) (h : ∀ r ∈ rr, macRepresentable r = true) :
    macDecode (macEncode rr) = rr := by
  induction rr with
  | nil => rfl
  | cons r rest ih =>
    have hr := mac_dec_enc_rune (h r List.mem_cons_self)
    have hs := mac_dec_scalar ⟨macEncodeOne r, hr.2⟩
    have ih' := ih (fun x hx => h x (List.mem_cons_of_mem _ hx))
    simp only [macEncode, macDecode, macEncodeWith, macDecodeWith, List.map_cons, List.map_map] at ih' ⊢
    simp only [macDecodeByte, macEncodeOne] at hr hs
    rw [ih']
    simp only [fixRune]
    rw [hr.1] at hs
    simp only [hr.1, hs, if_true]

theorem macEncode_length (rr : List Nat) : (macEncode rr).length = rr.length := by
  simp [macEncode, macEncodeWith]

theorem macEncode_lt (rr : List Nat) (h : ∀ r ∈ rr, macRepresentable r = true) :
    ∀ c ∈ macEncode rr, c < 256 := by
  intro c hc
  simp only [macEncode, macEncodeWith, List.mem_map] at hc
  obtain ⟨r, hr, rfl⟩ := hc
  exact (mac_dec_enc_rune (h r hr)).2

/-! ### UTF-16 -/

theorem wordsOfBytes_units (us : List Nat) (h : ∀ u ∈ us, u < 65536) :
    wordsOfBytes (us.flatMap fun u => [u / 256 % 256, u % 256]) = us := by
  induction us with
  | nil => rfl
  | cons u rest ih =>
    have hu := h u List.mem_cons_self
    simp only [List.flatMap_cons, List.cons_append, List.nil_append, wordsOfBytes]
    rw [ih (fun x hx => h x (List.mem_cons_of_mem _ hx))]
    congr 1; omega

theorem utf16DecodeUnits_plain (u : Nat) (l : List Nat) (h : u < 0xD800 ∨ 0xE000 ≤ u) :
    utf16DecodeUnits (u :: l) = u :: utf16DecodeUnits l := by
  cases l with
  | nil => simp [utf16DecodeUnits, h]
  | cons v rest => simp [utf16DecodeUnits, h]

theorem utf16DecodeUnits_pair (u v : Nat) (l : List Nat)
    (hu : 0xD800 ≤ u ∧ u < 0xDC00) (hv : 0xDC00 ≤ v ∧ v < 0xE000) :
    utf16DecodeUnits (u :: v :: l) = ((u - 0xD800) * 1024 + (v - 0xDC00) + 0x10000) :: utf16DecodeUnits l := by
  have h1 : ¬ (u < 0xD800 ∨ 0xE000 ≤ u) := by omega
  simp [utf16DecodeUnits, h1, hu.2, hv.1, hv.2]

theorem utf16Units_lt (rr : List Nat) : ∀ u ∈ utf16Units rr, u < 65536 := by
  intro u hu
  simp only [utf16Units, List.mem_flatMap] at hu
  obtain ⟨r, _, hr⟩ := hu
  unfold utf16EncodeRune at hr
  split at hr
  · next h => simp at hr h; omega
  · split at hr
    · simp at hr; omega
    · simp at hr; omega

theorem utf16_units_roundtrip (rr : List Nat) (h : ∀ r ∈ rr, isScalar r = true) :
    utf16DecodeUnits (utf16Units rr) = rr := by
  induction rr with
  | nil => rfl
  | cons r rest ih =>
    have hr := h r List.mem_cons_self
    have ih' := ih (fun x hx => h x (List.mem_cons_of_mem _ hx))
    simp only [isScalar, Bool.or_eq_true, Bool.and_eq_true, decide_eq_true_eq] at hr
    simp only [utf16Units, List.flatMap_cons] at ih' ⊢
    by_cases hb : r < 0xD800 ∨ (0xE000 ≤ r ∧ r < 0x10000)
    · have : utf16EncodeRune r = [r] := by
        simp only [utf16EncodeRune, Bool.or_eq_true, Bool.and_eq_true, decide_eq_true_eq, hb, if_true]
      rw [this, List.singleton_append, utf16DecodeUnits_plain _ _ (by omega), ih']
    · have hbig : 0x10000 ≤ r ∧ r ≤ 0x10FFFF := by omega
      have : utf16EncodeRune r =
          [0xD800 + (r - 0x10000) / 1024 % 1024, 0xDC00 + (r - 0x10000) % 1024] := by
        simp only [utf16EncodeRune, Bool.or_eq_true, Bool.and_eq_true, decide_eq_true_eq, hb, if_false,
          hbig, and_self, if_true]
      rw [this]
      simp only [List.cons_append, List.nil_append]
      rw [utf16DecodeUnits_pair _ _ _ (by omega) (by omega), ih']
      congr 1; omega

theorem utf16_roundtrip (rr : List Nat) (h : ∀ r ∈ rr, isScalar r = true) :
    utf16Decode (utf16Encode rr) = rr := by
  unfold utf16Decode utf16Encode
  rw [wordsOfBytes_units _ (utf16Units_lt rr), utf16_units_roundtrip rr h]
  induction rr with
  | nil => rfl
  | cons r rest ih =>
    simp only [List.map_cons]
    rw [ih (fun x hx => h x (List.mem_cons_of_mem _ hx)), fixRune_of_scalar (h r List.mem_cons_self)]

theorem utf16Encode_ne_nil (rr : List Nat) (h : rr ≠ []) : utf16Encode rr ≠ [] := by
  cases rr with
  | nil => exact absurd rfl h
  | cons r rest =>
    unfold utf16Encode utf16Units
    simp only [List.flatMap_cons]
    unfold utf16EncodeRune
    split
    · simp
    · split <;> simp

end SfntV.Names
