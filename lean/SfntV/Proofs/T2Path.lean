/-
Byte-level soundness of edges and of every path of edges (C04): the specification interpreter's own
step function run over the emitted bytes.
-/
import SfntV.Proofs.T2EdgesAll
import SfntV.Proofs.T2Loop

set_option linter.unusedSimpArgs false
set_option linter.unusedVariables false

namespace SfntV.T2Enc
open SfntV SfntV.T2 SfntV.Spec.T2

/-- the operand's code is not empty and reads back as its value from every state with room -/
def Decodes (a : EncNum) : Prop :=
  a.code ≠ [] ∧ ∀ (q : Quirks) (env : Env) (s : St) (rest : List Nat), s.stack.length ≤ 48 →
    step q env s (a.code ++ rest) = .ok (.cont { s with stack := s.stack ++ [a.val] } rest)

theorem reaches_push (q : Quirks) (env : Env) (args : List EncNum) (hd : ∀ a ∈ args, Decodes a)
    (s : St) (rest : List Nat) (hs : s.stack.length + args.length ≤ 49) :
    Reaches q env s (args.flatMap (·.code) ++ rest) { s with stack := s.stack ++ vals args } rest := by
  induction args generalizing s with
  | nil => simpa [vals] using Reaches.refl s rest
  | cons a t ih =>
    obtain ⟨hne, hdec⟩ := hd a List.mem_cons_self
    have h1 := hdec q env s (t.flatMap (·.code) ++ rest) (by simp at hs; omega)
    have hl : (t.flatMap (·.code) ++ rest).length < ((a :: t).flatMap (·.code) ++ rest).length := by
      simp only [List.flatMap_cons, List.length_append]
      have : 0 < a.code.length := List.length_pos_iff.mpr hne
      omega
    have h2 := ih (fun b hb => hd b (List.mem_cons_of_mem _ hb)) { s with stack := s.stack ++ [a.val] }
      (by simp at hs ⊢; omega)
    refine Reaches.step (by simpa using h1) hl ?_
    simpa [vals, List.append_assoc] using h2

theorem opBytes_path (op : Op) (hp : isPathOp op = true) :
    (∃ b, opBytes op = [b] ∧ b < 32 ∧ b ≠ 12 ∧ b ≠ 28 ∧ opOfCode b = some op) ∨
    (∃ b, opBytes op = [12, b] ∧ opOfCode (12 * 256 + b) = some op) := by
  cases op <;> simp only [isPathOp, Bool.false_eq_true] at hp <;>
    first
    | exact Or.inl ⟨_, rfl, by decide, by decide, by decide, rfl⟩
    | exact Or.inr ⟨_, rfl, rfl⟩

theorem step_pathop (env : Env) (s : St) (op : Op) (rest : List Nat) (hp : isPathOp op = true)
    (hs : s.stack.length ≤ 48) :
    step strict env s (opBytes op ++ rest) = checkMove (T2.exec strict env s op rest) := by
  have hov : ¬ s.stack.length > Gen.t2maxStack := by rw [maxStack_eq]; omega
  rcases opBytes_path op hp with ⟨b, hb, h32, h12, h28, hop⟩ | ⟨b, hb, hop⟩
  · rw [hb]
    simp only [List.cons_append, List.nil_append, step, hov, if_false]
    simp only [show ¬ (32 ≤ b ∧ b ≤ 246) by omega, show ¬ (247 ≤ b ∧ b ≤ 250) by omega,
      show ¬ (251 ≤ b ∧ b ≤ 254) by omega, h28, show ¬ (b = 255) by omega, h12, if_false, hop]
  · rw [hb]
    simp only [List.cons_append, List.nil_append, step, hov, if_false]
    simp only [show ¬ (32 ≤ 12 ∧ 12 ≤ 246) by omega, show ¬ (247 ≤ 12 ∧ 12 ≤ 250) by omega,
      show ¬ (251 ≤ 12 ∧ 12 ≤ 254) by omega, show ¬ (12 = 28) by omega, show ¬ (12 = 255) by omega,
      if_false, if_true, hop]

theorem opBytes_ne_nil (op : Op) (hp : isPathOp op = true) : 0 < (opBytes op).length := by
  rcases opBytes_path op hp with ⟨b, hb, _⟩ | ⟨b, hb, _⟩ <;> rw [hb] <;> simp

theorem keeps_drawSegs (q : Quirks) (s : St) (segs : List Seg) : Keeps s (drawSegs q s segs) := by
  induction segs generalizing s with
  | nil => exact Keeps.refl s
  | cons g t ih =>
    rw [drawSegs_cons]
    refine Keeps.trans ?_ (ih _)
    cases g with
    | line dx dy => exact keeps_rLineTo q s _ _
    | curve a0 a1 a2 a3 a4 a5 => exact keeps_rCurveTo q s _ _ _ _ _ _

theorem drawSegs_stack (q : Quirks) (s : St) (v : List Int) (segs : List Seg) :
    drawSegs q { s with stack := v } segs = { drawSegs q s segs with stack := v } := by
  induction segs generalizing s with
  | nil => rfl
  | cons g t ih =>
    rw [drawSegs_cons, drawSegs_cons]
    cases g with
    | line dx dy => exact ih (rLineTo q s dx.val dy.val)
    | curve a0 a1 a2 a3 a4 a5 => exact ih (rCurveTo q s a0.val a1.val a2.val a3.val a4.val a5.val)

/-- states in which drawing is allowed and the stack is empty -/
def Ready (s : St) : Prop := s.stack = [] ∧ s.hasMoved = true ∧ s.moveErr = false

theorem ready_drawSegs (q : Quirks) (s : St) (segs : List Seg) (h : Ready s) : Ready (drawSegs q s segs) := by
  obtain ⟨k1, k2, _, _, _, _, _, k8⟩ := keeps_drawSegs q s segs
  exact ⟨by rw [k8, h.1], by rw [k1, h.2.1], by rw [k2 h.2.1, h.2.2]⟩

theorem clear_drawSegs (q : Quirks) (s : St) (v : List Int) (segs : List Seg) (h : s.stack = []) :
    clear (drawSegs q { s with stack := v } segs) = drawSegs q s segs := by
  rw [drawSegs_stack]
  have hk := (keeps_drawSegs q s segs).2.2.2.2.2.2.2
  rw [h] at hk
  generalize drawSegs q s segs = x at *
  cases x
  simp only [clear] at *
  subst hk
  rfl

/-- the bytes of a sound edge, run by the specification interpreter from any ready state, draw exactly
the commands the edge covers and leave the rest of the code -/
theorem edge_reaches (env : Env) (frm : Nat) (cmds : List Seg) (e : Edge) (hS : EdgeSound frm cmds e)
    (hd : ∀ g ∈ cmds, ∀ a ∈ g.args, Decodes a) (s : St) (hr : Ready s) (rest : List Nat) :
    Reaches strict env s (e.bytes ++ rest) (drawSegs strict s (cmds.take (e.to - frm))) rest := by
  have hdec : ∀ a ∈ e.args, Decodes a := by
    intro a ha
    obtain ⟨g, hg, hag⟩ := hS.argsFrom a ha
    exact hd g hg a hag
  have h1 := reaches_push strict env e.args hdec s (opBytes e.op ++ rest) (by rw [hr.1]; have := hS.len; simp; omega)
  rw [hr.1, List.nil_append] at h1
  unfold Edge.bytes
  rw [List.append_assoc]
  refine h1.trans ?_
  have hst := step_pathop env { s with stack := vals e.args } e.op rest hS.isPath (by simp [vals]; exact hS.len)
  rw [hS.exec env { s with stack := vals e.args } rest rfl, clear_drawSegs _ _ _ _ hr.1] at hst
  have hme : (drawSegs strict s (cmds.take (e.to - frm))).moveErr = false := (ready_drawSegs _ _ _ hr).2.2
  simp only [checkMove, hme] at hst
  refine Reaches.step (by simpa using hst) ?_ (Reaches.refl _ _)
  have := opBytes_ne_nil e.op hS.isPath
  simp only [List.length_append]
  omega

/-- a path of proposed edges through the sub-path `segs` starting at `node` -/
inductive IsPath (segs : List Seg) : Nat → List Edge → Prop
  | done : IsPath segs segs.length []
  | step {node : Nat} {e : Edge} {rest : List Edge} : e ∈ appendEdges node (segs.drop node) →
      IsPath segs e.to rest → IsPath segs node (e :: rest)

theorem path_reaches (env : Env) (segs : List Seg) (node : Nat) (path : List Edge)
    (hp : IsPath segs node path)
    (hd : ∀ g ∈ segs, ∀ a ∈ g.args, Decodes a) (s : St) (hr : Ready s) (rest : List Nat) :
    Reaches strict env s (path.flatMap Edge.bytes ++ rest) (drawSegs strict s (segs.drop node)) rest := by
  induction hp generalizing s with
  | done => simpa [drawSegs] using Reaches.refl s rest
  | @step node e tl he _ ih =>
    have hS := appendEdges_sound node (segs.drop node) e he
    have hd' : ∀ g ∈ segs.drop node, ∀ a ∈ g.args, Decodes a := fun g hg => hd g (List.mem_of_mem_drop hg)
    have h1 := edge_reaches env node (segs.drop node) e hS hd' s hr (tl.flatMap Edge.bytes ++ rest)
    have h2 := ih
      (drawSegs strict s ((segs.drop node).take (e.to - node))) (ready_drawSegs strict s _ hr)
    have hsplit : segs.drop node = (segs.drop node).take (e.to - node) ++ segs.drop e.to := by
      have := (List.take_append_drop (e.to - node) (segs.drop node)).symm
      rw [List.drop_drop] at this
      have hlt := hS.to_gt
      have e1 : node + (e.to - node) = e.to := by omega
      rw [e1] at this
      exact this
    rw [List.flatMap_cons, List.append_assoc]
    have : drawSegs strict s (segs.drop node) =
        drawSegs strict (drawSegs strict s ((segs.drop node).take (e.to - node))) (segs.drop e.to) := by
      rw [← drawSegs_append, ← hsplit]
    rw [this]
    exact h1.trans h2

end SfntV.T2Enc
