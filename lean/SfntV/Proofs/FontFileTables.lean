/-
C01 (bytes) — each table `Write` emits, decoded by the decoder `Read` uses, gives the record of the
font-level model after its codec normalisation (`codecHead`, `codecOs2`, `codecPost`, identity).
Adapters around the round-trip theorems of C12 (head, OS/2, post header, maxp, hhea/hmtx),
C14 (name) and C11 (glyf/loca).
-/
import SfntV.Model.FontFile
import SfntV.Proofs.FontRoundTrip
import SfntV.Props.C12
import SfntV.Props.C14
import SfntV.Props.C11

namespace SfntV.FontFile
open SfntV SfntV.Font

/-- times whose `Unix() - zeroTime` does not wrap in int64 -/
def timeInRange (t : Time) : Prop := -4611686018427387904 < t.sec ∧ t.sec < 4611686018427387904

theorem time_bridge (t : Time) (h : timeInRange t) :
    ofGoTime (Metrics.decodeTime (Metrics.encodeTime (goTime t))) = decodeTime (encodeTime t) := by
  sorry

/-- head: the table as stored in the file (checksum adjustment patched in by `header.Write`)
decodes to `codecHead` of the record, and keeps the loca format -/
theorem head_table (h : HeadRec) (bbox : Metrics.Rect) (loca : Int) (adj : UInt32)
    (d : Metrics.HeadDom (headOf h bbox loca)) (hc : timeInRange h.created) (hm : timeInRange h.modified) :
    ∃ H, Metrics.decodeHead (Header.patchAdj (Metrics.encodeHead (headOf h bbox loca)) adj) = .ok H ∧
      recOfHead H = codecHead h ∧ H.locaFormat = loca := by
  sorry

/-- the `os2.Info` as `os2.Read` returns it: the empty vendor id comes back as four spaces -/
def os2Read (o : Os2Rec) (x : Os2Extra) : Metrics.Os2 := { os2Of o x with vendor := [32, 32, 32, 32] }

/-- OS/2 on the domain of C12 (REGULAR excludes BOLD/ITALIC, heights ≥ 0, fsType 0..3, ranges) -/
theorem os2_table (o : Os2Rec) (x : Os2Extra) (d : Metrics.Os2Dom (os2Read o x)) :
    Metrics.decodeOs2 (Metrics.encodeOs2 (os2Of o x)) = .ok (os2Read o x) ∧
    recOfOs2 (os2Read o x) = codecOs2 o := by
  sorry

/-- post (version 3.0: no glyph names) -/
theorem post_table (p : PostRec) (hp : isInt16 p.underlinePosition) (ht : isInt16 p.underlineThickness) :
    Metrics.decodePost (Metrics.encodePost 0x00030000 (postHdrOf p)) = .ok (0x00030000, postHdrOf p) ∧
    recOfPostHdr (postHdrOf p) = codecPost p := by
  sorry

/-- maxp (TrueType form) -/
theorem maxp_table (n : Nat) (ttf : List Nat) (h1 : 1 ≤ n) (h2 : n < 65536)
    (ht : ttf.length = 13 ∧ ∀ v ∈ ttf, v < 65536) :
    ∃ b, Metrics.encodeMaxp ⟨n, some ttf⟩ = .ok b ∧ Metrics.decodeMaxp b = .ok ⟨n, some ttf⟩ := by
  sorry

/-- hhea + hmtx as makeHmtx builds them -/
theorem hmtx_table (ws : List Int) (es : List Metrics.Rect) (asc desc gap rise run : Int)
    (hne : ws ≠ []) (hn : ws.length < 65536) (hlen : es.length = ws.length)
    (hw : ∀ w ∈ ws, isInt16 w) (he : ∀ e ∈ es, isInt16 e.llx)
    (ha : isInt16 asc) (hd : isInt16 desc) (hg : isInt16 gap) (hr : isInt16 rise) (hu : isInt16 run) :
    ∃ hhea hmtx d, Metrics.encode ⟨some ws, some es, none, asc, desc, gap, 0⟩ rise run = .ok (hhea, some hmtx) ∧
      Metrics.decode hhea (some hmtx) = .ok d ∧ d.widths = ws ∧ d.ascent = asc ∧ d.descent = desc ∧
      d.lineGap = gap ∧ d.rise = rise ∧ d.run = run := by
  sorry

/-- name: the table `makeName` builds, written as bytes and decoded, yields the same twelve strings
under Windows en-US, which is the table `Read` picks -/
theorem name_table (n : NameRec)
    (hd : SfntV.Props.C14.NameDomain (Names.sortLangs Gen.appleBCP) (Names.sortLangs Gen.msBCP) (nameEntries n) 1)
    (hsub : n.subfamily ≠ []) :
    ∃ dec, Names.nameDecode (bytesToNats (natsToBytes (Names.nameEncode (nameEntries n) 1))) = some dec ∧
      nameRecOf dec = some n := by
  sorry

/-- glyf + loca -/
theorem glyf_table (gs : Glyf.Glyphs) (h : SfntV.Props.C11.WFGlyphs gs) :
    ∃ e, Glyf.encode gs = .ok e ∧ Glyf.decode (e.fmt : Int) e.loca e.glyf = .ok gs :=
  SfntV.Props.C11.C11_roundtrip gs h

end SfntV.FontFile
