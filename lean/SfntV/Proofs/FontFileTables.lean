/-
C01 (bytes) — each table `Write` emits, decoded by the decoder `Read` uses, gives the record of the
font-level model after its codec normalisation (`codecHead`, `codecOs2`, `codecPost`, identity).
Adapters around the round-trip theorems of C12 (head, OS/2, post header, maxp, hhea/hmtx),
C14 (name) and C11 (glyf/loca).
-/
import SfntV.Model.FontFile
import SfntV.Proofs.FontRoundTrip
import SfntV.Proofs.MetricsHead
import SfntV.Proofs.MetricsOs2
import SfntV.Proofs.MetricsDerived
import SfntV.Proofs.NamesTable
import SfntV.Props.C11
import SfntV.Props.C09b
import SfntV.Proofs.NamesPost

namespace SfntV.FontFile
open SfntV SfntV.Font

/-- times whose `Unix() - zeroTime` does not wrap in int64 -/
def timeInRange (t : Time) : Prop := -4611686018427387904 < t.sec ∧ t.sec < 4611686018427387904

theorem time_bridge (t : Time) (h : timeInRange t) :
    ofGoTime (Metrics.decodeTime (Metrics.encodeTime (goTime t))) = decodeTime (encodeTime t) := by
  obtain ⟨h1, h2⟩ := h
  obtain ⟨sec, nsec⟩ := t
  simp only at h1 h2
  have hz : (goTime ⟨sec, nsec⟩).isZero = (Time.isZero ⟨sec, nsec⟩) := rfl
  unfold Metrics.encodeTime Font.encodeTime
  rw [hz]
  cases hzz : Time.isZero ⟨sec, nsec⟩
  · simp only [Bool.false_eq_true, if_false, goTime]
    have hw : Metrics.wrap64 (sec - Gen.metricsZeroTime) = sec - epoch1904 := by
      unfold Metrics.wrap64 Gen.metricsZeroTime epoch1904; omega
    rw [hw]
    unfold Metrics.decodeTime Font.decodeTime
    by_cases he : sec - epoch1904 = 0
    · simp only [he, if_true]; rfl
    · simp only [he, if_false]
      have hw2 : Metrics.wrap64 (Gen.metricsZeroTime + (sec - epoch1904)) = epoch1904 + (sec - epoch1904) := by
        unfold Metrics.wrap64 Gen.metricsZeroTime epoch1904; omega
      rw [hw2]; rfl
  · simp only [if_true]
    rfl

/-! ### `head.Read` does not look at bytes 8..11 (checkSumAdjustment) -/

theorem be32_length (n : Nat) : (be32 n).length = 4 := rfl

theorem patchAdj_length (b : Bytes) (adj : UInt32) (hl : 12 ≤ b.length) :
    (Header.patchAdj b adj).length = b.length := by
  unfold Header.patchAdj
  simp only [List.length_append, List.length_take, List.length_drop, be32_length]
  omega

theorem patchAdj_getD (b : Bytes) (adj : UInt32) (k : Nat) (hk : k < 8 ∨ 12 ≤ k) (hl : 12 ≤ b.length) :
    (Header.patchAdj b adj).getD k 0 = b.getD k 0 := by
  unfold Header.patchAdj
  simp only [List.getD_eq_getElem?_getD]
  congr 1
  rcases hk with hk | hk
  · rw [List.append_assoc, List.getElem?_append_left (by simp only [List.length_take]; omega),
      List.getElem?_take_of_lt hk]
  · rw [List.getElem?_append_right (by simp only [List.length_append, List.length_take, be32_length]; omega),
      List.getElem?_drop]
    congr 1
    simp only [List.length_append, List.length_take, be32_length]
    omega

theorem patchAdj_rdU8 (b : Bytes) (adj : UInt32) (k : Nat) (hk : k < 8 ∨ 12 ≤ k) (hl : 12 ≤ b.length) :
    Metrics.rdU8 (Header.patchAdj b adj) k = Metrics.rdU8 b k := by
  unfold Metrics.rdU8; rw [patchAdj_getD b adj k hk hl]

theorem patchAdj_rdU16 (b : Bytes) (adj : UInt32) (k : Nat) (hk : k + 1 < 8 ∨ 12 ≤ k) (hl : 12 ≤ b.length) :
    Metrics.rdU16 (Header.patchAdj b adj) k = Metrics.rdU16 b k := by
  unfold Metrics.rdU16
  rw [patchAdj_rdU8 b adj k (by omega) hl, patchAdj_rdU8 b adj (k + 1) (by omega) hl]

theorem patchAdj_rdI16 (b : Bytes) (adj : UInt32) (k : Nat) (hk : k + 1 < 8 ∨ 12 ≤ k) (hl : 12 ≤ b.length) :
    Metrics.rdI16 (Header.patchAdj b adj) k = Metrics.rdI16 b k := by
  unfold Metrics.rdI16; rw [patchAdj_rdU16 b adj k hk hl]

theorem patchAdj_rdU32 (b : Bytes) (adj : UInt32) (k : Nat) (hk : k + 3 < 8 ∨ 12 ≤ k) (hl : 12 ≤ b.length) :
    Metrics.rdU32 (Header.patchAdj b adj) k = Metrics.rdU32 b k := by
  unfold Metrics.rdU32
  rw [patchAdj_rdU16 b adj k (by omega) hl, patchAdj_rdU16 b adj (k + 2) (by omega) hl]

theorem patchAdj_rdI64 (b : Bytes) (adj : UInt32) (k : Nat) (hk : k + 7 < 8 ∨ 12 ≤ k) (hl : 12 ≤ b.length) :
    Metrics.rdI64 (Header.patchAdj b adj) k = Metrics.rdI64 b k := by
  unfold Metrics.rdI64 Metrics.rdU64
  rw [patchAdj_rdU32 b adj k (by omega) hl, patchAdj_rdU32 b adj (k + 4) (by omega) hl]

/-- `head.Read` never looks at the checksum adjustment -/
theorem decodeHead_patchAdj (b : Bytes) (adj : UInt32) (hl : 12 ≤ b.length) :
    Metrics.decodeHead (Header.patchAdj b adj) = Metrics.decodeHead b := by
  unfold Metrics.decodeHead
  simp only [patchAdj_length b adj hl,
    patchAdj_rdU32 b adj 0 (by omega) hl, patchAdj_rdU32 b adj 4 (by omega) hl,
    patchAdj_rdU32 b adj 12 (by omega) hl,
    patchAdj_rdU16 b adj 16 (by omega) hl, patchAdj_rdU16 b adj 18 (by omega) hl,
    patchAdj_rdU16 b adj 44 (by omega) hl, patchAdj_rdU16 b adj 46 (by omega) hl,
    patchAdj_rdI64 b adj 20 (by omega) hl, patchAdj_rdI64 b adj 28 (by omega) hl,
    patchAdj_rdI16 b adj 36 (by omega) hl, patchAdj_rdI16 b adj 38 (by omega) hl,
    patchAdj_rdI16 b adj 40 (by omega) hl, patchAdj_rdI16 b adj 42 (by omega) hl,
    patchAdj_rdI16 b adj 50 (by omega) hl]

theorem encodeHead_length (H : Metrics.Head) : (Metrics.encodeHead H).length = 54 := by
  simp only [Metrics.encodeHead, Metrics.i64enc, Metrics.be64, Metrics.i16enc, be32, be16,
    List.length_append, List.length_cons, List.length_nil]

/-- head: the table as stored in the file (checksum adjustment patched in by `header.Write`)
decodes to `codecHead` of the record, and keeps the loca format -/
theorem head_table (h : HeadRec) (bbox : Metrics.Rect) (loca : Int) (adj : UInt32)
    (d : Metrics.HeadDom (headOf h bbox loca)) (hc : timeInRange h.created) (hm : timeInRange h.modified) :
    ∃ H, Metrics.decodeHead (Header.patchAdj (Metrics.encodeHead (headOf h bbox loca)) adj) = .ok H ∧
      recOfHead H = codecHead h ∧ H.locaFormat = loca := by
  rw [decodeHead_patchAdj _ adj (by rw [encodeHead_length]; omega)]
  refine ⟨_, Metrics.head_roundtrip (headOf h bbox loca) d, ?_, rfl⟩
  unfold recOfHead codecHead
  simp only [headOf, time_bridge h.created hc, time_bridge h.modified hm]

/-- the `os2.Info` as `os2.Read` returns it: the empty vendor id comes back as four spaces -/
def os2Read (o : Os2Rec) (x : Os2Extra) : Metrics.Os2 := { os2Of o x with vendor := [32, 32, 32, 32] }

/-- OS/2 on the domain of C12 (REGULAR excludes BOLD/ITALIC, heights ≥ 0, fsType 0..3, ranges) -/
theorem os2_table (o : Os2Rec) (x : Os2Extra) (d : Metrics.Os2Dom (os2Read o x)) :
    Metrics.decodeOs2 (Metrics.encodeOs2 (os2Of o x)) = .ok (os2Read o x) ∧
    recOfOs2 (os2Read o x) = codecOs2 o := by
  have henc : Metrics.encodeOs2 (os2Of o x) = Metrics.encodeOs2 (os2Read o x) := rfl
  rw [henc]
  refine ⟨Metrics.os2_roundtrip _ d, ?_⟩
  have hreg := d.reg
  have hcap := d.cap0
  have hxh := d.xh0
  have hperm := d.perm
  simp only [os2Read, os2Of] at hreg hcap hxh hperm
  have hfix : codecOs2 o = o := by
    obtain ⟨wt, wd, bold, ital, reg, obl, asc, des, gap, cap, xh, avg, fc, cpr, perm⟩ := o
    simp only at hreg hcap hxh hperm
    unfold codecOs2
    simp only [Os2Rec.mk.injEq, true_and]
    refine ⟨?_, ?_, ?_, ?_, ?_⟩
    · cases reg <;> cases bold <;> simp_all
    · cases reg <;> cases ital <;> simp_all
    · split <;> omega
    · split <;> omega
    · split <;> omega
  rw [hfix]; rfl

/-- post (version 3.0: no glyph names) -/
theorem post_table (p : PostRec) (hp : isInt16 p.underlinePosition) (ht : isInt16 p.underlineThickness) :
    Metrics.decodePost (Metrics.encodePost 0x00030000 (postHdrOf p)) = .ok (0x00030000, postHdrOf p) ∧
    recOfPostHdr (postHdrOf p) = codecPost p := by
  refine ⟨Metrics.post_roundtrip 0x00030000 (postHdrOf p) (Or.inr (Or.inl rfl)) ?_ hp ht, rfl⟩
  have := toInt32_range p.italicAngle.round16
  simp only [postHdrOf]
  omega

/-- maxp (TrueType form) -/
theorem maxp_table (n : Nat) (ttf : List Nat) (h1 : 1 ≤ n) (h2 : n < 65536)
    (ht : ttf.length = 13 ∧ ∀ v ∈ ttf, v < 65536) :
    ∃ b, Metrics.encodeMaxp ⟨n, some ttf⟩ = .ok b ∧ Metrics.decodeMaxp b = .ok ⟨n, some ttf⟩ :=
  Metrics.maxp_roundtrip ⟨n, some ttf⟩ ⟨by simp only; omega, by simp only; omega⟩
    (fun vs hvs => by
      simp only [Option.some.injEq] at hvs
      subst hvs
      exact ht)

/-- hhea + hmtx as makeHmtx builds them -/
theorem hmtx_table (ws : List Int) (es : List Metrics.Rect) (asc desc gap rise run : Int)
    (hne : ws ≠ []) (hn : ws.length < 65536) (hlen : es.length = ws.length)
    (hw : ∀ w ∈ ws, isInt16 w) (he : ∀ e ∈ es, isInt16 e.llx)
    (ha : isInt16 asc) (hd : isInt16 desc) (hg : isInt16 gap) (hr : isInt16 rise) (hu : isInt16 run) :
    ∃ hhea hmtx d, Metrics.encode ⟨some ws, some es, none, asc, desc, gap, 0⟩ rise run = .ok (hhea, some hmtx) ∧
      Metrics.decode hhea (some hmtx) = .ok d ∧ d.widths = ws ∧ d.ascent = asc ∧ d.descent = desc ∧
      d.lineGap = gap ∧ d.rise = rise ∧ d.run = run := by
  obtain ⟨hhea, hmtx, d, h1, h2, h3, h4, h5, h6, _, _, h9, h10⟩ :=
    Metrics.makeHmtx_roundtrip ws es asc desc gap rise run hne hn hlen hw he ha hd hg hr hu
  exact ⟨hhea, hmtx, d, h1, h2, h3, h4, h5, h6, h9, h10⟩

/-! ### name: the encoder emits bytes -/

theorem bytesToNats_natsToBytes (l : List Nat) (h : ∀ x ∈ l, x < 256) : bytesToNats (natsToBytes l) = l := by
  induction l with
  | nil => rfl
  | cons a rest ih =>
    have ha : a < 256 := h a List.mem_cons_self
    have ih' := ih (fun x hx => h x (List.mem_cons_of_mem _ hx))
    simp only [bytesToNats, natsToBytes, List.map_cons, List.map_map] at ih' ⊢
    rw [ih']
    congr 1
    simp only [UInt8.toNat_ofNat']
    omega

theorem u16_lt (n : Nat) : ∀ x ∈ Names.u16 n, x < 256 := by
  intro x hx
  simp only [Names.u16, List.mem_cons, List.not_mem_nil, or_false] at hx
  omega

theorem macEncodeOne_lt (r : Nat) : Names.macEncodeOne r < 256 := by
  unfold Names.macEncodeOne Names.macEncodeOneWith
  split
  · omega
  · split
    · next c hc =>
      have hall := List.all_eq_true.mp Names.mac_enc_entries _ (Names.assocGet_mem hc)
      simp only [Bool.and_eq_true, decide_eq_true_eq] at hall
      exact hall.2
    · decide

theorem macEncode_lt_all (rr : List Nat) : ∀ c ∈ Names.macEncode rr, c < 256 := by
  intro c hc
  simp only [Names.macEncode, Names.macEncodeWith, List.mem_map] at hc
  obtain ⟨r, _, rfl⟩ := hc
  exact macEncodeOne_lt r

theorem utf16Encode_lt_all (rr : List Nat) : ∀ c ∈ Names.utf16Encode rr, c < 256 := by
  intro c hc
  simp only [Names.utf16Encode, List.mem_flatMap, List.mem_cons, List.not_mem_nil, or_false] at hc
  obtain ⟨u, _, hu⟩ := hc
  omega

theorem add_data_lt (b : Names.Builder) (s : List Nat) (hb : ∀ x ∈ b.data, x < 256) (hs : ∀ x ∈ s, x < 256) :
    ∀ x ∈ (b.add s).1.data, x < 256 := by
  unfold Names.Builder.add
  split
  · exact hb
  · intro x hx
    simp only [List.mem_append] at hx
    rcases hx with hx | hx
    · exact hb x hx
    · exact hs x hx

theorem addTable_data_lt (pid eid lang : Nat) (enc : List Nat → List Nat) (henc : ∀ v, ∀ x ∈ enc v, x < 256)
    (kvs : List (Nat × List Nat)) (b : Names.Builder) (hb : ∀ x ∈ b.data, x < 256) :
    ∀ x ∈ (Names.addTable pid eid lang enc kvs b).1.data, x < 256 := by
  induction kvs generalizing b with
  | nil => exact hb
  | cons kv rest ih =>
    obtain ⟨nid, val⟩ := kv
    simp only [Names.addTable]
    exact ih _ (add_data_lt b (enc val) hb (henc val))

theorem addLangs_data_lt (pid eid : Nat) (enc : List Nat → List Nat) (henc : ∀ v, ∀ x ∈ enc v, x < 256)
    (info : List Names.Entry) (order : List (Nat × String)) (b : Names.Builder) (hb : ∀ x ∈ b.data, x < 256) :
    ∀ x ∈ (Names.addLangs pid eid enc info order b).1.data, x < 256 := by
  induction order generalizing b with
  | nil => exact hb
  | cons lt rest ih =>
    obtain ⟨lang, tag⟩ := lt
    simp only [Names.addLangs]
    exact ih _ (addTable_data_lt pid eid lang enc henc _ b hb)

theorem recBytes_lt (r : Names.Rec) : ∀ x ∈ Names.recBytes r, x < 256 := by
  intro x hx
  simp only [Names.recBytes, List.mem_append] at hx
  rcases hx with hx | hx | hx | hx | hx | hx <;> exact u16_lt _ x hx

/-- `(*Info).Encode` produces bytes, for every `name.Info` -/
theorem nameEncodeWith_lt (mo wo : List (Nat × String)) (info : List Names.Entry) (eid : Nat) :
    ∀ x ∈ Names.nameEncodeWith mo wo info eid, x < 256 := by
  intro x hx
  simp only [Names.nameEncodeWith, List.mem_append, List.mem_flatMap] at hx
  rcases hx with hx | hx | hx | hx | hx
  · simp only [List.mem_cons, List.not_mem_nil, or_false] at hx; omega
  · exact u16_lt _ x hx
  · exact u16_lt _ x hx
  · obtain ⟨r, _, hr⟩ := hx
    exact recBytes_lt r x hr
  · unfold Names.nameBuild at hx
    exact addLangs_data_lt 3 eid _ utf16Encode_lt_all info wo _
      (addLangs_data_lt 1 0 _ macEncode_lt_all info mo _ (by intro y hy; cases hy)) x hx


/-! ### name: the view of `nameEntries` -/

/-- the `name.Info` of makeName over an arbitrary list of (name id, string) -/
def entriesOf (l : List (Nat × Str)) : List Names.Entry :=
  ((l.filter fun p => !p.2.isEmpty).map fun p => ⟨1, "en", p.1, p.2.map Char.toNat⟩) ++
  ((l.filter fun p => !p.2.isEmpty).map fun p => ⟨3, "en-US", p.1, p.2.map Char.toNat⟩)

theorem nameEntries_eq (n : NameRec) : nameEntries n = entriesOf (nameFields n) := rfl

theorem key_unique (l : List (Nat × Str)) (hn : (l.map (·.1)).Nodup) (i : Nat) (s s' : Str)
    (h : (i, s) ∈ l) (h' : (i, s') ∈ l) : s = s' := by
  induction l with
  | nil => cases h
  | cons q rest ih =>
    simp only [List.map_cons, List.nodup_cons, List.mem_map, not_exists, not_and] at hn
    simp only [List.mem_cons] at h h'
    rcases h with rfl | h <;> rcases h' with h' | h'
    · exact (Prod.mk.inj h').2.symm
    · exact absurd rfl (hn.1 (i, s') h')
    · subst h'; exact absurd rfl (hn.1 (i, s) h)
    · exact ih hn.2 h h'

theorem getVal_entriesOf (l : List (Nat × Str)) (hn : (l.map (·.1)).Nodup) (i : Nat) (s : Str)
    (h : (i, s) ∈ l) : Names.getVal (entriesOf l) 3 "en-US" i = s.map Char.toNat := by
  apply Names.getVal_of_all
  · intro x hx hp _ hi
    simp only [entriesOf, List.mem_append, List.mem_map, List.mem_filter] at hx
    rcases hx with ⟨q, _, rfl⟩ | ⟨q, ⟨hq, _⟩, rfl⟩
    · simp only at hp; omega
    · simp only at hi ⊢
      obtain ⟨qi, qs⟩ := q
      simp only at hi
      subst hi
      rw [key_unique l hn qi qs s hq h]
  · intro hv
    refine ⟨⟨3, "en-US", i, s.map Char.toNat⟩, ?_, rfl, rfl, rfl⟩
    simp only [entriesOf, List.mem_append, List.mem_map, List.mem_filter]
    refine Or.inr ⟨(i, s), ⟨h, ?_⟩, rfl⟩
    cases s with
    | nil => exact absurd rfl hv
    | cons c cs => rfl

theorem strOfRunes_toNat (s : Str) : strOfRunes (s.map Char.toNat) = s := by
  induction s with
  | nil => rfl
  | cons c cs ih =>
    simp only [strOfRunes, List.map_cons, List.map_map] at ih ⊢
    rw [ih, Char.ofNat_toNat]

theorem nameFields_nodup (n : NameRec) : ((nameFields n).map (·.1)).Nodup := by
  simp only [nameFields, List.map_cons, List.map_nil]
  decide

/-- name: the table `makeName` builds, written as bytes and decoded, yields the same twelve strings
under Windows en-US, which is the table `Read` picks.  The hypothesis is
`SfntV.Props.C14.NameDomain (sortLangs appleBCP) (sortLangs msBCP) (nameEntries n) 1` unfolded
(this file does not import `Props.C14`). -/
theorem name_table (n : NameRec)
    (hd : Names.NameDom Gen.appleBCP Gen.msBCP (Names.sortLangs Gen.appleBCP) (Names.sortLangs Gen.msBCP)
      (nameEntries n) 1)
    (hsub : n.subfamily ≠ []) :
    ∃ dec, Names.nameDecode (bytesToNats (natsToBytes (Names.nameEncode (nameEntries n) 1))) = some dec ∧
      nameRecOf dec = some n := by
  obtain ⟨dec, hdec, hget⟩ := Names.name_roundtrip_with Gen.appleBCP Gen.msBCP _ _ (nameEntries n) 1 hd
  have hg : ∀ i s, (i, s) ∈ nameFields n → strOfRunes (Names.getVal dec 3 "en-US" i) = s := by
    intro i s hm
    rw [hget, nameEntries_eq, getVal_entriesOf _ (nameFields_nodup n) i s hm, strOfRunes_toNat]
  refine ⟨dec, ?_, ?_⟩
  · unfold Names.nameEncode Names.nameDecode
    rw [bytesToNats_natsToBytes _ (nameEncodeWith_lt _ _ _ _)]
    exact hdec
  · have hany : dec.any (fun e => e.plat == 3 && e.tag == "en-US") = true := by
      have hne : Names.getVal dec 3 "en-US" 2 ≠ [] := by
        rw [hget, nameEntries_eq,
          getVal_entriesOf _ (nameFields_nodup n) 2 n.subfamily (by simp [nameFields])]
        intro h
        exact hsub (List.map_eq_nil_iff.1 h)
      obtain ⟨e, he, h1, h2, _⟩ := Names.getVal_ne_nil_mem dec 3 "en-US" 2 hne
      exact List.any_eq_true.2 ⟨e, he, by simp [h1, h2]⟩
    unfold nameRecOf
    simp only [hany, if_true]
    rw [hg 0 n.copyright (by simp [nameFields]), hg 1 n.family (by simp [nameFields]),
      hg 2 n.subfamily (by simp [nameFields]), hg 3 n.identifier (by simp [nameFields]),
      hg 4 n.fullName (by simp [nameFields]), hg 5 n.version (by simp [nameFields]),
      hg 6 n.postScriptName (by simp [nameFields]), hg 7 n.trademark (by simp [nameFields]),
      hg 10 n.description (by simp [nameFields]), hg 13 n.license (by simp [nameFields]),
      hg 14 n.licenseURL (by simp [nameFields]), hg 19 n.sampleText (by simp [nameFields])]

/-- glyf + loca -/
theorem glyf_table (gs : Glyf.Glyphs) (h : SfntV.Props.C11.WFGlyphs gs) :
    ∃ e, Glyf.encode gs = .ok e ∧ Glyf.decode (e.fmt : Int) e.loca e.glyf = .ok gs :=
  SfntV.Props.C11.C11_roundtrip gs h

/-! ## stage 2: cmap table and post table with glyph names -/

/-- cmap (C09): the table of subtables survives `Table.Encode` / `cmap.Decode` -/
theorem cmap_table (t : CmapTable.Table) (hv : ∀ kd ∈ t, CmapTable.ValidSub kd.1 kd.2) (hn : t.length < 65536)
    (hsz : (CmapTable.encode t).length < 4294967296) :
    CmapTable.decode (CmapTable.encode t) = .ok t :=
  SfntV.C09b.C09_table_roundtrip t hv hn hsz

/-- guards of C14's post round trip on the glyph names -/
def NamesOK (names : Option (List Names.GName)) : Prop :=
  ∀ ns, names = some ns →
    ns.length ≤ 65535 ∧ (∀ n ∈ ns, n.length ≤ 255 ∧ ∀ c ∈ n, c < 256) ∧
    Names.postTable.length + Names.customCount Names.postTable ns ≤ 65536

/-! ### post: the encoder emits bytes; the header adapter -/

theorem u32_lt (n : Nat) : ∀ x ∈ Names.u32 n, x < 256 := by
  intro x hx
  simp only [Names.u32, List.mem_cons, List.not_mem_nil, or_false] at hx
  omega

theorem postHeader_lt (v : Nat) (h : Names.PostHdr) : ∀ x ∈ Names.postHeader v h, x < 256 := by
  intro x hx
  simp only [Names.postHeader, List.mem_append, List.mem_replicate] at hx
  rcases hx with hx | hx | hx | hx | hx | hx
  · exact u32_lt _ x hx
  · exact u32_lt _ x hx
  · exact u16_lt _ x hx
  · exact u16_lt _ x hx
  · exact u32_lt _ x hx
  · omega

theorem postEncodeNames_data_lt (tbl : List Names.GName) (ns : List Names.GName) (k : Nat)
    (h : ∀ n ∈ ns, ∀ c ∈ n, c < 256) : ∀ x ∈ (Names.postEncodeNames tbl ns k).2, x < 256 := by
  induction ns generalizing k with
  | nil => intro x hx; cases hx
  | cons n rest ih =>
    have ihr := fun k => ih k (fun m hm => h m (List.mem_cons_of_mem _ hm))
    have hn := h n List.mem_cons_self
    unfold Names.postEncodeNames
    split
    · exact ihr k
    · intro x hx
      simp only [List.mem_cons, List.mem_append] at hx
      rcases hx with hx | hx | hx
      · omega
      · exact hn x hx
      · exact ihr (k + 1) x hx

theorem postEncodeWith_lt (tbl : List Names.GName) (h : Names.PostHdr) (names : Option (List Names.GName))
    (hc : ∀ ns, names = some ns → ∀ n ∈ ns, ∀ c ∈ n, c < 256) :
    ∀ x ∈ Names.postEncodeWith tbl h names, x < 256 := by
  unfold Names.postEncodeWith
  cases names with
  | none => exact postHeader_lt _ h
  | some ns =>
    simp only
    split
    · exact postHeader_lt _ h
    · intro x hx
      simp only [List.mem_append, List.mem_flatMap] at hx
      rcases hx with hx | hx | ⟨i, _, hx⟩ | hx
      · exact postHeader_lt _ h x hx
      · exact u16_lt _ x hx
      · exact u16_lt _ x hx
      · exact postEncodeNames_data_lt tbl ns 0 (hc ns rfl) x hx

theorem postHdrN_inRange (p : PostRec) : (postHdrN p).InRange := by
  unfold Names.PostHdr.InRange postHdrN
  simp only
  omega

theorem i32ofNat_emod (x : Int) (h1 : -2147483648 ≤ x) (h2 : x < 2147483648) :
    Metrics.i32ofNat ((x % 4294967296).toNat) = x := by
  unfold Metrics.i32ofNat
  split <;> omega

theorem i16ofNat_emod (x : Int) (h : isInt16 x) : Metrics.i16ofNat ((x % 65536).toNat) = x := by
  unfold isInt16 at h
  unfold Metrics.i16ofNat
  split <;> omega

theorem recOfPostHdrN_postHdrN (p : PostRec) (hp : isInt16 p.underlinePosition)
    (ht : isInt16 p.underlineThickness) : recOfPostHdrN (postHdrN p) = codecPost p := by
  have hr := toInt32_range p.italicAngle.round16
  obtain ⟨ang, up, ut, fx⟩ := p
  simp only at hp ht hr
  simp only [recOfPostHdrN, postHdrN, codecPost, i32ofNat_emod _ hr.1 hr.2, i16ofNat_emod _ hp,
    i16ofNat_emod _ ht]

/-- post (C14, all versions): header and glyph names as `post.Read` returns them; the header is
`codecPost` of the record -/
theorem post_names_table (p : PostRec) (names : Option (List Names.GName))
    (hp : isInt16 p.underlinePosition) (ht : isInt16 p.underlineThickness) (hn : NamesOK names) :
    decodePostFull (natsToBytes (Names.postEncode (postHdrN p) names)) = .ok (codecPost p, names) := by
  unfold decodePostFull Names.postEncode Names.postRead
  rw [bytesToNats_natsToBytes _ (postEncodeWith_lt _ _ _ (fun ns hns n hm => ((hn ns hns).2.1 n hm).2))]
  cases names with
  | none =>
    rw [Names.post_roundtrip_nil _ _ (postHdrN_inRange p)]
    simp only [recOfPostHdrN_postHdrN p hp ht]
  | some ns =>
    obtain ⟨h1, h2, h3⟩ := hn ns rfl
    rw [Names.post_roundtrip_with _ _ (postHdrN_inRange p) ns h1 (fun n hm => (h2 n hm).1) h3]
    simp only [recOfPostHdrN_postHdrN p hp ht]

end SfntV.FontFile
