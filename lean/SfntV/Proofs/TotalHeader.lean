/-
C02 (decoders are total): proofs about the checked-index model of `header.Read`
(`SfntV.Total.Header.read`): no panic for any input and any table limit, explicit cost bound for
the limit 280 used by the library, agreement with the value-level model of C03.
-/
import SfntV.Model.TotalHeader
import SfntV.Proofs.TotalGdef

namespace SfntV.Total.Header
open SfntV SfntV.Total
open SfntV.Total.Gdef (idx_ok ok_bind pure_bind' bind_noPanic bind_eq_ok w16_ok w16_lt w32_ok mkSlice_ok)

theorem readFull_noPanic (b : Bytes) (pos n : Nat) : (readFull b pos n).noPanic := by
  unfold readFull
  split <;> exact True.intro

theorem readFull_ok_length {b : Bytes} {pos n : Nat} {w : Bytes}
    (h : readFull b pos n = .ok w) : w.length = n ∧ pos + n ≤ b.length := by
  unfold readFull at h
  split at h
  · rename_i hle
    cases h
    refine ⟨?_, hle⟩
    simp only [List.length_take, List.length_drop]
    omega
  · cases h

/-! ## the loops -/

theorem nameOk_ok (buf : Bytes) : ∀ (k i : Nat), i + k ≤ buf.length → ∃ r, nameOk buf k i = .ok r
  | 0, _, _ => ⟨true, rfl⟩
  | k+1, i, h => by
    unfold nameOk
    rw [idx_ok _ buf i (by omega), ok_bind]
    split
    · exact ⟨false, rfl⟩
    · exact nameOk_ok buf k (i + 1) (by omega)

theorem records_noPanic (f : Bytes) : ∀ (fuel i : Nat) (acc : List Rec) (c : Cost),
    (records f fuel i acc c).noPanic
  | 0, _, _, _ => True.intro
  | fuel+1, i, acc, c => by
    unfold records
    refine bind_noPanic (readFull_noPanic _ _ _) (fun buf hbuf => ?_)
    obtain ⟨hl, _⟩ := readFull_ok_length hbuf
    obtain ⟨r, hr⟩ := nameOk_ok buf 4 0 (by omega)
    obtain ⟨o, ho⟩ := w32_ok "tables.go:106#buf[8..11]" buf 8 (by omega)
    obtain ⟨l, hl'⟩ := w32_ok "tables.go:107#buf[12..15]" buf 12 (by omega)
    rw [hr, ok_bind]
    split
    · exact True.intro
    rw [ho, ok_bind, hl', ok_bind]
    split
    · exact True.intro
    · exact records_noPanic f fuel (i + 1) _ _

theorem records_ok (f : Bytes) : ∀ (fuel i : Nat) (acc : List Rec) (c : Cost) (recs : List Rec)
    (c' : Cost), records f fuel i acc c = .ok (recs, c') →
    recs.length = acc.length + fuel ∧ c'.steps = c.steps + fuel ∧ c'.alloc = c.alloc + 2 * fuel
  | 0, _, acc, c, recs, c', h => by
    unfold records at h
    cases h
    simp
  | fuel+1, i, acc, c, recs, c', h => by
    unfold records at h
    obtain ⟨buf, _, h⟩ := bind_eq_ok h
    obtain ⟨r, _, h⟩ := bind_eq_ok h
    split at h
    · cases h
    obtain ⟨o, _, h⟩ := bind_eq_ok h
    obtain ⟨l, _, h⟩ := bind_eq_ok h
    split at h
    · cases h
    have ih := records_ok f fuel (i + 1) _ _ recs c' h
    simp only [List.length_cons, Cost.tick, Cost.mem] at ih
    omega

theorem overlapScan_noPanic (cov : List (Nat × Nat)) : ∀ (k i : Nat) (c : Cost),
    1 ≤ i → i + k ≤ cov.length → (overlapScan cov k i c).noPanic
  | 0, _, _, _, _ => True.intro
  | k+1, i, c, h1, h => by
    unfold overlapScan
    rw [idx_ok _ cov (i - 1) (by omega), ok_bind, idx_ok _ cov i (by omega), ok_bind]
    split
    · exact True.intro
    · exact overlapScan_noPanic cov k (i + 1) _ (by omega) (by omega)

theorem overlapScan_cost (cov : List (Nat × Nat)) : ∀ (k i : Nat) (c : Cost) (ov : Bool) (c' : Cost),
    overlapScan cov k i c = .ok (ov, c') → c'.steps ≤ c.steps + k ∧ c'.alloc = c.alloc
  | 0, _, c, ov, c', h => by
    unfold overlapScan at h
    cases h
    simp
  | k+1, i, c, ov, c', h => by
    unfold overlapScan at h
    obtain ⟨a, _, h⟩ := bind_eq_ok h
    obtain ⟨b, _, h⟩ := bind_eq_ok h
    split at h
    · cases h
      refine ⟨?_, rfl⟩
      show c.steps + 1 ≤ c.steps + (k + 1)
      omega
    · have ih := overlapScan_cost cov k (i + 1) _ ov c' h
      simp only [Cost.tick] at ih
      omega

/-! ## `header.Read` never panics -/

theorem read_noPanic (mt : Nat) (f : Bytes) : (read mt f).noPanic := by
  unfold read
  refine bind_noPanic (readFull_noPanic _ _ _) (fun buf hbuf => ?_)
  obtain ⟨hl, _⟩ := readFull_ok_length hbuf
  obtain ⟨sc, hsc⟩ := w32_ok "tables.go:64#buf[0..3]" buf 0 (by omega)
  obtain ⟨n, hn, hnlt⟩ := w16_ok "tables.go:65#buf[4],buf[5]" buf 4 (by omega)
  rw [hsc, ok_bind, hn, ok_bind]
  split
  · exact True.intro
  split
  · exact True.intro
  rw [mkSlice_ok _ _ _ hnlt, ok_bind]
  refine bind_noPanic (records_noPanic _ _ _ _ _) (fun ⟨recs, c1⟩ hrecs => ?_)
  dsimp only
  split
  · exact True.intro
  rename_i hne
  generalize hcov : List.mergeSort _ _ = cov
  have hlen : cov.length = recs.length := by
    rw [← hcov, List.length_mergeSort, List.length_map]
  have hpos : 0 < cov.length := by
    rw [hlen]
    cases recs with
    | nil => exact absurd rfl hne
    | cons _ _ => simp
  rw [idx_ok _ cov 0 hpos, ok_bind]
  split
  · exact True.intro
  refine bind_noPanic (overlapScan_noPanic cov _ 1 _ (by omega) (by omega)) (fun ⟨ov, c2⟩ _ => ?_)
  dsimp only
  split
  · exact True.intro
  rw [idx_ok _ cov (cov.length - 1) (by omega), ok_bind]
  split
  · exact True.intro
  split <;> exact True.intro

/-! ## cost bound for the library's limit of 280 tables -/

theorem read_cost (f : Bytes) (r : Nat × List Rec) (c : Cost) (h : read 280 f = .ok (r, c)) :
    c.steps ≤ 3100 ∧ c.alloc ≤ 840 := by
  unfold read at h
  obtain ⟨buf, _, h⟩ := bind_eq_ok h
  obtain ⟨sc, _, h⟩ := bind_eq_ok h
  obtain ⟨n, _, h⟩ := bind_eq_ok h
  split at h
  · cases h
  split at h
  · cases h
  rename_i hn
  obtain ⟨c0, h0, h⟩ := bind_eq_ok h
  have k0 : c0 = (Cost.zero.tick).mem n := by
    unfold mkSlice at h0
    split at h0
    · cases h0
    · cases h0; rfl
  obtain ⟨⟨recs, c1⟩, h1, h⟩ := bind_eq_ok h
  obtain ⟨hrl, k1s, k1a⟩ := records_ok _ _ _ _ _ _ _ h1
  dsimp only at h
  split at h
  · cases h
  rename_i hne
  generalize hcov : List.mergeSort _ _ = cov at h
  have hlen : cov.length = n := by
    rw [← hcov, List.length_mergeSort, List.length_map, hrl]
    simp
  have hpos : n ≠ 0 := by
    intro h0
    rw [h0] at hrl
    cases recs with
    | nil => exact hne rfl
    | cons _ _ => simp at hrl
  rw [hlen] at h
  obtain ⟨first, _, h⟩ := bind_eq_ok h
  split at h
  · cases h
  obtain ⟨⟨ov, c2⟩, h2, h⟩ := bind_eq_ok h
  obtain ⟨k2s, k2a⟩ := overlapScan_cost _ _ _ _ _ _ h2
  dsimp only at h
  split at h
  · cases h
  obtain ⟨last, _, h⟩ := bind_eq_ok h
  split at h
  · cases h
  split at h
  · cases h
  cases h
  subst k0
  have hlog : Nat.log2 n < 9 := (Nat.log2_lt hpos).2 (by omega)
  have hmul : n * (Nat.log2 n + 1) ≤ 280 * 9 := Nat.mul_le_mul (by omega) (by omega)
  simp only [Cost.tick, Cost.mem, Cost.zero] at k1s k1a k2s k2a ⊢
  omega

/-! ## agreement with the value-level model of C03 -/

/-- forget the cost -/
def erase : Outcome (α × Cost) → Outcome α
  | .ok (a, _) => .ok a
  | .err e => .err e
  | .panic s => .panic s

theorem idx_drop (site : String) (l : List α) (i j : Nat) :
    idx site l (i + j) = idx site (l.drop i) j := by
  unfold idx
  rw [List.getElem?_drop]

theorem w32_eq (site : String) (l : Bytes) (i : Nat) (h : i + 4 ≤ l.length) :
    w32 site l i = .ok (beVal ((l.drop i).take 4)) := by
  unfold w32
  have h0 := idx_drop site l i 0
  rw [Nat.add_zero] at h0
  rw [h0, idx_drop site l i 1, idx_drop site l i 2, idx_drop site l i 3]
  have hm : 4 ≤ (l.drop i).length := by rw [List.length_drop]; omega
  generalize l.drop i = m at hm
  match m, hm with
  | a :: b :: c :: d :: r, _ =>
    simp only [idx, List.getElem?_cons_succ, List.getElem?_cons_zero, ok_bind, List.take_succ_cons,
      List.take_zero, beVal, List.length_cons, List.length_nil, Nat.zero_add, Nat.reduceAdd, Nat.reducePow]
    apply congrArg Outcome.ok
    omega

theorem w16_eq (site : String) (l : Bytes) (i : Nat) (h : i + 2 ≤ l.length) :
    w16 site l i = .ok (beVal ((l.drop i).take 2)) := by
  unfold w16
  have h0 := idx_drop site l i 0
  rw [Nat.add_zero] at h0
  rw [h0, idx_drop site l i 1]
  have hm : 2 ≤ (l.drop i).length := by rw [List.length_drop]; omega
  generalize l.drop i = m at hm
  match m, hm with
  | a :: b :: r, _ =>
    simp only [idx, List.getElem?_cons_succ, List.getElem?_cons_zero, ok_bind, List.take_succ_cons,
      List.take_zero, beVal, be, List.length_cons, List.length_nil, Nat.zero_add, Nat.reducePow]
    apply congrArg Outcome.ok
    omega

/-- a window of a window -/
theorem window (f : Bytes) (p k i m : Nat) (h : i + m ≤ k) :
    (((f.drop p).take k).drop i).take m = (f.drop (p + i)).take m := by
  rw [List.drop_take, List.take_take, List.drop_drop, Nat.min_eq_left (by omega)]

theorem nameOk_eq (buf : Bytes) : ∀ (k i : Nat), i + k ≤ buf.length →
    nameOk buf k i = .ok (!(((buf.drop i).take k).any (fun b => b < 0x20 || b > 0x7e)))
  | 0, _, _ => rfl
  | k+1, i, h => by
    unfold nameOk
    rw [idx_ok _ buf i (by omega), ok_bind, List.drop_eq_getElem_cons (by omega : i < buf.length),
      List.take_succ_cons, List.any_cons]
    by_cases hx : buf[i] < 0x20 ∨ buf[i] > 0x7e
    · rw [if_pos hx]
      have : (decide (buf[i] < 0x20) || decide (buf[i] > 0x7e)) = true := by simpa using hx
      rw [this]; rfl
    · rw [if_neg hx, nameOk_eq buf k (i + 1) (by omega)]
      have : (decide (buf[i] < 0x20) || decide (buf[i] > 0x7e)) = false := by simpa using hx
      rw [this]; rfl

theorem records_erase (f : Bytes) : ∀ (fuel i : Nat) (acc : List Rec) (c : Cost),
    erase (records f fuel i acc c) = SfntV.Header.read.go f i fuel acc
  | 0, _, _, _ => by
    unfold records SfntV.Header.read.go
    rfl
  | fuel+1, i, acc, c => by
    unfold records SfntV.Header.read.go
    dsimp only
    by_cases hlen : f.length < 12 + 16 * i + 16
    · rw [if_pos hlen]
      unfold readFull
      rw [if_neg (by omega)]
      rfl
    · rw [if_neg hlen]
      have hbuf : readFull f (12 + 16 * i) 16 = .ok ((f.drop (12 + 16 * i)).take 16) := by
        unfold readFull
        rw [if_pos (by omega)]
      have hbl : ((f.drop (12 + 16 * i)).take 16).length = 16 := by
        rw [List.length_take, List.length_drop]; omega
      rw [hbuf, ok_bind, nameOk_eq _ 4 0 (by omega), ok_bind, Bool.not_not,
        window f (12 + 16 * i) 16 0 4 (by omega), Nat.add_zero,
        w32_eq _ _ 8 (by omega), ok_bind, w32_eq _ _ 12 (by omega), ok_bind,
        window f (12 + 16 * i) 16 8 4 (by omega), window f (12 + 16 * i) 16 12 4 (by omega),
        List.take_take, Nat.min_eq_left (by omega : 4 ≤ 16)]
      split
      · rfl
      · split
        · rfl
        · exact records_erase f fuel (i + 1) _ _

theorem overlapScan_eq (cov : List (Nat × Nat)) : ∀ (k i : Nat) (c : Cost), 1 ≤ i →
    i + k = cov.length →
    ∃ c', overlapScan cov k i c = .ok (SfntV.Header.overlapping (cov.drop (i - 1)), c')
  | 0, i, c, h1, h => by
    refine ⟨c, ?_⟩
    rw [List.drop_eq_getElem_cons (by omega : i - 1 < cov.length),
      List.drop_eq_nil_of_le (by omega : cov.length ≤ i - 1 + 1)]
    rfl
  | k+1, i, c, h1, h => by
    unfold overlapScan
    rw [idx_ok _ cov (i - 1) (by omega), ok_bind, idx_ok _ cov i (by omega), ok_bind,
      List.drop_eq_getElem_cons (by omega : i - 1 < cov.length),
      show i - 1 + 1 = i by omega, List.drop_eq_getElem_cons (by omega : i < cov.length)]
    unfold SfntV.Header.overlapping
    split
    · rename_i hgt
      refine ⟨c.tick, ?_⟩
      rw [decide_eq_true hgt, Bool.true_or]
    · rename_i hgt
      obtain ⟨c', hc'⟩ := overlapScan_eq cov k (i + 1) c.tick (by omega) (by omega)
      refine ⟨c', ?_⟩
      rw [hc', decide_eq_false hgt, Bool.false_or, Nat.add_sub_cancel,
        List.drop_eq_getElem_cons (by omega : i < cov.length)]

theorem read_erase (mt : Nat) (f : Bytes) : erase (read mt f) = SfntV.Header.read mt f := by
  unfold read SfntV.Header.read
  by_cases hlen : f.length < 6
  · rw [if_pos hlen]
    unfold readFull
    rw [if_neg (by omega)]
    rfl
  rw [if_neg hlen]
  have hbuf : readFull f 0 6 = .ok ((f.drop 0).take 6) := by
    unfold readFull
    rw [if_pos (by omega)]
  have hbl : ((f.drop 0).take 6).length = 6 := by
    rw [List.length_take, List.length_drop]; omega
  have hn16 : SfntV.Header.rd16 f 4 < 65536 := by
    have := w16_eq "tables.go:65#buf[4],buf[5]" _ 4 (by omega : 4 + 2 ≤ ((f.drop 0).take 6).length)
    rw [window f 0 6 4 2 (by omega)] at this
    exact w16_lt this
  rw [hbuf, ok_bind, w32_eq _ _ 0 (by omega), ok_bind, w16_eq _ _ 4 (by omega), ok_bind,
    window f 0 6 0 4 (by omega), window f 0 6 4 2 (by omega)]
  rw [show beVal (List.take 2 (List.drop (0 + 4) f)) = SfntV.Header.rd16 f 4 from rfl,
    show beVal (List.take 4 (List.drop (0 + 0) f)) = SfntV.Header.rd32 f 0 from rfl]
  dsimp only
  generalize SfntV.Header.rd16 f 4 = n at hn16 ⊢
  generalize SfntV.Header.rd32 f 0 = sc
  split
  · rfl
  split
  · rfl
  rw [mkSlice_ok _ _ _ hn16, ok_bind, ← records_erase f _ 0 [] ((Cost.zero.tick).mem n)]
  cases hrec : records f n 0 [] ((Cost.zero.tick).mem n) with
  | err e => rfl
  | panic s => rfl
  | ok p =>
    obtain ⟨recs, c1⟩ := p
    rw [ok_bind, show erase (Outcome.ok (recs, c1)) = Outcome.ok recs from rfl]
    dsimp only
    by_cases he : recs.isEmpty = true
    · rw [if_pos he, if_pos he]
      rfl
    rw [if_neg he, if_neg he]
    generalize hcov : List.mergeSort _ _ = cov
    have hpos : 0 < cov.length := by
      rw [← hcov, List.length_mergeSort, List.length_map]
      cases recs with
      | nil => exact absurd rfl he
      | cons _ _ => simp
    rw [idx_ok _ cov 0 hpos, ok_bind, idx_ok _ cov (cov.length - 1) (by omega),
      List.head?_eq_getElem?, List.getLast?_eq_getElem?, List.getElem?_eq_getElem hpos,
      List.getElem?_eq_getElem (by omega : cov.length - 1 < cov.length)]
    dsimp only
    obtain ⟨c2, hc2⟩ := overlapScan_eq cov (cov.length - 1) 1
      (c1.tick (cov.length * (Nat.log2 cov.length + 1))) (by omega) (by omega)
    rw [hc2, ok_bind]
    dsimp only
    rw [show List.drop (1 - 1) cov = cov from rfl]
    split
    · rfl
    split
    · rfl
    rw [ok_bind]
    split
    · rfl
    split <;> rfl

/-! ## non-vacuity -/

/-- a 32-byte file with one table `abcd` at offset 28, length 4 -/
def exFile : Bytes :=
  [0,1,0,0, 0,1, 0,16, 0,0, 0,0,  97,98,99,100, 0,0,0,0, 0,0,0,28, 0,0,0,4,  1,2,3,4]

example : read 280 exFile = .ok ((65536, [([97,98,99,100], 28, 4)]), ⟨4, 3⟩) := by decide +kernel

/-- hence (by `read_erase`) the value-level model accepts it too -/
example : SfntV.Header.read 280 exFile = .ok (65536, [([97,98,99,100], 28, 4)]) := by
  rw [← read_erase, show read 280 exFile = .ok ((65536, [([97,98,99,100], 28, 4)]), ⟨4, 3⟩) by decide +kernel]
  rfl

end SfntV.Total.Header
