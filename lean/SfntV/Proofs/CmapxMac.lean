/-
Lemmas for C09 (Macintosh platform): the MacRoman table regenerated from mac/encoding.go is
injective, and decoding with `code2rune = macRoman` is the specification composed with the table.
-/
import SfntV.Model.CmapTable
import SfntV.Proofs.Cmapx06
import SfntV.Proofs.Cmap4

namespace SfntV.CmapTable
open SfntV SfntV.Cmap06 SfntV.Cmap12

theorem macTable_length : Gen.macRomanTable.length = 256 := by decide +kernel
theorem macTable_nodup : Gen.macRomanTable.Nodup := by decide +kernel
theorem macTable_lt : ∀ x ∈ Gen.macRomanTable, x < 65536 := by decide +kernel

theorem macRoman_eq (a : Nat) (h : a < 256) :
    macRoman a = Gen.macRomanTable[a]'(by rw [macTable_length]; exact h) := by
  unfold macRoman
  rw [Nat.mod_eq_of_lt h, List.getD_eq_getElem?_getD, List.getElem?_eq_getElem (by rw [macTable_length]; exact h)]
  rfl

theorem macRoman_lt (a : Nat) : macRoman a < 65536 := by
  have h : a % 256 < 256 := Nat.mod_lt _ (by omega)
  have : macRoman a = macRoman (a % 256) := by unfold macRoman; rw [Nat.mod_mod]
  rw [this, macRoman_eq _ h]
  exact macTable_lt _ (List.getElem_mem _)

theorem macRoman_inj (a b : Nat) (ha : a < 256) (hb : b < 256) (h : macRoman a = macRoman b) : a = b := by
  rw [macRoman_eq a ha, macRoman_eq b hb] at h
  have hp := List.pairwise_iff_getElem.mp macTable_nodup
  rcases Nat.lt_trichotomy a b with hlt | heq | hgt
  · exact absurd h (hp a b _ _ hlt)
  · exact heq
  · exact absurd h.symm (hp b a _ _ hgt)

/-! ### the rune-space specification -/

theorem specRune_some (c2r f : Nat → Nat) (r c : Nat)
    (h : (List.range 256).find? (fun c => c2r c == r) = some c) :
    specRune c2r f r = f c ∧ c < 256 ∧ c2r c = r := by
  refine ⟨by unfold specRune; rw [h], ?_, ?_⟩
  · have := List.mem_of_find?_eq_some h; simpa using this
  · have := List.find?_some h; simpa using this

theorem specRune_none (c2r f : Nat → Nat) (r : Nat)
    (h : (List.range 256).find? (fun c => c2r c == r) = none) :
    specRune c2r f r = 0 ∧ ∀ c, c < 256 → c2r c ≠ r := by
  refine ⟨by unfold specRune; rw [h], ?_⟩
  intro c hc
  have := List.find?_eq_none.mp h c (by simpa using hc)
  simpa using this

theorem specRune_congr (c2r f g : Nat → Nat) (r : Nat) (h : ∀ c, c < 256 → f c = g c) :
    specRune c2r f r = specRune c2r g r := by
  cases hf : (List.range 256).find? (fun c => c2r c == r) with
  | none => rw [(specRune_none c2r f r hf).1, (specRune_none c2r g r hf).1]
  | some c =>
    have h1 := specRune_some c2r f r c hf
    have h2 := specRune_some c2r g r c hf
    rw [h1.1, h2.1, h c h1.2.1]

/-- writes re-keyed by an injective single-byte encoding, read as a Go map (`lastWrite` form) -/
theorem lastWrite_map_inj (mr : Nat → Nat) (hinj : ∀ a b, a < 256 → b < 256 → mr a = mr b → a = b)
    (hlt : ∀ a, mr a < 65536) (r : Nat) (ws : List (Nat × Nat)) (h : ∀ w ∈ ws, w.1 < 256) :
    lastWrite (ws.map fun w => (mr w.1 % 65536, w.2)) r = specRune mr (lastWrite ws) r := by
  induction ws with
  | nil =>
    cases hf : (List.range 256).find? (fun c => mr c == r) with
    | none => rw [(specRune_none mr _ r hf).1]; rfl
    | some c => rw [(specRune_some mr _ r c hf).1]; rfl
  | cons w rest ih =>
    have ih' := ih (fun x hx => h x (List.mem_cons_of_mem _ hx))
    have hw := h w List.mem_cons_self
    rw [List.map_cons, lastWrite]
    dsimp only
    rw [ih', Nat.mod_eq_of_lt (hlt _)]
    cases hf : (List.range 256).find? (fun c => mr c == r) with
    | none =>
      have hn := specRune_none mr (lastWrite rest) r hf
      have hn2 := specRune_none mr (lastWrite (w :: rest)) r hf
      rw [hn.1, hn2.1]
      simp only [ne_eq, not_true_eq_false, if_false]
      rw [if_neg (hn.2 w.1 hw)]
    | some c =>
      have hs := specRune_some mr (lastWrite rest) r c hf
      have hs2 := specRune_some mr (lastWrite (w :: rest)) r c hf
      rw [hs.1, hs2.1, lastWrite]
      by_cases hx : lastWrite rest c ≠ 0
      · rw [if_pos hx, if_pos hx]
      · rw [if_neg hx, if_neg hx]
        by_cases hk : w.1 = c
        · rw [if_pos hk, if_pos (by rw [hk]; exact hs.2.2)]
        · rw [if_neg hk, if_neg]
          intro he
          exact hk (hinj _ _ hw hs.2.1 (by rw [he, hs.2.2]))

theorem find?_congr_mem {α : Type} (p q : α → Bool) (l : List α) (h : ∀ x ∈ l, p x = q x) :
    l.find? p = l.find? q := by
  induction l with
  | nil => rfl
  | cons x l ih =>
    simp only [List.find?_cons, h x List.mem_cons_self]
    rw [ih (fun y hy => h y (List.mem_cons_of_mem _ hy))]

/-- the same for the true last-write-wins lookup of Model/Cmap4.lean -/
theorem alistGet_map_inj (mr : Nat → Nat) (hinj : ∀ a b, a < 256 → b < 256 → mr a = mr b → a = b)
    (hlt : ∀ a, mr a < 65536) (r : Nat) (ws : List (Nat × Nat)) (h : ∀ w ∈ ws, w.1 < 256) :
    Cmap4.alistGet (ws.map fun w => (mr w.1 % 65536, w.2)) r = specRune mr (Cmap4.alistGet ws) r := by
  have hleft : Cmap4.alistGet (ws.map fun w => (mr w.1 % 65536, w.2)) r =
      match ws.reverse.find? (fun w => mr w.1 == r) with
      | some w => w.2
      | none => 0 := by
    unfold Cmap4.alistGet
    rw [← List.map_reverse, List.find?_map]
    have : ((fun (x : Nat × Nat) => x.1 == r) ∘ fun (w : Nat × Nat) => (mr w.1 % 65536, w.2)) =
        fun w => mr w.1 == r := by
      funext w; simp only [Function.comp]; rw [Nat.mod_eq_of_lt (hlt _)]
    rw [this]
    cases ws.reverse.find? (fun w => mr w.1 == r) <;> rfl
  rw [hleft]
  have hrev : ∀ w ∈ ws.reverse, w.1 < 256 := fun w hw => h w (List.mem_reverse.mp hw)
  cases hf : (List.range 256).find? (fun c => mr c == r) with
  | none =>
    have hn := specRune_none mr (Cmap4.alistGet ws) r hf
    rw [hn.1]
    have : ws.reverse.find? (fun w => mr w.1 == r) = none := by
      rw [List.find?_eq_none]
      intro x hx
      have := hn.2 x.1 (hrev x hx)
      simpa using this
    rw [this]
  | some c =>
    have hs := specRune_some mr (Cmap4.alistGet ws) r c hf
    rw [hs.1]
    have hc : ws.reverse.find? (fun w => mr w.1 == r) = ws.reverse.find? (fun w => w.1 == c) := by
      apply find?_congr_mem
      intro x hx
      have hx' := hrev x hx
      by_cases hk : x.1 = c
      · simp [hk, hs.2.2]
      · have : mr x.1 ≠ r := fun he => hk (hinj _ _ hx' hs.2.1 (by rw [he, hs.2.2]))
        have h1 : (mr x.1 == r) = false := by simpa using this
        have h2 : (x.1 == c) = false := by simpa using hk
        rw [h1, h2]
    rw [hc]
    rfl

/-! ### format 0 under a code-to-rune mapping -/

/-- the writes of the format 0 loop with the identity mapping -/
def writes0 (d : Bytes) (s n : Nat) : List (Nat × Nat) :=
  (List.range' s n).filterMap fun c =>
    let g := (d.getD c 0).toNat
    if g ≠ 0 then some (c, g) else none

theorem writes0_keys (d : Bytes) : ∀ n s, ∀ w ∈ writes0 d s n, s ≤ w.1 ∧ w.1 < s + n := by
  intro n s w hw
  unfold writes0 at hw
  rw [List.mem_filterMap] at hw
  obtain ⟨c, hc, hcw⟩ := hw
  rw [List.mem_range'_1] at hc
  dsimp only at hcw
  split at hcw
  · cases hcw; exact hc
  · cases hcw

theorem lastWrite_writes0 (d : Bytes) (c : Nat) : ∀ n s,
    lastWrite (writes0 d s n) c = if s ≤ c ∧ c < s + n then (d.getD c 0).toNat else 0 := by
  intro n
  induction n with
  | zero => intro s; rw [if_neg (by omega)]; rfl
  | succ n ih =>
    intro s
    have ihh := ih (s + 1)
    unfold writes0 at ihh ⊢
    rw [List.range'_succ, List.filterMap_cons]
    dsimp only
    by_cases hg : (d.getD s 0).toNat ≠ 0
    · rw [if_pos hg]
      dsimp only
      rw [lastWrite, ihh]
      dsimp only
      by_cases h1 : s + 1 ≤ c ∧ c < s + 1 + n
      · rw [if_pos h1, if_pos (by omega : s ≤ c ∧ c < s + (n + 1))]
        by_cases h3 : (d.getD c 0).toNat ≠ 0
        · rw [if_pos h3]
        · rw [if_neg h3, if_neg (by omega)]; omega
      · rw [if_neg h1]
        simp only [ne_eq, not_true_eq_false, if_false]
        by_cases h4 : s = c
        · rw [if_pos h4, if_pos (by omega : s ≤ c ∧ c < s + (n + 1)), h4]
        · rw [if_neg h4, if_neg (by omega)]
    · rw [if_neg hg]
      dsimp only
      rw [ihh]
      by_cases h1 : s + 1 ≤ c ∧ c < s + 1 + n
      · rw [if_pos h1, if_pos (by omega : s ≤ c ∧ c < s + (n + 1))]
      · rw [if_neg h1]
        by_cases h4 : s = c
        · rw [if_pos (by omega : s ≤ c ∧ c < s + (n + 1)), ← h4]; omega
        · rw [if_neg (by omega)]

theorem decode0c2r_eq (c2r : Nat → Nat) (b : Bytes) (ws : List (Nat × Nat))
    (h : decode0c2r c2r b = .ok ws) :
    ∃ d, decode0 b = .ok d ∧ ws = (writes0 d 0 256).map fun w => (c2r w.1 % 65536, w.2) := by
  unfold decode0c2r at h
  cases hd : decode0 b with
  | err e => rw [hd] at h; cases h
  | panic e => rw [hd] at h; cases h
  | ok d =>
    rw [hd] at h
    cases h
    refine ⟨d, rfl, ?_⟩
    unfold writes0
    rw [List.map_filterMap, List.range_eq_range']
    apply Cmap4.filterMap_congr'
    intro c _
    dsimp only
    split <;> rfl

/-! ### format 6 under a code-to-rune mapping -/

theorem loop6_map (c2r : Nat → Nat) (arr : Bytes) (first : Nat) : ∀ n i, first + i + n ≤ 65536 →
    loop6 c2r arr first i n = (loop6 id arr first i n).map (fun w => (c2r w.1 % 65536, w.2)) ∧
    ∀ w ∈ loop6 id arr first i n, w.1 < first + i + n := by
  intro n
  induction n with
  | zero => intro i _; exact ⟨rfl, by intro w hw; cases hw⟩
  | succ n ih =>
    intro i hb
    have ihh := ih (i + 1) (by omega)
    have hkey : (i + first) % 65536 = i + first := Nat.mod_eq_of_lt (by omega)
    simp only [loop6, id]
    by_cases hg : u16At arr (2 * i) ≠ 0
    · rw [if_pos hg, if_pos hg, List.map_cons, ihh.1, hkey]
      refine ⟨rfl, ?_⟩
      intro w hw
      rcases List.mem_cons.mp hw with rfl | hw
      · show i + first < first + i + (n + 1); omega
      · have := ihh.2 w hw; omega
    · rw [if_neg hg, if_neg hg]
      exact ⟨ihh.1, fun w hw => by have := ihh.2 w hw; omega⟩

theorem decode6_c2r (c2r : Nat → Nat) (b : Bytes) (ws : List (Nat × Nat)) (h : decode6 b c2r = .ok ws) :
    ∃ ws0, decode6 b id = .ok ws0 ∧ ws = ws0.map (fun w => (c2r w.1 % 65536, w.2)) ∧
      ∀ w ∈ ws0, w.1 < u16At b 6 + u16At b 8 := by
  unfold decode6 at h ⊢
  split at h
  · cases h
  · rename_i hlen
    rw [if_neg hlen]
    dsimp only at h ⊢
    by_cases htr : b.length = 10 + 2 * u16At b 8 + 2 ∧ u16At b (10 + 2 * u16At b 8) = 0
    · simp only [if_pos htr] at h ⊢
      split at h
      · cases h
      · rename_i hok
        rw [if_neg hok]
        cases h
        have := loop6_map c2r ((b.take (10 + 2 * u16At b 8)).drop 10) (u16At b 6) (u16At b 8) 0 (by omega)
        exact ⟨_, rfl, this.1, fun w hw => by have := this.2 w hw; omega⟩
    · simp only [if_neg htr] at h ⊢
      split at h
      · cases h
      · rename_i hok
        rw [if_neg hok]
        cases h
        have := loop6_map c2r (b.drop 10) (u16At b 6) (u16At b 8) 0 (by omega)
        exact ⟨_, rfl, this.1, fun w hw => by have := this.2 w hw; omega⟩

end SfntV.CmapTable
