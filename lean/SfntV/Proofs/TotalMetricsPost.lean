/-
C02 (decoders are total): proofs about the checked-index model of `post.Read`
(`SfntV.Total.Metrics.postRead`): no panic on any input (for any name table), cost linear in the
input, and the bridging lemma to the header model of C12 (`SfntV.Metrics.decodePost`).
-/
import SfntV.Proofs.TotalMetrics

namespace SfntV.Total.Metrics
open SfntV SfntV.Total
open SfntV.Total.Gdef (idx_ok ok_bind bind_noPanic bind_eq_ok w16_ok w16_lt mkSlice_ok)

/-! ## `ReadUint16Slice` -/

theorem readU16s_noPanic (b : Bytes) : ∀ (n pos : Nat) (acc : List Nat) (c : Cost),
    (readU16s b n pos acc c).noPanic
  | 0, _, _, _ => True.intro
  | n+1, pos, acc, c => by
    unfold readU16s
    refine bind_noPanic (rdParser_noPanic _ _ _ _ (by omega)) (fun w hw => ?_)
    obtain ⟨_, _, hl⟩ := rdParser_ok hw
    obtain ⟨v, hv, _⟩ := w16_ok "parser.go:125#buf[0],buf[1]" w 0 (by omega)
    rw [hv, ok_bind]
    exact readU16s_noPanic b n (pos + 2) (v :: acc) c.tick

theorem readU16s_ok (b : Bytes) : ∀ (n pos : Nat) (acc : List Nat) (c : Cost) (r : List Nat)
    (pos' : Nat) (c' : Cost), readU16s b n pos acc c = .ok ((r, pos'), c') →
    r.length = acc.length + n ∧ pos' = pos + 2 * n ∧ (pos ≤ b.length → pos' ≤ b.length) ∧
      c'.steps = c.steps + n ∧ c'.alloc = c.alloc
  | 0, pos, acc, c, r, pos', c', h => by
    unfold readU16s at h
    cases h
    simp
  | n+1, pos, acc, c, r, pos', c', h => by
    unfold readU16s at h
    obtain ⟨w, hw, h⟩ := bind_eq_ok h
    obtain ⟨v, _, h⟩ := bind_eq_ok h
    obtain ⟨_, hle, _⟩ := rdParser_ok hw
    obtain ⟨h1, h2, h3, h4, h5⟩ := readU16s_ok b n (pos + 2) (v :: acc) c.tick r pos' c' h
    simp only [List.length_cons, Cost.tick] at h1 h4 h5
    refine ⟨by omega, by omega, fun _ => h3 (by omega), by omega, h5⟩

/-! ## the Pascal strings -/

theorem postFill_noPanic (b : Bytes) : ∀ (cnt : Nat) (names : List Bytes) (pos : Nat) (c : Cost),
    (postFill b cnt names pos c).noPanic
  | 0, _, _, _ => True.intro
  | cnt+1, names, pos, c => by
    unfold postFill
    refine bind_noPanic (rdParser_noPanic _ _ _ _ (by omega)) (fun lb hlb => ?_)
    obtain ⟨_, _, hl⟩ := rdParser_ok hlb
    rw [idx_ok _ lb 0 (by omega), ok_bind]
    have hlt := (lb[0]'(by omega)).toNat_lt
    refine bind_noPanic (rdParser_noPanic _ _ _ _ (by omega)) (fun buf _ => ?_)
    exact postFill_noPanic b cnt _ _ _

/-- `cnt` strings are read: two steps each; the allocation equals the bytes consumed (one slot
and `l` bytes per string, which occupies `1 + l` bytes of input) -/
theorem postFill_ok (b : Bytes) : ∀ (cnt : Nat) (names : List Bytes) (pos : Nat) (c : Cost)
    (names' : List Bytes) (pos' : Nat) (c' : Cost),
    postFill b cnt names pos c = .ok ((names', pos'), c') →
    names'.length = names.length + cnt ∧ pos + cnt ≤ pos' ∧ (pos ≤ b.length → pos' ≤ b.length) ∧
      c'.steps = c.steps + 2 * cnt ∧ c'.alloc + pos = c.alloc + pos'
  | 0, names, pos, c, names', pos', c', h => by
    unfold postFill at h
    cases h
    simp
  | cnt+1, names, pos, c, names', pos', c', h => by
    unfold postFill at h
    obtain ⟨lb, _, h⟩ := bind_eq_ok h
    obtain ⟨l, _, h⟩ := bind_eq_ok h
    obtain ⟨buf, hbuf, h⟩ := bind_eq_ok h
    obtain ⟨_, hle, _⟩ := rdParser_ok hbuf
    obtain ⟨h1, h2, h3, h4, h5⟩ := postFill_ok b cnt _ _ _ names' pos' c' h
    simp only [List.length_append, List.length_cons, List.length_nil, Cost.tick, Cost.mem] at h1 h4 h5
    refine ⟨by omega, by omega, fun _ => h3 (by omega), by omega, by omega⟩

/-! ## the loop over `glyphNameIndex` -/

theorem setAt_ok (site : String) (xs : List α) (i : Nat) (v : α) (h : i < xs.length) :
    setAt site xs i v = .ok (xs.set i v) := by
  unfold setAt
  rw [if_pos h]

theorem postNames_noPanic (tbl : List Bytes) (b : Bytes) : ∀ (idxs : List Nat) (i : Nat)
    (out names : List Bytes) (pos : Nat) (c : Cost), i + idxs.length ≤ out.length →
    (postNames tbl b idxs i out names pos c).noPanic
  | [], _, _, _, _, _, _ => True.intro
  | gi :: rest, i, out, names, pos, c, h => by
    simp only [List.length_cons] at h
    unfold postNames
    dsimp only
    split
    · rename_i hlt
      rw [idx_ok _ tbl gi hlt, ok_bind, setAt_ok _ _ _ _ (by omega), ok_bind]
      exact postNames_noPanic tbl b rest (i + 1) _ names pos _ (by rw [List.length_set]; omega)
    · refine bind_noPanic (postFill_noPanic _ _ _ _ _) (fun ⟨⟨names', pos'⟩, c1⟩ hf => ?_)
      obtain ⟨hl, _⟩ := postFill_ok _ _ _ _ _ _ _ _ hf
      dsimp only
      rw [idx_ok _ names' _ (by omega), ok_bind, setAt_ok _ _ _ _ (by omega), ok_bind]
      exact postNames_noPanic tbl b rest (i + 1) _ names' pos' _ (by rw [List.length_set]; omega)

theorem postNames_cost (tbl : List Bytes) (b : Bytes) : ∀ (idxs : List Nat) (i : Nat)
    (out names : List Bytes) (pos : Nat) (c : Cost) (out' : List Bytes) (c' : Cost),
    postNames tbl b idxs i out names pos c = .ok (out', c') → pos ≤ b.length →
    c'.steps + 2 * pos ≤ c.steps + idxs.length + 2 * b.length ∧
      c'.alloc + pos ≤ c.alloc + b.length ∧ out'.length = out.length
  | [], _, _, _, _, _, _, _, h, hp => by
    unfold postNames at h
    cases h
    simp only [List.length_nil]
    refine ⟨by omega, by omega, True.intro⟩
  | gi :: rest, i, out, names, pos, c, out', c', h, hp => by
    unfold postNames at h
    dsimp only at h
    simp only [List.length_cons]
    split at h
    · obtain ⟨nm, _, h⟩ := bind_eq_ok h
      obtain ⟨o1, ho1, h⟩ := bind_eq_ok h
      have hol : o1.length = out.length := by
        unfold setAt at ho1
        split at ho1
        · cases ho1; rw [List.length_set]
        · cases ho1
      obtain ⟨h1, h2, h3⟩ := postNames_cost tbl b rest (i + 1) o1 names pos _ out' c' h hp
      simp only [Cost.tick] at h1 h2
      omega
    · obtain ⟨⟨⟨names', pos'⟩, c1⟩, hf, h⟩ := bind_eq_ok h
      obtain ⟨_, f2, f3, f4, f5⟩ := postFill_ok _ _ _ _ _ _ _ _ hf
      dsimp only at h
      obtain ⟨nm, _, h⟩ := bind_eq_ok h
      obtain ⟨o1, ho1, h⟩ := bind_eq_ok h
      have hol : o1.length = out.length := by
        unfold setAt at ho1
        split at ho1
        · cases ho1; rw [List.length_set]
        · cases ho1
      obtain ⟨h1, h2, h3⟩ := postNames_cost tbl b rest (i + 1) o1 names' pos' c1 out' c' h (f3 hp)
      simp only [Cost.tick] at f4 f5
      omega

/-! ## `post.Read` -/

/-- `post.Read` never panics, for any input and any table of standard names (`ReadBytes(int(l))`
has `l ≤ 255 ≤ 1024`; `macRoman[idx]` is guarded by `idx < nMac`; `names[idx]` by the fill loop;
`info.Names[i]` by `len(info.Names) = len(glyphNameIndex)`) -/
theorem postRead_noPanic (tbl : List Bytes) (b : Bytes) : (postRead tbl b).noPanic := by
  unfold postRead
  refine bind_noPanic (rdParser_noPanic _ _ _ _ (by omega)) (fun h _ => ?_)
  dsimp only
  split
  · exact True.intro
  split
  · refine bind_noPanic (rdParser_noPanic _ _ _ _ (by omega)) (fun w hw => ?_)
    obtain ⟨_, _, hl⟩ := rdParser_ok hw
    obtain ⟨n, hn, hn16⟩ := w16_ok "parser.go:125#buf[0],buf[1]" w 0 (by omega)
    rw [hn, ok_bind, mkSlice_ok _ _ _ hn16, ok_bind]
    refine bind_noPanic (readU16s_noPanic _ _ _ _ _) (fun ⟨⟨idxs, pos⟩, c1⟩ hr => ?_)
    obtain ⟨hil, _⟩ := readU16s_ok _ _ _ _ _ _ _ _ hr
    simp only [List.length_nil, Nat.zero_add] at hil
    dsimp only
    rw [mkSlice_ok _ _ _ (by omega), ok_bind]
    refine bind_noPanic (postNames_noPanic _ _ _ _ _ _ _ _ ?_) (fun _ _ => True.intro)
    rw [List.length_replicate]
    omega
  split <;> exact True.intro

/-- cost of `post.Read`, in the length of the input: `steps ≤ 2·|b|` (reads + loop iterations) and
`alloc ≤ |b|` elements, where the elements are: the `Info` object, one per `uint16` of
`glyphNameIndex`, one per slot of `info.Names`, and per Pascal string read one slot plus its bytes
(version 1.0 shares the static table `macRoman`: nothing is allocated for the names) -/
theorem postRead_cost (tbl : List Bytes) (b : Bytes) (r : PostInfo) (c : Cost)
    (h : postRead tbl b = .ok (r, c)) : c.steps ≤ 2 * b.length ∧ c.alloc ≤ b.length := by
  unfold postRead at h
  obtain ⟨hd, hhd, h⟩ := bind_eq_ok h
  obtain ⟨_, hle, _⟩ := rdParser_ok hhd
  dsimp only at h
  split at h
  · cases h
    simp only [Cost.zero, Cost.tick, Cost.mem]
    omega
  split at h
  · obtain ⟨w, hw, h⟩ := bind_eq_ok h
    obtain ⟨_, hle2, _⟩ := rdParser_ok hw
    obtain ⟨n, _, h⟩ := bind_eq_ok h
    obtain ⟨c0, hc0, h⟩ := bind_eq_ok h
    have k0 : c0 = ((Cost.zero.tick.mem 1).tick).mem n := by
      unfold mkSlice at hc0
      split at hc0
      · cases hc0
      · cases hc0; rfl
    obtain ⟨⟨⟨idxs, pos⟩, c1⟩, hr, h⟩ := bind_eq_ok h
    obtain ⟨r1, r2, r3, r4, r5⟩ := readU16s_ok _ _ _ _ _ _ _ _ hr
    dsimp only at h
    obtain ⟨c2, hc2, h⟩ := bind_eq_ok h
    have k2 : c2 = c1.mem idxs.length := by
      unfold mkSlice at hc2
      split at hc2
      · cases hc2
      · cases hc2; rfl
    obtain ⟨⟨out, c3⟩, hn, h⟩ := bind_eq_ok h
    obtain ⟨n1, n2, _⟩ := postNames_cost _ _ _ _ _ _ _ _ _ _ hn (r3 (by omega))
    cases h
    subst k0 k2
    simp only [Cost.zero, Cost.tick, Cost.mem, List.length_nil] at r1 r4 r5 n1 n2
    dsimp only
    omega
  split at h
  · cases h
    simp only [Cost.zero, Cost.tick, Cost.mem]
    omega
  · cases h

end SfntV.Total.Metrics
