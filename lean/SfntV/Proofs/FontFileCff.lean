/-
C01 (bytes), OpenType/CFF flavour (stage 3', container level): `readFileCff (writeFileCff F) =
nfFileCff F`.  All sfnt tables around the outlines are composed from the codec theorems of C03,
C12, C14, C09 as in Proofs/FontFileRoundTrip.lean; the `CFF ` table and the layout tables are
carried as bytes whose decoders are abstract — their round trips (C13, C08) are guards.
-/
import SfntV.Model.FontFileCff
import SfntV.Proofs.FontFileRoundTrip

namespace SfntV.FontFile
open SfntV SfntV.Font

/-- the `head.Info` `Write` encodes for a CFF font (loca format 0) -/
def headInfoOfCff (F : CffFileFont) : Metrics.Head :=
  headOf (deriveHead (metaOfCff F)) (Metrics.fontBBoxModel F.payload.extents) 0

/-- the `os2.Info` `Read` gets back -/
def os2InfoOfCff (F : CffFileFont) : Metrics.Os2 :=
  let win := Metrics.winMetricsModel (Metrics.fontBBoxModel F.payload.extents)
  let ci := charIndices F.cmap
  os2Read (deriveOs2 (metaOfCff F)) ⟨ci.1, ci.2, win.1, win.2⟩

/-- The domain of the byte-level round trip for OpenType/CFF fonts: guards of the composed codec
theorems, plus the two guards that stand for codecs NOT composed here (C13 for `CFF `, C08 for
GDEF/GSUB/GPOS). -/
structure InDomainFileCff (ld : LayoutDec) (decCff : Bytes → Outcome CffPayload) (ef : EnvF)
    (F : CffFileFont) : Prop where
  /-- C13 (guard): the CFF table is a non-empty byte string which `cff.Read` decodes to the
  outlines it was built from, with the FontInfo `GetFontInfo()` put in -/
  cff : F.cffBytes ≠ [] ∧ decCff F.cffBytes = .ok F.payload
  cffInfo : F.payload.info = deriveCff (metaOfCff F)
  /-- 1..65535 glyphs, one bounding box per glyph, xMin as int16 -/
  count : 1 ≤ F.payload.widths.length ∧ F.payload.widths.length < 65536
  extentsLen : F.payload.extents.length = F.payload.widths.length
  extents : ∀ e ∈ F.payload.extents, isInt16 e.llx
  /-- C12 head, OS/2, hhea -/
  head : Metrics.HeadDom (headInfoOfCff F)
  ctime : timeInRange F.scalars.creationTime
  mtime : timeInRange F.scalars.modificationTime
  os2 : Metrics.Os2Dom (os2InfoOfCff F)
  ascent : isInt16 F.scalars.ascent
  descent : isInt16 F.scalars.descent
  lineGap : isInt16 F.scalars.lineGap
  caret : isInt16 (ef.riseRun F.scalars.italicAngle).1 ∧ isInt16 (ef.riseRun F.scalars.italicAngle).2
  /-- C14 name -/
  name : Names.NameDom Gen.appleBCP Gen.msBCP (Names.sortLangs Gen.appleBCP) (Names.sortLangs Gen.msBCP)
    (nameEntries (deriveName ef.env (metaOfCff F))) 1
  /-- C09 cmap -/
  cmap : ∀ t, F.cmap = some t → (∀ kd ∈ t, CmapTable.ValidSub kd.1 kd.2) ∧ t.length < 65536 ∧
    (CmapTable.encode t).length < 4294967296
  /-- C08 (guard) -/
  gdef : ∀ b, F.gdef = some b → b ≠ [] ∧ ld.gdef b = .ok (tokenOfBytes b)
  gsub : ∀ b, F.gsub = some b → b ≠ [] ∧ ld.gsub b = .ok (tokenOfBytes b)
  gpos : ∀ b, F.gpos = some b → b ≠ [] ∧ ld.gpos b = .ok (tokenOfBytes b)
  version : F.scalars.version < 4294967296
  /-- C03: the file is smaller than 4 GiB -/
  size : ∀ ts, writeTablesCff ef F = .ok ts → Header.fileSize (Header.named ts) < 4294967296


/-! ## helper lemmas -/

/-! ### the container -/

/-- the table map of `writeTablesCff`, as a function of the table bodies -/
def cffEntries (hhea hmtx : Bytes) (cm : Option Bytes) (os2 name post cff maxp head : Bytes)
    (gd gs gp : Option Bytes) : List Header.Entry :=
  [⟨tag "hhea", some hhea⟩, ⟨tag "hmtx", some hmtx⟩, ⟨tag "cmap", cm⟩, ⟨tag "OS/2", some os2⟩,
   ⟨tag "name", some name⟩, ⟨tag "post", some post⟩, ⟨tag "CFF ", some cff⟩, ⟨tag "maxp", some maxp⟩,
   ⟨tag "head", some head⟩, ⟨tag "GDEF", gd⟩, ⟨tag "GSUB", gs⟩, ⟨tag "GPOS", gp⟩]

/-- the tables that are written -/
def cffBodies (hhea hmtx : Bytes) (cm : Option Bytes) (os2 name post cff maxp head : Bytes)
    (gd gs gp : Option Bytes) : List (Bytes × Bytes) :=
  [(tag "hhea", hhea), (tag "hmtx", hmtx)] ++ optBody (tag "cmap") cm ++
  [(tag "OS/2", os2), (tag "name", name), (tag "post", post), (tag "CFF ", cff), (tag "maxp", maxp),
   (tag "head", head)] ++
  optBody (tag "GDEF") gd ++ optBody (tag "GSUB") gs ++ optBody (tag "GPOS") gp

/-- tags of the tables that are always written -/
def mandTagsCff : List Bytes :=
  [tag "hhea", tag "hmtx", tag "OS/2", tag "name", tag "post", tag "CFF ", tag "maxp", tag "head"]

def fixedTagsCff : List Bytes :=
  [tag "hhea", tag "hmtx", tag "cmap", tag "OS/2", tag "name", tag "post", tag "CFF ", tag "maxp",
   tag "head", tag "GDEF", tag "GSUB", tag "GPOS"]

theorem fixedCff_printable : ∀ n ∈ fixedTagsCff, ∀ b ∈ n, (0x20 : UInt8) ≤ b ∧ b ≤ 0x7e := by decide
theorem mand_fixedCff : ∀ a ∈ mandTagsCff, a ∈ fixedTagsCff := by decide

theorem named_cffEntries (hhea hmtx : Bytes) (cm : Option Bytes) (os2 name post cff maxp head : Bytes)
    (gd gs gp : Option Bytes) :
    Header.named (cffEntries hhea hmtx cm os2 name post cff maxp head gd gs gp) =
      cffBodies hhea hmtx cm os2 name post cff maxp head gd gs gp := by
  unfold Header.named cffEntries cffBodies
  cases cm <;> cases gd <;> cases gs <;> cases gp <;> simp [optBody] <;> rfl

theorem keys_cffEntries (hhea hmtx : Bytes) (cm : Option Bytes) (os2 name post cff maxp head : Bytes)
    (gd gs gp : Option Bytes) :
    ((cffEntries hhea hmtx cm os2 name post cff maxp head gd gs gp).map (·.name)).Nodup := by
  have hmap : (cffEntries hhea hmtx cm os2 name post cff maxp head gd gs gp).map (·.name) = fixedTagsCff := rfl
  rw [hmap]
  decide

/-- every written table is a mandatory one or one of the optional tables that was given -/
theorem mem_cffBodies' (hhea hmtx : Bytes) (cm : Option Bytes) (os2 name post cff maxp head : Bytes)
    (gd gs gp : Option Bytes) (t : Bytes × Bytes)
    (ht : t ∈ cffBodies hhea hmtx cm os2 name post cff maxp head gd gs gp) :
    (t.1 ∈ mandTagsCff ∧ (t.1 = tag "head" → t.2 = head)) ∨ (t.1 = tag "cmap" ∧ cm = some t.2) ∨
      (t.1 = tag "GDEF" ∧ gd = some t.2) ∨ (t.1 = tag "GSUB" ∧ gs = some t.2) ∨
      (t.1 = tag "GPOS" ∧ gp = some t.2) := by
  unfold cffBodies at ht
  simp only [List.mem_append, List.mem_cons, List.not_mem_nil, or_false] at ht
  rcases ht with ((((((h | h) | hc) | (h | h | h | h | h | h)) | hgd) | hgs) | hgp)
  all_goals first
    | exact Or.inr (Or.inl (mem_optBody _ _ _ hc))
    | exact Or.inr (Or.inr (Or.inl (mem_optBody _ _ _ hgd)))
    | exact Or.inr (Or.inr (Or.inr (Or.inl (mem_optBody _ _ _ hgs))))
    | exact Or.inr (Or.inr (Or.inr (Or.inr (mem_optBody _ _ _ hgp))))
    | (subst h
       refine Or.inl ⟨by simp [mandTagsCff], ?_⟩
       first
         | (intro _; rfl)
         | (intro e; exact absurd e (by dsimp only; decide)))

theorem mem_cffBodies (hhea hmtx : Bytes) (cm : Option Bytes) (os2 name post cff maxp head : Bytes)
    (gd gs gp : Option Bytes) (t : Bytes × Bytes)
    (ht : t ∈ cffBodies hhea hmtx cm os2 name post cff maxp head gd gs gp) : t.1 ∈ fixedTagsCff := by
  rcases mem_cffBodies' _ _ _ _ _ _ _ _ _ _ _ _ t ht with h | h | h | h | h
  · exact mand_fixedCff _ h.1
  all_goals (rw [h.1]; decide)

/-- the head table is the only one under the head tag -/
theorem head_of_cffBodies (hhea hmtx : Bytes) (cm : Option Bytes) (os2 name post cff maxp head : Bytes)
    (gd gs gp : Option Bytes) (d : Bytes)
    (hd : (Header.headTag, d) ∈ cffBodies hhea hmtx cm os2 name post cff maxp head gd gs gp) :
    d = head := by
  rcases mem_cffBodies' _ _ _ _ _ _ _ _ _ _ _ _ _ hd with h | h | h | h | h
  · exact h.2 (by dsimp only; decide)
  all_goals exact absurd h.1 (by dsimp only; decide)

/-- a tag that is neither mandatory nor the tag of a given optional table is not the tag of a
written table -/
theorem absent_cffBodies (hhea hmtx : Bytes) (cm : Option Bytes) (os2 name post cff maxp head : Bytes)
    (gd gs gp : Option Bytes) (n : Bytes) (hm : n ∉ mandTagsCff)
    (h1 : n = tag "cmap" → cm = none) (h2 : n = tag "GDEF" → gd = none)
    (h3 : n = tag "GSUB" → gs = none) (h4 : n = tag "GPOS" → gp = none)
    (t : Bytes × Bytes)
    (ht : t ∈ cffBodies hhea hmtx cm os2 name post cff maxp head gd gs gp) : t.1 ≠ n := by
  intro e
  rcases mem_cffBodies' _ _ _ _ _ _ _ _ _ _ _ _ t ht with h | h | h | h | h
  · exact hm (e ▸ h.1)
  · have := h1 (e ▸ h.1); rw [this] at h; cases h.2
  · have := h2 (e ▸ h.1); rw [this] at h; cases h.2
  · have := h3 (e ▸ h.1); rw [this] at h; cases h.2
  · have := h4 (e ▸ h.1); rw [this] at h; cases h.2

/-- `header.Write` (scaler type "OTTO") accepts the table map, and `header.Read` +
`ReadTableBytes` on its output return every table body (head with the checksum adjustment patched
in; cmap, GDEF, GSUB, GPOS exactly when they were given) and no kern table -/
theorem container_entries_cff (hhea hmtx : Bytes) (cm : Option Bytes)
    (os2 name post cff maxp head : Bytes) (gd gs gp : Option Bytes)
    (hhead : 12 ≤ head.length)
    (hsize : Header.fileSize (Header.named
      (cffEntries hhea hmtx cm os2 name post cff maxp head gd gs gp)) < 4294967296) :
    ∃ w recs adj,
      Header.write 0x4F54544F (cffEntries hhea hmtx cm os2 name post cff maxp head gd gs gp) = .ok w ∧
      Header.read 280 w.bytes = .ok (0x4F54544F, recs) ∧
      tableOf w.bytes recs (tag "hhea") = some hhea ∧
      tableOf w.bytes recs (tag "hmtx") = some hmtx ∧
      tableOf w.bytes recs (tag "cmap") = cm ∧
      tableOf w.bytes recs (tag "OS/2") = some os2 ∧
      tableOf w.bytes recs (tag "name") = some name ∧
      tableOf w.bytes recs (tag "post") = some post ∧
      tableOf w.bytes recs (tag "CFF ") = some cff ∧
      tableOf w.bytes recs (tag "maxp") = some maxp ∧
      tableOf w.bytes recs (tag "head") = some (Header.patchAdj head adj) ∧
      tableOf w.bytes recs (tag "GDEF") = gd ∧
      tableOf w.bytes recs (tag "GSUB") = gs ∧
      tableOf w.bytes recs (tag "GPOS") = gp ∧
      tableOf w.bytes recs (tag "kern") = none := by
  have hnamed := named_cffEntries hhea hmtx cm os2 name post cff maxp head gd gs gp
  have hkeys := keys_cffEntries hhea hmtx cm os2 name post cff maxp head gd gs gp
  generalize hts : cffEntries hhea hmtx cm os2 name post cff maxp head gd gs gp = ts at *
  have hlen : (Header.named ts).length ≤ 12 := by
    rw [hnamed]
    cases cm <;> cases gd <;> cases gs <;> cases gp <;> simp [cffBodies, optBody]
  have hdom : SfntV.Props.C03.Dom ts := ⟨hkeys, hsize, by omega⟩
  have hpr : ∀ t ∈ Header.named ts, ∀ b ∈ t.1, (0x20 : UInt8) ≤ b ∧ b ≤ 0x7e := by
    intro t ht
    rw [hnamed] at ht
    exact fixedCff_printable t.1 (mem_cffBodies _ _ _ _ _ _ _ _ _ _ _ _ t ht)
  obtain ⟨w, hw⟩ := (SfntV.Props.C03.C03_ok_iff 0x4F54544F ts hkeys).mpr ⟨by
      rw [hnamed]; simp [cffBodies], by
      intro d hd
      rw [hnamed] at hd
      rw [head_of_cffBodies _ _ _ _ _ _ _ _ _ _ _ _ d hd]
      exact hhead⟩
  obtain ⟨recs, adj, hread, hlook, hnone⟩ :=
    container_lookup 0x4F54544F (by decide) ts hdom (by omega) hpr w hw
  rw [hnamed] at hlook hnone
  have hfix : ∀ (n b : Bytes), (n == Header.headTag) = false →
      (n, b) ∈ cffBodies hhea hmtx cm os2 name post cff maxp head gd gs gp →
      tableOf w.bytes recs n = some b := by
    intro n b hne hm
    have := hlook (n, b) hm
    simpa [storedBody, hne] using this
  have habs := absent_cffBodies hhea hmtx cm os2 name post cff maxp head gd gs gp
  refine ⟨w, recs, adj, hw, hread, ?_, ?_, ?_, ?_, ?_, ?_, ?_, ?_, ?_, ?_, ?_, ?_, ?_⟩
  · exact hfix _ _ (by decide) (by simp [cffBodies])
  · exact hfix _ _ (by decide) (by simp [cffBodies])
  · cases cm with
    | none =>
      exact hnone _ (habs _ (by decide) (fun _ => rfl) (fun e => absurd e (by decide))
        (fun e => absurd e (by decide)) (fun e => absurd e (by decide)))
    | some b => exact hfix _ _ (by decide) (by simp [cffBodies, optBody])
  · exact hfix _ _ (by decide) (by simp [cffBodies])
  · exact hfix _ _ (by decide) (by simp [cffBodies])
  · exact hfix _ _ (by decide) (by simp [cffBodies])
  · exact hfix _ _ (by decide) (by simp [cffBodies])
  · exact hfix _ _ (by decide) (by simp [cffBodies])
  · have := hlook (tag "head", head) (by simp [cffBodies])
    have hh : (tag "head" == Header.headTag) = true := by decide
    simpa [storedBody, hh] using this
  · cases gd with
    | none =>
      exact hnone _ (habs _ (by decide) (fun e => absurd e (by decide)) (fun _ => rfl)
        (fun e => absurd e (by decide)) (fun e => absurd e (by decide)))
    | some b => exact hfix _ _ (by decide) (by simp [cffBodies, optBody])
  · cases gs with
    | none =>
      exact hnone _ (habs _ (by decide) (fun e => absurd e (by decide))
        (fun e => absurd e (by decide)) (fun _ => rfl) (fun e => absurd e (by decide)))
    | some b => exact hfix _ _ (by decide) (by simp [cffBodies, optBody])
  · cases gp with
    | none =>
      exact hnone _ (habs _ (by decide) (fun e => absurd e (by decide))
        (fun e => absurd e (by decide)) (fun e => absurd e (by decide)) (fun _ => rfl))
    | some b => exact hfix _ _ (by decide) (by simp [cffBodies, optBody])
  · exact hnone _ (habs _ (by decide) (fun e => absurd e (by decide))
      (fun e => absurd e (by decide)) (fun e => absurd e (by decide)) (fun e => absurd e (by decide)))

/-! ### `readFileCff` on decoded tables -/

/-- the abstract table set `readFileCff` builds from the decoded tables -/
def tablesReadCff (c : Int → Int → Int) (H : Metrics.Head) (mx : Metrics.Maxp) (o2 : Metrics.Os2)
    (d : Metrics.Decoded) (dec : List Names.Entry) (cm : Option CmapTable.Table)
    (p : PostRec × Option (List Names.GName)) (pl : CffPayload) (gd gsb gp : Option Str) : Tables :=
  { scalerCFF := true,
    head := some (recOfHead H),
    hmtx := some { widths := d.widths, ascent := d.ascent, descent := d.descent,
                   lineGap := d.lineGap, caret16 := c d.rise d.run },
    maxp := some mx.numGlyphs.toNat,
    os2 := some (recOfOs2 o2),
    name := nameRecOf dec,
    post := some p.1,
    cff := some pl.info,
    outline := outlineOfCff pl cm,
    gdef := gd, gsub := gsb, gpos := gp, kern := none }

theorem readFileCff_of (ld : LayoutDec) (decCff : Bytes → Outcome CffPayload) (c : Int → Int → Int)
    (f : Bytes) (recs : List (Bytes × Nat × Nat))
    (hread : Header.read 280 f = .ok (0x4F54544F, recs))
    (bhead bmaxp bos2 bhhea bhmtx bname bpost : Bytes)
    (thead : tableOf f recs (tag "head") = some bhead)
    (tmaxp : tableOf f recs (tag "maxp") = some bmaxp)
    (tos2 : tableOf f recs (tag "OS/2") = some bos2)
    (thhea : tableOf f recs (tag "hhea") = some bhhea)
    (thmtx : tableOf f recs (tag "hmtx") = some bhmtx)
    (tname : tableOf f recs (tag "name") = some bname)
    (tpost : tableOf f recs (tag "post") = some bpost)
    (H : Metrics.Head) (dH : Metrics.decodeHead bhead = .ok H)
    (mx : Metrics.Maxp) (dM : Metrics.decodeMaxp bmaxp = .ok mx)
    (o2 : Metrics.Os2) (dO : Metrics.decodeOs2 bos2 = .ok o2)
    (d : Metrics.Decoded) (dD : Metrics.decode bhhea (some bhmtx) = .ok d)
    (dec : List Names.Entry) (dN : Names.nameDecode (bytesToNats bname) = some dec)
    (cm : Option CmapTable.Table)
    (dC : optDecode (tableOf f recs (tag "cmap")) CmapTable.decode = .ok cm)
    (p : PostRec × Option (List Names.GName)) (dP : decodePostFull bpost = .ok p)
    (pl : CffPayload) (dF : hasDecode (tableOf f recs (tag "CFF ")) decCff = .ok (some pl))
    (gd gsb gp : Option Str)
    (dGd : hasDecode (tableOf f recs (tag "GDEF")) ld.gdef = .ok gd)
    (dGs : hasDecode (tableOf f recs (tag "GSUB")) ld.gsub = .ok gsb)
    (dGp : hasDecode (tableOf f recs (tag "GPOS")) ld.gpos = .ok gp)
    (tkern : tableOf f recs (tag "kern") = none)
    (hT : readErr (tablesReadCff c H mx o2 d dec cm p pl gd gsb gp) = none) :
    readFileCff ld decCff c f = .ok { font := merge (tablesReadCff c H mx o2 d dec cm p pl gd gsb gp), cmap := cm } := by
  unfold tablesReadCff at hT ⊢
  unfold readFileCff
  simp only [hread, dC, dGd, dGs, dGp, dF, tkern]
  simp only [thead, tmaxp, tos2, thhea, thmtx, tname, tpost, optDecode,
    dH, dM, dO, dD, dN, dP, Option.map, Option.bind]
  simp only [hT]
  rfl

/-! ### `writeTablesCff`, `codec ∘ derive` on a CFF file font -/

theorem codec_derive_metaOfCff (env : Env) (F : CffFileFont) :
    codec (derive env (metaOfCff F)) =
      { scalerCFF := true, head := some (codecHead (deriveHead (metaOfCff F))),
        hmtx := some (deriveHmtx env (metaOfCff F)), maxp := some F.payload.widths.length,
        os2 := some (codecOs2 (deriveOs2 (metaOfCff F))), name := some (deriveName env (metaOfCff F)),
        post := some (codecPost (derivePost (metaOfCff F))), cff := some (deriveCff (metaOfCff F)),
        outline := outlineOfCff F.payload F.cmap,
        gdef := F.gdef.map tokenOfBytes, gsub := F.gsub.map tokenOfBytes,
        gpos := F.gpos.map tokenOfBytes, kern := none } := rfl

/-- makeHmtx on a CFF font: the float widths truncated to `funit.Int16` -/
theorem deriveHmtx_cff (env : Env) (F : CffFileFont) :
    deriveHmtx env (metaOfCff F) =
      ⟨F.payload.widths.map (fun w => toInt16 w.trunc), F.scalars.ascent, F.scalars.descent,
        F.scalars.lineGap, env.caretOf F.scalars.italicAngle⟩ := rfl

theorem writeTablesCff_eq (ef : EnvF) (F : CffFileFont) (hhea hmtx maxp : Bytes)
    (hm : Metrics.encode ⟨some (F.payload.widths.map (fun w => toInt16 w.trunc)), some F.payload.extents, none,
        F.scalars.ascent, F.scalars.descent, F.scalars.lineGap, 0⟩
        (ef.riseRun F.scalars.italicAngle).1 (ef.riseRun F.scalars.italicAngle).2 = .ok (hhea, some hmtx))
    (hmaxp : Metrics.encodeMaxp ⟨F.payload.widths.length, none⟩ = .ok maxp) :
    writeTablesCff ef F = .ok (cffEntries hhea hmtx (F.cmap.map CmapTable.encode)
      (Metrics.encodeOs2 (os2Of (deriveOs2 (metaOfCff F))
        ⟨(charIndices F.cmap).1, (charIndices F.cmap).2,
          (Metrics.winMetricsModel (Metrics.fontBBoxModel F.payload.extents)).1,
          (Metrics.winMetricsModel (Metrics.fontBBoxModel F.payload.extents)).2⟩))
      (natsToBytes (Names.nameEncode (nameEntries (deriveName ef.env (metaOfCff F))) 1))
      (natsToBytes (Names.postEncode (postHdrN (derivePost (metaOfCff F))) none))
      F.cffBytes maxp
      (Metrics.encodeHead (headOf (deriveHead (metaOfCff F)) (Metrics.fontBBoxModel F.payload.extents) 0))
      F.gdef F.gsub F.gpos) := by
  unfold writeTablesCff
  simp only [deriveHmtx_cff]
  have hia : (metaOfCff F).italicAngle = F.scalars.italicAngle := rfl
  simp only [hia, hm, hmaxp]
  rfl

theorem inDomain_metaOfCff (F : CffFileFont) (hv : F.scalars.version < 4294967296) :
    InDomain (metaOfCff F) := by
  refine ⟨?_, hv⟩
  intro l hl'
  have h2 : (metaOfCff F).outline.widths = some F.payload.widths := rfl
  rw [h2] at hl'
  injection hl' with hl'
  subst hl'
  rfl

/-- the cmap table read back is the cmap table of the font -/
theorem cmap_read_cff (cm : Option CmapTable.Table)
    (hc : ∀ t, cm = some t → (∀ kd ∈ t, CmapTable.ValidSub kd.1 kd.2) ∧ t.length < 65536 ∧
      (CmapTable.encode t).length < 4294967296) :
    optDecode (cm.map CmapTable.encode) CmapTable.decode = .ok cm := by
  cases cm with
  | none => rfl
  | some t =>
    obtain ⟨hv, hn, hsz⟩ := hc t rfl
    simp only [Option.map, optDecode, cmap_table t hv hn hsz]

/-- the `CFF ` table is present, not empty, and `cff.Read` accepts it -/
theorem hasDecode_cff (decCff : Bytes → Outcome CffPayload) (b : Bytes) (p : CffPayload)
    (h : b ≠ [] ∧ decCff b = .ok p) : hasDecode (some b) decCff = .ok (some p) := by
  obtain ⟨hne, hd⟩ := h
  have he : b.isEmpty = false := by
    cases b with
    | nil => exact absurd rfl hne
    | cons x r => rfl
  simp only [hasDecode, he, hd]
  rfl

/-- **Byte-level round trip, OpenType/CFF flavour.**  The bytes `Write` produces for a CFF font
in the domain are read back as the explicit normal form of its scalar fields (hmtx widths
replacing the CFF widths) and the same cmap table. -/
theorem file_roundtrip_cff (ld : LayoutDec) (decCff : Bytes → Outcome CffPayload) (ef : EnvF)
    (caretOf : Int → Int → Int) (F : CffFileFont) (h : InDomainFileCff ld decCff ef F) :
    ∃ b, writeFileCff ef F = .ok b ∧ readFileCff ld decCff caretOf b = .ok (nfFileCff F) := by
  -- hhea / hmtx
  have hwl : (F.payload.widths.map (fun w => toInt16 w.trunc)).length = F.payload.widths.length :=
    List.length_map _
  have hne : F.payload.widths.map (fun w => toInt16 w.trunc) ≠ [] := by
    intro e
    have := h.count.1
    rw [← hwl, e] at this
    simp at this
  have hwr : ∀ w ∈ F.payload.widths.map (fun w => toInt16 w.trunc), isInt16 w := by
    intro w hw
    obtain ⟨x, _, rfl⟩ := List.mem_map.mp hw
    exact toInt16_range _
  obtain ⟨hhea, hmtx, d, hmenc, hmdec, dw, da, dd, dg, dr, du⟩ :=
    hmtx_table (F.payload.widths.map (fun w => toInt16 w.trunc)) F.payload.extents
      F.scalars.ascent F.scalars.descent F.scalars.lineGap
      (ef.riseRun F.scalars.italicAngle).1 (ef.riseRun F.scalars.italicAngle).2
      hne (by rw [hwl]; exact h.count.2) (by rw [hwl]; exact h.extentsLen)
      hwr h.extents h.ascent h.descent h.lineGap h.caret.1 h.caret.2
  -- maxp
  obtain ⟨maxp, hmxenc, hmxdec⟩ :=
    Metrics.maxp_roundtrip ⟨F.payload.widths.length, none⟩
      ⟨by have := h.count.1; simp only; omega, by have := h.count.2; simp only; omega⟩
      (fun vs hvs => by cases hvs)
  -- the table map
  have hwt := writeTablesCff_eq ef F hhea hmtx maxp hmenc hmxenc
  -- the container
  obtain ⟨w, recs, adj, hw, hread, thhea, thmtx, tcmap, tos2, tname, tpost, tcff, tmaxp, thead,
      tgdef, tgsub, tgpos, tkern⟩ :=
    container_entries_cff _ _ _ _ _ _ _ _ _ _ _ _
      (by rw [rt_encodeHead_length]; omega) (h.size _ hwt)
  refine ⟨w.bytes, ?_, ?_⟩
  · unfold writeFileCff
    rw [hwt]
    simp only [hw]
  -- the table decoders
  obtain ⟨H, hH, hHrec, _⟩ := head_table (deriveHead (metaOfCff F))
    (Metrics.fontBBoxModel F.payload.extents) 0 adj h.head h.ctime h.mtime
  obtain ⟨hO, hOrec⟩ := os2_table (deriveOs2 (metaOfCff F))
    ⟨(charIndices F.cmap).1, (charIndices F.cmap).2,
      (Metrics.winMetricsModel (Metrics.fontBBoxModel F.payload.extents)).1,
      (Metrics.winMetricsModel (Metrics.fontBBoxModel F.payload.extents)).2⟩ h.os2
  obtain ⟨dec, hN, hNrec⟩ := name_table (deriveName ef.env (metaOfCff F)) h.name
    (subfamily_ne_nil (metaOfCff F))
  have hP := post_names_table (derivePost (metaOfCff F)) none (toInt16_range _) (toInt16_range _)
    (by intro ns hns; cases hns)
  have hC : optDecode (tableOf w.bytes recs (tag "cmap")) CmapTable.decode = .ok F.cmap := by
    rw [tcmap]; exact cmap_read_cff F.cmap h.cmap
  have hF : hasDecode (tableOf w.bytes recs (tag "CFF ")) decCff = .ok (some F.payload) := by
    rw [tcff]; exact hasDecode_cff decCff _ _ h.cff
  -- the abstract table set is `codec (derive env' (metaOfCff F))`
  have hT : tablesReadCff caretOf H ⟨F.payload.widths.length, none⟩
      (os2Read (deriveOs2 (metaOfCff F))
        ⟨(charIndices F.cmap).1, (charIndices F.cmap).2,
          (Metrics.winMetricsModel (Metrics.fontBBoxModel F.payload.extents)).1,
          (Metrics.winMetricsModel (Metrics.fontBBoxModel F.payload.extents)).2⟩)
      d dec F.cmap (codecPost (derivePost (metaOfCff F)), none) F.payload
      (F.gdef.map tokenOfBytes) (F.gsub.map tokenOfBytes) (F.gpos.map tokenOfBytes) =
      codec (derive { ef.env with caretOf := fun _ => caretOf d.rise d.run } (metaOfCff F)) := by
    rw [codec_derive_metaOfCff, deriveHmtx_cff]
    unfold tablesReadCff
    simp only [hHrec, hOrec, hNrec, dw, da, dd, dg, Int.toNat_natCast, h.cffInfo]
    rfl
  have hM : InDomain (metaOfCff F) := inDomain_metaOfCff F h.version
  have hGd : hasDecode (tableOf w.bytes recs (tag "GDEF")) ld.gdef = .ok (F.gdef.map tokenOfBytes) := by
    rw [tgdef]; exact hasDecode_guard _ _ h.gdef
  have hGs : hasDecode (tableOf w.bytes recs (tag "GSUB")) ld.gsub = .ok (F.gsub.map tokenOfBytes) := by
    rw [tgsub]; exact hasDecode_guard _ _ h.gsub
  have hGp : hasDecode (tableOf w.bytes recs (tag "GPOS")) ld.gpos = .ok (F.gpos.map tokenOfBytes) := by
    rw [tgpos]; exact hasDecode_guard _ _ h.gpos
  rw [readFileCff_of ld decCff caretOf w.bytes recs hread _ _ _ _ _ _ _ thead tmaxp tos2 thhea thmtx tname tpost
    H hH _ hmxdec _ hO d hmdec dec hN F.cmap hC _ hP F.payload hF _ _ _ hGd hGs hGp tkern
    (by rw [hT]; exact write_accepted _ _ hM)]
  rw [hT, read_write _ _ hM]
  rfl

end SfntV.FontFile
