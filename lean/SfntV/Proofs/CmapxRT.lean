/-
Lemmas for C09 (cmap table container): Decode (Encode t) = t.
-/
import SfntV.Proofs.CmapxTable

namespace SfntV.CmapTable
open SfntV

/-- a subtable with a valid format/length header under a key obeying the language rule -/
def ValidSub (k : Key) (d : Bytes) : Prop :=
  k.p ≤ 4 ∧ k.e < 65536 ∧
  ∃ f, rd16 d 0 = .ok f ∧
    match hdrKind f with
    | .len16 => 10 ≤ d.length ∧ rd16 d 2 = .ok d.length ∧
        ∃ lang, rd16 d 4 = .ok lang ∧ k.l = if k.p ≠ 1 then 0 else lang
    | .len32 => 12 ≤ d.length ∧ rd32 d 4 = .ok d.length ∧
        ∃ lang, rd16 d 10 = .ok lang ∧ k.l = if k.p ≠ 1 then 0 else lang
    | .len14 => 10 ≤ d.length ∧ rd32 d 2 = .ok d.length ∧ k.l = 0
    | .bad => False

theorem ValidSub.len {k : Key} {d : Bytes} (h : ValidSub k d) : 10 ≤ d.length := by
  obtain ⟨_, _, f, _, hm⟩ := h
  cases hk : hdrKind f <;> rw [hk] at hm <;> simp only [] at hm
  · exact hm.1
  · have := hm.1; omega
  · exact hm.1

theorem rd16_of_slice (b d : Bytes) (o j : Nat) (hs : (b.drop o).take d.length = d) (hj : j + 2 ≤ d.length) :
    rd16 b (o + j) = rd16 d j := by
  have := rd16_slice b o d.length j hj
  rw [hs] at this
  exact this.symm

theorem rd32_of_slice (b d : Bytes) (o j : Nat) (hs : (b.drop o).take d.length = d) (hj : j + 4 ≤ d.length) :
    rd32 b (o + j) = rd32 d j := by
  unfold rd32
  rw [rd16_of_slice b d o j hs (by omega), show o + j + 2 = o + (j + 2) by omega,
    rd16_of_slice b d o (j+2) hs (by omega)]

theorem lenLang_len16_ok (b : Bytes) (eod o len lang : Nat)
    (h1 : rd16 b (o+2) = .ok len) (h2 : rd16 b (o+4) = .ok lang) :
    lenLang b eod o .len16 = .ok (len, lang, 10) := by
  unfold lenLang
  simp only [h1, h2]

theorem lenLang_len32_ok (b : Bytes) (eod o len lang : Nat) (h : ¬ o > sub32 eod 12)
    (h1 : rd32 b (o+4) = .ok len) (h2 : rd16 b (o+10) = .ok lang) :
    lenLang b eod o .len32 = .ok (len, lang, 12) := by
  unfold lenLang
  simp only [if_neg h, h1, h2]

theorem lenLang_len14_ok (b : Bytes) (eod o len : Nat) (h1 : rd32 b (o+2) = .ok len) :
    lenLang b eod o .len14 = .ok (len, 0, 10) := by
  unfold lenLang
  simp only [h1]

/-- one iteration of Decode's loop on a record that points at a valid subtable -/
theorem record_valid (b : Bytes) (eoh i : Nat) (segs segs' : List Seg) (k : Key) (d : Bytes) (o : Nat)
    (h32 : b.length < 4294967296) (h12 : 12 ≤ b.length)
    (hp : rd16 b (4 + i*8) = .ok k.p) (he : rd16 b (6 + i*8) = .ok k.e) (ho : rd32 b (8 + i*8) = .ok o)
    (hs : (b.drop o).take d.length = d) (hfit : o + d.length ≤ b.length) (heoh : eoh ≤ o)
    (hv : ValidSub k d) (hov : overlap segs o d.length = some segs') :
    record b eoh b.length i segs = .ok ((k, d), segs') := by
  have hlen := hv.len
  obtain ⟨hp4, _, f, hf, hm⟩ := hv
  unfold record
  simp only [hp, he, ho]
  rw [if_neg (by omega)]
  have hs10 : sub32 b.length 10 = b.length - 10 := sub32_eq _ _ (by omega) h32
  have hs12 : sub32 b.length 12 = b.length - 12 := sub32_eq _ _ (by omega) h32
  have hso : sub32 b.length o = b.length - o := sub32_eq _ _ (by omega) h32
  rw [if_neg (by omega)]
  have hf' : rd16 b o = .ok f := by
    have := rd16_of_slice b d o 0 hs (by omega)
    rw [Nat.add_zero] at this
    rw [this, hf]
  simp only [hf']
  have hsl : slice b o d.length = .ok d := by
    unfold slice
    rw [if_neg (by omega), hs]
  cases hk : hdrKind f <;> rw [hk] at hm <;> simp only [] at hm
  · obtain ⟨_, h2, lang, h4, hl⟩ := hm
    rw [lenLang_len16_ok b b.length o d.length lang
      (by rw [rd16_of_slice b d o 2 hs (by omega)]; exact h2)
      (by rw [rd16_of_slice b d o 4 hs (by omega)]; exact h4)]
    dsimp only
    rw [if_neg (by omega)]
    simp only [hov, hsl]
    have hk' : (⟨k.p, k.e, if k.p ≠ 1 then 0 else lang⟩ : Key) = k := by
      rw [← hl]
    rw [hk']
  · obtain ⟨hd12, h2, lang, h4, hl⟩ := hm
    have h12o : ¬ (o > sub32 b.length 12) := by rw [hs12]; omega
    rw [lenLang_len32_ok b b.length o d.length lang h12o
      (by rw [rd32_of_slice b d o 4 hs (by omega)]; exact h2)
      (by rw [rd16_of_slice b d o 10 hs (by omega)]; exact h4)]
    dsimp only
    rw [if_neg (by omega)]
    simp only [hov, hsl]
    have hk' : (⟨k.p, k.e, if k.p ≠ 1 then 0 else lang⟩ : Key) = k := by
      rw [← hl]
    rw [hk']
  · obtain ⟨_, h2, hl⟩ := hm
    rw [lenLang_len14_ok b b.length o d.length
      (by rw [rd32_of_slice b d o 2 hs (by omega)]; exact h2)]
    dsimp only
    rw [if_neg (by omega)]
    simp only [hov, hsl]
    have hk' : (⟨k.p, k.e, if k.p ≠ 1 then 0 else 0⟩ : Key) = k := by
      have : (if k.p ≠ 1 then 0 else 0) = k.l := by rw [hl]; split <;> rfl
      rw [this]
    rw [hk']

/-! ### the overlap check on the layout Encode produces -/

/-- segments in ascending order, non-empty, disjoint, between `lo` and `pos` -/
def segsOk : Nat → List Seg → Nat → Prop
  | lo, [], pos => lo ≤ pos
  | lo, s :: r, pos => lo ≤ s.start ∧ s.start < s.stop ∧ segsOk s.stop r pos

theorem segsOk_bounds (segs : List Seg) : ∀ lo pos, segsOk lo segs pos →
    lo ≤ pos ∧ ∀ s ∈ segs, lo ≤ s.start ∧ s.start < s.stop ∧ s.stop ≤ pos := by
  induction segs with
  | nil => intro lo pos h; exact ⟨h, by intro s hs; cases hs⟩
  | cons s r ih =>
    intro lo pos h
    obtain ⟨h1, h2, h3⟩ := h
    have := ih _ _ h3
    refine ⟨by omega, ?_⟩
    intro x hx
    rcases List.mem_cons.mp hx with rfl | hx
    · exact ⟨h1, h2, this.1⟩
    · have := this.2 x hx; exact ⟨by omega, this.2.1, this.2.2⟩

theorem searchIdx_all_lt (o : Nat) (segs : List Seg) (h : ∀ s ∈ segs, s.start < o) :
    searchIdx o segs = segs.length := by
  induction segs with
  | nil => rfl
  | cons s r ih =>
    have hs := h s List.mem_cons_self
    unfold searchIdx
    rw [if_neg (by omega), ih (fun x hx => h x (List.mem_cons_of_mem _ hx))]
    rfl

theorem segsOk_append (segs : List Seg) : ∀ lo pos len, segsOk lo segs pos → 0 < len →
    segsOk lo (segs ++ [⟨pos, pos + len⟩]) (pos + len) := by
  induction segs with
  | nil => intro lo pos len h hl; exact ⟨h, by show pos < pos + len; omega, by show pos + len ≤ pos + len; omega⟩
  | cons s r ih =>
    intro lo pos len h hl
    exact ⟨h.1, h.2.1, ih _ _ _ h.2.2 hl⟩

theorem overlap_append (segs : List Seg) (lo pos len : Nat) (h : segsOk lo segs pos) (_hl : 0 < len)
    (h32 : pos + len < 4294967296) :
    overlap segs pos len = some (segs ++ [⟨pos, pos + len⟩]) := by
  have hb := (segsOk_bounds segs lo pos h).2
  have hi : searchIdx pos segs = segs.length :=
    searchIdx_all_lt pos segs (fun s hs => by have := hb s hs; omega)
  unfold overlap
  simp only [hi, true_or, if_true, Nat.lt_irrefl, false_and, or_false]
  rw [Nat.mod_eq_of_lt h32]
  have hno : ¬ (segs.length > 0 ∧ pos < (segs.getD (segs.length - 1) ⟨0, 0⟩).stop) := by
    intro ⟨h0, h1⟩
    have hm : segs.getD (segs.length - 1) ⟨0, 0⟩ ∈ segs := by
      rw [List.getD_eq_getElem?_getD, List.getElem?_eq_getElem (by omega)]
      exact List.getElem_mem _
    have := hb _ hm
    omega
  rw [if_neg hno]
  unfold insertAt
  rw [List.take_length, List.drop_length]

theorem searchIdx_found (o : Nat) (segs : List Seg) : ∀ lo pos, segsOk lo segs pos →
    (∃ s ∈ segs, s.start = o) →
    searchIdx o segs < segs.length ∧ (segs.getD (searchIdx o segs) ⟨0, 0⟩).start = o := by
  induction segs with
  | nil => intro lo pos _ ⟨s, hs, _⟩; cases hs
  | cons s r ih =>
    intro lo pos h ⟨x, hx, hxo⟩
    obtain ⟨h1, h2, h3⟩ := h
    have hb := (segsOk_bounds r _ _ h3).2
    unfold searchIdx
    by_cases hle : o ≤ s.start
    · rw [if_pos hle]
      refine ⟨by simp, ?_⟩
      rcases List.mem_cons.mp hx with rfl | hx
      · exact hxo
      · have := hb x hx; omega
    · rw [if_neg hle]
      have hx' : x ∈ r := by
        rcases List.mem_cons.mp hx with rfl | hx
        · omega
        · exact hx
      have := ih _ _ h3 ⟨x, hx', hxo⟩
      refine ⟨by simp only [List.length_cons]; omega, ?_⟩
      simpa [List.getD_cons_succ] using this.2

theorem overlap_same (segs : List Seg) (lo pos o len : Nat) (h : segsOk lo segs pos)
    (hm : ∃ s ∈ segs, s.start = o) : overlap segs o len = some segs := by
  have := searchIdx_found o segs lo pos h hm
  unfold overlap
  simp only []
  rw [if_neg (by omega)]

/-! ### reading the directory records Encode writes -/

theorem rd8_append (pre l : Bytes) (j : Nat) : rd8 (pre ++ l) (pre.length + j) = rd8 l j := by
  unfold rd8
  rw [List.getElem?_append_right (by omega), Nat.add_sub_cancel_left]

theorem rd16_append (pre l : Bytes) (j : Nat) : rd16 (pre ++ l) (pre.length + j) = rd16 l j := by
  unfold rd16
  rw [rd8_append, show pre.length + j + 1 = pre.length + (j + 1) by omega, rd8_append]

theorem rd32_append (pre l : Bytes) (j : Nat) : rd32 (pre ++ l) (pre.length + j) = rd32 l j := by
  unfold rd32
  rw [rd16_append, show pre.length + j + 2 = pre.length + (j + 2) by omega, rd16_append]

theorem rd_rec (x : Ext) (post : Bytes) (hp : x.key.p < 65536) (he : x.key.e < 65536)
    (ho : x.offs < 4294967296) :
    rd16 (recBytes x ++ post) 0 = .ok x.key.p ∧ rd16 (recBytes x ++ post) 2 = .ok x.key.e ∧
    rd32 (recBytes x ++ post) 4 = .ok x.offs := by
  refine ⟨?_, ?_, ?_⟩
  · simp only [recBytes, be16, be32, rd16, rd8, List.cons_append, List.nil_append, List.getElem?_cons_zero,
      List.getElem?_cons_succ, UInt8.toNat_ofNat']
    congr 1; omega
  · simp only [recBytes, be16, be32, rd16, rd8, List.cons_append, List.nil_append, List.getElem?_cons_zero,
      List.getElem?_cons_succ, UInt8.toNat_ofNat']
    congr 1; omega
  · simp only [recBytes, be16, be32, rd32, rd16, rd8, List.cons_append, List.nil_append, List.getElem?_cons_zero,
      List.getElem?_cons_succ, UInt8.toNat_ofNat']
    congr 1; omega

theorem assign_length (t : Table) : ∀ prev pos, (assign prev pos t).length = t.length := by
  induction t with
  | nil => intros; rfl
  | cons kd rest ih =>
    intro prev pos
    obtain ⟨k, d⟩ := kd
    unfold assign
    split <;> simp [ih]

theorem flatMap_recBytes_length (l : List Ext) : (l.flatMap recBytes).length = 8 * l.length := by
  induction l with
  | nil => rfl
  | cons x l ih => simp [List.flatMap_cons, recBytes, be16, be32, ih]; omega

theorem drop_take_in (A D T : Bytes) (off len : Nat) (h : off + len ≤ D.length) :
    ((A ++ (D ++ T)).drop (A.length + off)).take len = (D.drop off).take len := by
  rw [List.drop_append]
  have : List.drop (A.length + off) A = [] := List.drop_eq_nil_of_le (by omega)
  rw [this, List.nil_append, Nat.add_sub_cancel_left, List.drop_append]
  rw [List.take_append_of_le_length (by rw [List.length_drop]; omega)]

theorem drop_take_prefix (D E : Bytes) (off len : Nat) (h : off + len ≤ D.length) :
    ((D ++ E).drop off).take len = (D.drop off).take len := by
  have := drop_take_in [] D E off len h
  simpa using this

/-- Decode's loop over the records and data Encode laid out (generalised over the part already read) -/
theorem loop_encode (t2 : Table) : ∀ (prev : List (Bytes × Nat)) (pos i : Nat) (segs : List Seg)
    (H R1 D1 b : Bytes) (eoh : Nat),
    H.length = 4 → R1.length = 8 * i → eoh = 4 + 8 * (i + t2.length) → pos = eoh + D1.length →
    (∀ kd ∈ t2, ValidSub kd.1 kd.2) →
    (∀ q ∈ prev, q.1 ≠ [] → ∃ off, q.2 = eoh + off ∧ off + q.1.length ≤ D1.length ∧
        (D1.drop off).take q.1.length = q.1 ∧ ∃ s ∈ segs, s.start = q.2) →
    segsOk eoh segs pos →
    b = (H ++ R1 ++ (assign prev pos t2).flatMap recBytes) ++ (D1 ++ (assign prev pos t2).flatMap (·.data)) →
    b.length < 4294967296 →
    loop b eoh b.length i t2.length segs = .ok t2 := by
  induction t2 with
  | nil => intros; rfl
  | cons kd t2 ih =>
    intro prev pos i segs H R1 D1 b eoh hH hR heoh hpos hvalid hinv hsegs hb h32
    obtain ⟨k, d⟩ := kd
    have hv : ValidSub k d := hvalid (k, d) List.mem_cons_self
    have hvalid' : ∀ kd ∈ t2, ValidSub kd.1 kd.2 := fun x hx => hvalid x (List.mem_cons_of_mem _ hx)
    have hdl := hv.len
    have hkp : k.p < 65536 := by have := hv.1; omega
    have hke : k.e < 65536 := hv.2.1
    simp only [List.length_cons] at heoh ⊢
    rw [loop]
    cases hfind : prev.find? (fun q => q.1 == d) with
    | none =>
      have hass : assign prev pos ((k, d) :: t2) =
          ⟨k, pos, d⟩ :: assign (prev ++ [(d, pos)]) ((pos + d.length) % 4294967296) t2 := by
        rw [assign]; simp only [hfind]
      rw [hass] at hb
      simp only [List.flatMap_cons] at hb
      generalize hext : assign (prev ++ [(d, pos)]) ((pos + d.length) % 4294967296) t2 = ext' at hb
      have hel : ext'.length = t2.length := by rw [← hext, assign_length]
      have hbl : b.length = 4 + 8 * i + 8 + 8 * t2.length + D1.length + d.length +
          (ext'.flatMap (·.data)).length := by
        rw [hb]
        simp only [List.length_append, flatMap_recBytes_length, hH, hR, hel, recBytes, be16, be32,
          List.length_cons, List.length_nil]
        omega
      have hmod : (pos + d.length) % 4294967296 = pos + d.length := Nat.mod_eq_of_lt (by omega)
      have hb2 : b = (H ++ R1) ++ (recBytes ⟨k, pos, d⟩ ++
          (ext'.flatMap recBytes ++ (D1 ++ (d ++ ext'.flatMap (·.data))))) := by
        rw [hb]; simp only [List.append_assoc]
      have hrr := rd_rec ⟨k, pos, d⟩ (ext'.flatMap recBytes ++ (D1 ++ (d ++ ext'.flatMap (·.data))))
        hkp hke (by show pos < 4294967296; omega)
      have hpl : (H ++ R1).length = 4 + i * 8 := by rw [List.length_append, hH, hR]; omega
      have hp : rd16 b (4 + i * 8) = .ok k.p := by
        rw [hb2, ← hpl, ← Nat.add_zero (H ++ R1).length, rd16_append]; exact hrr.1
      have he : rd16 b (6 + i * 8) = .ok k.e := by
        rw [hb2, show 6 + i * 8 = (H ++ R1).length + 2 by omega, rd16_append]; exact hrr.2.1
      have ho : rd32 b (8 + i * 8) = .ok pos := by
        rw [hb2, show 8 + i * 8 = (H ++ R1).length + 4 by omega, rd32_append]; exact hrr.2.2
      have hb3 : b = (H ++ R1 ++ recBytes ⟨k, pos, d⟩ ++ ext'.flatMap recBytes) ++
          ((D1 ++ d) ++ ext'.flatMap (·.data)) := by
        rw [hb]; simp only [List.append_assoc]
      have hAl : (H ++ R1 ++ recBytes ⟨k, pos, d⟩ ++ ext'.flatMap recBytes).length = eoh := by
        simp only [List.length_append, flatMap_recBytes_length, hH, hR, hel, recBytes, be16, be32,
          List.length_cons, List.length_nil]
        omega
      have hs : (b.drop pos).take d.length = d := by
        obtain ⟨A, hA, hAl'⟩ : ∃ A : Bytes, b = A ++ ((D1 ++ d) ++ ext'.flatMap (·.data)) ∧ A.length = eoh :=
          ⟨_, hb3, hAl⟩
        rw [hA, hpos, ← hAl', drop_take_in A (D1 ++ d) _ D1.length d.length (by rw [List.length_append]; omega)]
        rw [List.drop_append, List.drop_eq_nil_of_le (Nat.le_refl _), Nat.sub_self, List.drop_zero,
          List.nil_append, List.take_length]
      have hov := overlap_append segs eoh pos d.length hsegs (by omega) (by omega)
      rw [record_valid b eoh i segs _ k d pos h32 (by omega) hp he ho hs (by omega) (by omega) hv hov]
      simp only []
      have hrec := ih (prev ++ [(d, pos)]) (pos + d.length) (i + 1) (segs ++ [⟨pos, pos + d.length⟩])
        H (R1 ++ recBytes ⟨k, pos, d⟩) (D1 ++ d) b eoh hH
        (by simp only [List.length_append, hR, recBytes, be16, be32, List.length_cons, List.length_nil]; omega)
        (by omega) (by rw [List.length_append]; omega) hvalid'
        (by
          intro q hq hne
          rcases List.mem_append.mp hq with hq | hq
          · obtain ⟨off, h1, h2, h3, s, hs1, hs2⟩ := hinv q hq hne
            refine ⟨off, h1, by rw [List.length_append]; omega, ?_, s, List.mem_append_left _ hs1, hs2⟩
            rw [drop_take_prefix _ _ _ _ h2]; exact h3
          · rw [List.mem_singleton] at hq
            subst hq
            refine ⟨D1.length, hpos, (by show D1.length + d.length ≤ (D1 ++ d).length; rw [List.length_append]; omega), ?_, ⟨pos, pos + d.length⟩,
              List.mem_append_right _ List.mem_cons_self, rfl⟩
            show ((D1 ++ d).drop D1.length).take d.length = d
            rw [List.drop_append, List.drop_eq_nil_of_le (Nat.le_refl _), Nat.sub_self, List.drop_zero,
              List.nil_append, List.take_length])
        (segsOk_append segs eoh pos d.length hsegs (by omega))
        (by rw [← hmod, hext, hb3]; simp only [List.append_assoc]) h32
      rw [hrec]
    | some q =>
      have hass : assign prev pos ((k, d) :: t2) =
          ⟨k, q.2, []⟩ :: assign (prev ++ [([], q.2)]) pos t2 := by
        rw [assign]; simp only [hfind]
      rw [hass] at hb
      simp only [List.flatMap_cons, List.nil_append] at hb
      generalize hext : assign (prev ++ [([], q.2)]) pos t2 = ext' at hb
      have hel : ext'.length = t2.length := by rw [← hext, assign_length]
      have hqm : q ∈ prev := List.mem_of_find?_eq_some hfind
      have hqd : q.1 = d := by
        have := List.find?_some hfind
        simpa using this
      have hqne : q.1 ≠ [] := by
        rw [hqd]; intro h0; rw [h0] at hdl; simp at hdl
      obtain ⟨off, hq2, hoff, hqs, hseg⟩ := hinv q hqm hqne
      rw [hqd] at hoff hqs
      have hbl : b.length = 4 + 8 * i + 8 + 8 * t2.length + D1.length +
          (ext'.flatMap (·.data)).length := by
        rw [hb]
        simp only [List.length_append, flatMap_recBytes_length, hH, hR, hel, recBytes, be16, be32,
          List.length_cons, List.length_nil]
        omega
      have hb2 : b = (H ++ R1) ++ (recBytes ⟨k, q.2, []⟩ ++
          (ext'.flatMap recBytes ++ (D1 ++ ext'.flatMap (·.data)))) := by
        rw [hb]; simp only [List.append_assoc]
      have hrr := rd_rec ⟨k, q.2, []⟩ (ext'.flatMap recBytes ++ (D1 ++ ext'.flatMap (·.data)))
        hkp hke (by show q.2 < 4294967296; omega)
      have hpl : (H ++ R1).length = 4 + i * 8 := by rw [List.length_append, hH, hR]; omega
      have hp : rd16 b (4 + i * 8) = .ok k.p := by
        rw [hb2, ← hpl, ← Nat.add_zero (H ++ R1).length, rd16_append]; exact hrr.1
      have he : rd16 b (6 + i * 8) = .ok k.e := by
        rw [hb2, show 6 + i * 8 = (H ++ R1).length + 2 by omega, rd16_append]; exact hrr.2.1
      have ho : rd32 b (8 + i * 8) = .ok q.2 := by
        rw [hb2, show 8 + i * 8 = (H ++ R1).length + 4 by omega, rd32_append]; exact hrr.2.2
      have hb3 : b = (H ++ R1 ++ recBytes ⟨k, q.2, []⟩ ++ ext'.flatMap recBytes) ++
          (D1 ++ ext'.flatMap (·.data)) := by
        rw [hb]; simp only [List.append_assoc]
      have hAl : (H ++ R1 ++ recBytes ⟨k, q.2, []⟩ ++ ext'.flatMap recBytes).length = eoh := by
        simp only [List.length_append, flatMap_recBytes_length, hH, hR, hel, recBytes, be16, be32,
          List.length_cons, List.length_nil]
        omega
      have hs : (b.drop q.2).take d.length = d := by
        obtain ⟨A, hA, hAl'⟩ : ∃ A : Bytes, b = A ++ (D1 ++ ext'.flatMap (·.data)) ∧ A.length = eoh :=
          ⟨_, hb3, hAl⟩
        rw [hA, hq2, ← hAl', drop_take_in A D1 _ off d.length hoff]
        exact hqs
      have hov := overlap_same segs eoh pos q.2 d.length hsegs hseg
      rw [record_valid b eoh i segs _ k d q.2 h32 (by omega) hp he ho hs (by omega) (by omega) hv hov]
      simp only []
      have hrec := ih (prev ++ [([], q.2)]) pos (i + 1) segs
        H (R1 ++ recBytes ⟨k, q.2, []⟩) D1 b eoh hH
        (by simp only [List.length_append, hR, recBytes, be16, be32, List.length_cons, List.length_nil]; omega)
        (by omega) hpos hvalid'
        (by
          intro x hx hne
          rcases List.mem_append.mp hx with hx | hx
          · exact hinv x hx hne
          · rw [List.mem_singleton] at hx
            subst hx
            exact absurd rfl hne)
        hsegs
        (by rw [hext, hb3]; simp only [List.append_assoc]) h32
      rw [hrec]

/-! ### sharing -/

/-- the subtables Encode stores: each distinct byte string once, at its first occurrence -/
def stored : List Bytes → Table → List Bytes
  | _, [] => []
  | seen, (_, d) :: rest => if d ∈ seen then stored seen rest else d :: stored (d :: seen) rest

theorem assign_data (t : Table) : ∀ (prev : List (Bytes × Nat)) (pos : Nat) (seen : List Bytes),
    (∀ kd ∈ t, kd.2 ≠ []) →
    (∀ d : Bytes, d ≠ [] → ((∃ q ∈ prev, q.1 = d) ↔ d ∈ seen)) →
    (assign prev pos t).flatMap (·.data) = (stored seen t).flatMap id := by
  induction t with
  | nil => intros; rfl
  | cons kd t ih =>
    intro prev pos seen hne hinv
    obtain ⟨k, d⟩ := kd
    have hd : d ≠ [] := hne (k, d) List.mem_cons_self
    have hne' : ∀ kd ∈ t, kd.2 ≠ [] := fun x hx => hne x (List.mem_cons_of_mem _ hx)
    rw [assign, stored]
    cases hfind : prev.find? (fun q => q.1 == d) with
    | none =>
      have hns : d ∉ seen := by
        intro hs
        obtain ⟨q, hq, hqd⟩ := (hinv d hd).mpr hs
        have := List.find?_eq_none.mp hfind q hq
        simp [hqd] at this
      simp only [hns, if_false, List.flatMap_cons, id]
      rw [ih (prev ++ [(d, pos)]) _ (d :: seen) hne']
      intro d' hd'
      constructor
      · intro ⟨q, hq, hqd⟩
        rcases List.mem_append.mp hq with hq | hq
        · exact List.mem_cons_of_mem _ ((hinv d' hd').mp ⟨q, hq, hqd⟩)
        · rw [List.mem_singleton] at hq; subst hq; rw [← hqd]; exact List.mem_cons_self
      · intro hm
        rcases List.mem_cons.mp hm with rfl | hm
        · exact ⟨(d', pos), List.mem_append_right _ List.mem_cons_self, rfl⟩
        · obtain ⟨q, hq, hqd⟩ := (hinv d' hd').mpr hm
          exact ⟨q, List.mem_append_left _ hq, hqd⟩
    | some q =>
      have hqm : q ∈ prev := List.mem_of_find?_eq_some hfind
      have hqd : q.1 = d := by
        have := List.find?_some hfind
        simpa using this
      have hs : d ∈ seen := (hinv d hd).mp ⟨q, hqm, hqd⟩
      simp only [hs, if_true, List.flatMap_cons, List.nil_append]
      rw [ih (prev ++ [([], q.2)]) pos seen hne']
      intro d' hd'
      constructor
      · intro ⟨x, hx, hxd⟩
        rcases List.mem_append.mp hx with hx | hx
        · exact (hinv d' hd').mp ⟨x, hx, hxd⟩
        · rw [List.mem_singleton] at hx; subst hx; exact absurd hxd.symm hd'
      · intro hm
        obtain ⟨x, hx, hxd⟩ := (hinv d' hd').mpr hm
        exact ⟨x, List.mem_append_left _ hx, hxd⟩

end SfntV.CmapTable
