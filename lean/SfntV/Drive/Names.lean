import SfntV.Model.NamesCodec
import SfntV.Model.NamesPost
import SfntV.Model.NamesTable
import SfntV.Model.NamesLocale
import SfntV.Model.NamesChoose
import SfntV.Spec.Names
import SfntV.Generated.Cmapx

namespace SfntV.Drive.Names
open SfntV SfntV.Names

def hexNats (s : String) : Option (List Nat) := (fromHex s).map fun b => b.map UInt8.toNat
def natsHex (l : List Nat) : String := toHex (l.map UInt8.ofNat)

/-- `k=<count or -1> names=<hex>,<hex>,…` -/
def parseNames (fs : List (String × String)) : Option (Option (List GName)) :=
  match (getField fs "k").bind String.toInt? with
  | none => none
  | some k =>
    if k < 0 then some none
    else if k == 0 then some (some [])
    else
      match getField fs "names" with
      | none => none
      | some s => ((s.splitOn ",").mapM hexNats).map some

def showNames : Option (List GName) → String
  | none => "-1;"
  | some ns => s!"{ns.length};" ++ ",".intercalate (ns.map natsHex)

def showHdr (h : PostHdr) : String := s!"{h.angle},{h.upos},{h.uthick},{if h.fixed then 1 else 0}"

def parseHdr (s : String) : Option PostHdr :=
  match parseNatList s with
  | some [a, p, t, f] => some ⟨a, p, t, f != 0⟩
  | _ => none


/-! name table transport: entries `plat|tag|id|runes`, joined by `,`; runes joined by `.`, a run
of four or more equal values written `x*n` -/

def rleTokens : List Nat → List String
  | [] => []
  | x :: rest =>
    let run := rest.takeWhile (· == x)
    let n := run.length + 1
    let tail := rest.drop run.length
    have : tail.length < (x :: rest).length := by
      simp only [tail, List.length_drop, List.length_cons]; omega
    if n ≥ 4 then s!"{x}*{n}" :: rleTokens tail
    else List.replicate n (toString x) ++ rleTokens tail
termination_by l => l.length

def showRunes (l : List Nat) : String := ".".intercalate (rleTokens l)

def parseRunes (s : String) : Option (List Nat) :=
  if s.isEmpty then some [] else
  ((s.splitOn ".").mapM fun (t : String) =>
    match t.splitOn "*" with
    | [x] => x.toNat?.map fun v => [v]
    | [x, n] => do
      let v ← x.toNat?
      let k ← n.toNat?
      pure (List.replicate k v)
    | _ => none).map List.flatten

def parseEntries (s : String) : Option (List Entry) :=
  if s.isEmpty then some [] else
  ((s.splitOn ",").mapM fun (t : String) =>
    match t.splitOn "|" with
    | [p, tag, id, rr] => do
      let p ← p.toNat?
      let rr ← parseRunes rr
      match id.splitOn "+" with
      | [a] => do
        let id ← a.toNat?
        pure [(⟨p, tag, id, rr⟩ : Entry)]
      | [a, n] => do   -- `a+n`: the ids a, a+1, …, a+n-1 with the same string
        let a ← a.toNat?
        let n ← n.toNat?
        pure ((List.range n).map fun i => (⟨p, tag, a + i, rr⟩ : Entry))
      | _ => none
    | _ => none).map List.flatten

def entryLe (a b : Entry) : Bool :=
  if a.plat ≠ b.plat then a.plat < b.plat
  else if a.tag ≠ b.tag then a.tag < b.tag
  else a.id ≤ b.id

/-- newest-first list of `set` calls to the canonical sorted view -/
def dedupe : List Entry → List Entry → List Entry
  | [], acc => acc.reverse
  | e :: rest, acc =>
    if acc.any (fun x => x.plat == e.plat && x.tag == e.tag && x.id == e.id) then dedupe rest acc
    else dedupe rest (e :: acc)

def showEntries (l : List Entry) : String :=
  ",".intercalate (((dedupe l []).mergeSort entryLe).map fun e =>
    s!"{e.plat}|{e.tag}|{e.id}|{showRunes e.val}")

def fnv (s : String) : Nat :=
  s.toUTF8.toList.foldl (fun h b => (h ^^^ b.toNat) * 1099511628211 % 18446744073709551616)
    14695981039346656037

def sliceOf (data : List Nat) (a n : Nat) : Option (List Nat) :=
  if a + n ≤ data.length then some ((data.drop a).take n) else none

/-- order-independent summary of an encoded name table (same function on the Go side) -/
def summarize (data : List Nat) : String :=
  let n := data.getD 2 0 * 256 + data.getD 3 0
  let so := data.getD 4 0 * 256 + data.getD 5 0
  let recs := parseRecs n (data.drop 6)
  s!"{n};{so};{data.length};" ++ ",".intercalate (recs.map fun r =>
    s!"{r.pid}.{r.eid}.{r.lang}.{r.nid}.{r.len}:" ++
      match sliceOf data (so + r.off) r.len with
      | some b => natsHex b
      | none => "oob")

def specRecLe (a b : Spec.NameRec) : Bool :=
  if a.plat ≠ b.plat then a.plat < b.plat
  else if a.enc ≠ b.enc then a.enc < b.enc
  else if a.lang ≠ b.lang then a.lang < b.lang
  else a.id ≤ b.id

/-- names of `names.postrt`: `c` custom names g0…, then standard names cyclically -/
def genNames (std : List GName) (n c : Nat) : List GName :=
  (List.range n).map fun i =>
    if i < c then (s!"g{i}").toUTF8.toList.map UInt8.toNat else std.getD (i % 258) []

def prefixes : List String := ["names."]

@[noinline] def handleWith (tbl : List GName) (std : Array (List Nat)) (op : String) (fs : List (String × String)) : String :=
  if op == "names.macdec" then
    match (getField fs "b").bind hexNats with
    | some b => natsToString (macDecode b)
    | none => "bad-case"
  else if op == "names.macenc" then
    match (getField fs "r").bind parseNatList with
    | some r => natsHex (macEncode r)
    | none => "bad-case"
  else if op == "names.u16enc" then
    match (getField fs "r").bind parseNatList with
    | some r => natsHex (utf16Encode r)
    | none => "bad-case"
  else if op == "names.u16dec" then
    match (getField fs "b").bind hexNats with
    | some b => natsToString (utf16Decode b)
    | none => "bad-case"
  else if op == "names.postenc" then
    match (getField fs "hdr").bind parseHdr, parseNames fs with
    | some h, some ns =>
      match postEncodeCheckedWith tbl h ns with
      | .ok b => natsHex b
      | _ => "panic"
    | _, _ => "bad-case"
  else if op == "names.postread" then
    match (getField fs "b").bind hexNats with
    | some b =>
      match postReadWith tbl b with
      | .ok h ns => "ok:" ++ showHdr h ++ ";" ++ showNames ns
      | .err => "err"
      | .unsupported => "unsupported"
    | none => "bad-case"
  else if op == "names.postspec" then
    match (getField fs "b").bind hexNats with
    | some b =>
      match Spec.postNamesWith std b with
      | some ns => showNames ns
      | none => "malformed"
    | none => "bad-case"
  else if op == "names.enc" then
    match (getField fs "info").bind parseEntries, (getField fs "eid").bind String.toNat? with
    | some info, some eid =>
      match nameEncodeChecked info eid with
      | .ok b => natsHex b
      | _ => "panic"
    | _, _ => "bad-case"
  else if op == "names.encsum" then
    match (getField fs "info").bind parseEntries, (getField fs "eid").bind String.toNat? with
    | some info, some eid =>
      match nameEncodeChecked info eid with
      | .ok b => summarize b
      | _ => "panic"
    | _, _ => "bad-case"
  else if op == "names.dec" then
    match (getField fs "b").bind hexNats with
    | some b =>
      match nameDecode b with
      | some l => "ok:" ++ showEntries l
      | none => "err"
    | none => "bad-case"
  else if op == "names.namespec" then
    match (getField fs "b").bind hexNats with
    | some b =>
      match Spec.nameRecords b with
      | some l => ",".intercalate ((l.mergeSort specRecLe).map fun r =>
          s!"{r.plat}|{r.enc}|{r.lang}|{r.id}|{showRunes r.val}")
      | none => "malformed"
    | none => "bad-case"
  else if op == "names.namert" then
    -- the property's prediction (C14_name_checked_roundtrip): the encoder refuses loudly, or the
    -- view of the Info comes back unchanged
    match (getField fs "info").bind parseEntries, (getField fs "eid").bind String.toNat? with
    | some info, some eid =>
      match nameEncodeChecked info eid with
      | .ok _ =>
        let c := showEntries (info.filter fun e => e.val ≠ []).reverse
        s!"{c.length};{fnv c}"
      | _ => "panic"
    | _, _ => "bad-case"
  else if op == "names.postrt" then
    match (getField fs "n").bind String.toNat?, (getField fs "c").bind String.toNat? with
    | some n, some c =>
      -- prediction (C14_post_checked_roundtrip): refusal, or the list comes back unchanged
      let names := genNames tbl n c
      if names == tbl || postFits tbl names then
        let s := showNames (some names)
        s!"{n};{fnv s}"
      else "panic"
    | _, _ => "bad-case"
  else if op == "names.tagext" then
    -- `otfToBCP47` then `Extension('x').String()`, with the assumed x/text canonical form
    match (getField fs "s").bind hexNats, (getField fs "l").bind hexNats with
    | some sc, some l =>
      if Gen.otScripts.any (fun p => p.1 == sc) && (l.isEmpty || Gen.otLangs.any (fun p => p.1 == l)) then
        natsHex (extString sc l)
      else "err"
    | _, _ => "bad-case"
  else if op == "names.tagback" then
    match (getField fs "e").bind hexNats with
    | some e =>
      match extToOtf e with
      | some (sc, l) => natsHex sc ++ "|" ++ natsHex l
      | none => "err"
    | none => "bad-case"
  else if op == "names.tagrt" then
    -- the property's prediction: the pair comes back unchanged
    match getField fs "s", getField fs "l" with
    | some sc, some l => sc ++ "|" ++ l
    | _, _ => "bad-case"
  else if op == "names.choose" then
    -- `tt=<keyhex>:<number of names>,…  idx=<the matcher's answer>`
    let tt : Option (List (List Nat × Nat)) :=
      match getField fs "tt" with
      | none => none
      | some s =>
        if s.isEmpty then some [] else
        (s.splitOn ",").mapM fun (t : String) =>
          match t.splitOn ":" with
          | [k, n] => do
            let k ← hexNats k
            let n ← n.toNat?
            pure (k, n)
          | _ => none
    match tt, (getField fs "idx").bind String.toNat? with
    | some tt, some idx =>
      match choose tt idx with
      | some k => natsHex k
      | none => "nil"
    | _, _ => "bad-case"
  else if op == "names.slspec" then
    match (getField fs "b").bind hexNats with
    | some b =>
      match Spec.scriptListOf b with
      | some l => ",".intercalate ((l.map fun r =>
          s!"{natsHex r.script}:{natsHex r.lang}:{r.required}:" ++ ".".intercalate (r.features.map toString)).mergeSort
            fun a b => decide (a ≤ b))
      | none => "malformed"
    | none => "bad-case"
  else if op == "names.slrt" then
    -- the property's prediction: every (script, language, features) entry comes back unchanged
    match getField fs "pairs" with
    | some s =>
      if s.isEmpty then "" else
      ",".intercalate ((s.splitOn ",").mergeSort fun a b => decide (a ≤ b))
    | none => "bad-case"
  else if op == "names.tagnoext" then
    -- `bcp47ToOtf` on a tag without extension; x/text's answers (kind, raw language, script) come
    -- from the Go side
    match (getField fs "k").bind String.toNat?, (getField fs "rl").bind hexNats, (getField fs "sc").bind hexNats with
    | some k, some rl, some sc =>
      let r := noExtToOtf Gen.otScripts Gen.otLangs k rl sc
      natsHex r.1 ++ "|" ++ natsHex r.2
    | _, _, _ => "bad-case"
  else if op == "names.tagnf" then
    -- prediction (C14_tag_noext_normal_form): the pair itself, twins replaced by the smaller tag
    match (getField fs "s").bind hexNats, (getField fs "l").bind hexNats with
    | some sc, some l => natsHex (nfTag scriptTwins sc) ++ "|" ++ natsHex (nfTag langTwins l)
    | _, _ => "bad-case"
  else if op == "names.tagkeep" then
    -- prediction (C14_tag_noext_back): language and script of the tag survive bcp47ToOtf ∘ otfToBCP47
    match getField fs "rl", getField fs "sc" with
    | some rl, some sc => rl ++ "|" ++ sc
    | _, _ => "bad-case"
  else if op == "names.maconeb" then
    -- prediction over the regenerated full table `Gen.macRomanTable` (C09's extractor; equal to this
    -- property's table by C14_macroman_decodeone): DecodeOne(b) = Decode([b]) and Encode inverts it
    match (getField fs "b").bind String.toNat? with
    | some b =>
      let r := Gen.macRomanTable.getD b 0
      s!"{r};{r};" ++ natsHex [b]
    | none => "bad-case"
  else if op == "names.maconer" then
    -- every rune of the repertoire: Encode then DecodeOne gives it back
    match (getField fs "r").bind String.toNat? with
    | some r => s!"{macEncodeOne r};{r}"
    | none => "bad-case"
  else if op == "names.postrtl" then
    -- prediction (C14_post_checked_roundtrip) for an explicit list: refusal, or the list unchanged
    match parseNames fs with
    | some none => showNames none
    | some (some names) =>
      if names == tbl || postFits tbl names then showNames (some names) else "panic"
    | none => "bad-case"
  else if op == "names.allids" then
    -- prediction (C14_language_tables_injective): one record per language id of the regenerated table,
    -- each with its own string; after Decode every string is still there, except that the ids 0x040A and
    -- 0x0C0A (both es-ES) merge and the later record (0x0C0A) wins
    match (getField fs "plat").bind String.toNat? with
    | some plat =>
      let tblL := if plat == 1 then Gen.appleBCP else Gen.msBCP
      let ids := ((sortLangs tblL).map (·.1)).filter fun i => !(plat == 3 && i == 0x040A)
      s!"{ids.length};" ++ natsToString ids
    | none => "bad-case"
  else if op == "names.slshare" then
    -- a script list whose LangSys records may share one LangSys table: the language systems an
    -- independent reader sees are independent values — adding feature 99 to the first one (in sorted
    -- order) leaves the others as they are
    match (getField fs "b").bind hexNats with
    | some b =>
      match Spec.scriptListOf b with
      | some l =>
        let strs := (l.map fun r =>
          s!"{natsHex r.script}:{natsHex r.lang}:{r.required}:" ++ ".".intercalate (r.features.map toString)).mergeSort
            fun a b => decide (a ≤ b)
        let strs' := match strs with
          | [] => []
          | first :: rest => (if first.endsWith ":" then first ++ "99" else first ++ ".99") :: rest
        ",".intercalate (strs'.mergeSort fun a b => decide (a ≤ b))
      | none => "malformed"
    | none => "bad-case"
  else "bad-op"

def specStd : Array (List Nat) := Spec.standardTable.toArray

def handle (op : String) (fs : List (String × String)) : String :=
  handleWith postTable specStd op fs

end SfntV.Drive.Names
