import SfntV.Prelude.Bytes
import SfntV.Model.ShapeEngine
import SfntV.Model.ShapeGuard

/-!
Line protocol of area `shape` (C06/C07).  The whole case is one field `d=` holding a
comma-separated list of naturals in prefix form (every list is preceded by its length):

  payload  := LL GDEF LOOKUPS HISTORY
  LL       := n lookup*          lookup := flags markSet n subtable*
  subtable := 11 GSET delta | 12 COV LIST | 21 COV LISTS | 31 COV LISTS
            | 41 COV n (m (LIST out)*)* | 81 COV n COV* n COV* LIST
            | 51 COV RULESETS | 52 COV CD RULESETS | 53 n GSET* ACTIONS
            | 61 COV RULESETS | 62 COV CD CD CD RULESETS | 63 n GSET* n GSET* n GSET* ACTIONS
            | 101 COV OPTVR | 102 COV n OPTVR*
            | 103 n (left right PAIRADJ)* | 104 GSET CD CD n (m PAIRADJ*)*
            | 105 COV n (entryX entryY exitX exitY)*      (all +32768)
            | 106 COV COV n (class x y)* n (m (x y)*)*    (x, y +32768; GPOS 4.1)
            | 107 COV COV n (class x y)* n (m (x y)*)*    (GPOS 6.1)
  PAIRADJ  := 0 | 1 OPTVR OPTVR
  COV      := n (gid idx)*       GSET := n (gid 0|1)*      CD := n (gid class)*
  LIST     := n x*               LISTS := n LIST*          ACTIONS := n (seqIdx lookup)*
  RULESETS := n (m RULE*)*       RULE := LIST(back) LIST(input) LIST(look) ACTIONS
  OPTVR    := 0 | 1 xPlacement+32768 yPlacement+32768 xAdvance+32768 unimpl
  GDEF     := nilbits CD(glyphClass) CD(markAttach) n GSET*   (nilbits only matter to Go)
  LOOKUPS  := LIST
  HISTORY  := n SEQ*             SEQ := n (gid LIST(text) xoff+32768 yoff+32768 adv+32768)*
-/
namespace SfntV.Drive.Shape
open SfntV SfntV.Shape

abbrev P (α : Type) := List Nat → Option (α × List Nat)

def pNat : P Nat
  | x :: r => some (x, r)
  | [] => none

def pRep (p : P α) : Nat → P (List α)
  | 0, r => some ([], r)
  | n + 1, r => do
    let (x, r1) ← p r
    let (xs, r2) ← pRep p n r1
    some (x :: xs, r2)

def pList (p : P α) : P (List α) := fun r => do
  let (n, r1) ← pNat r
  pRep p n r1

def pPair : P (Nat × Nat) := fun r => do
  let (a, r1) ← pNat r
  let (b, r2) ← pNat r1
  some ((a, b), r2)

def pCov : P Cov := pList pPair
def pCD : P ClassDef := pList pPair
def pGSet : P GSet := fun r => do
  let (l, r1) ← pList pPair r
  some (l.map (fun e => (e.1, e.2 != 0)), r1)
def pNats : P (List Nat) := pList pNat
def pActions : P (List Action) := fun r => do
  let (l, r1) ← pList pPair r
  some (l.map (fun e => ⟨e.1, e.2⟩), r1)

def pRule : P Rule := fun r => do
  let (b, r1) ← pNats r
  let (i, r2) ← pNats r1
  let (l, r3) ← pNats r2
  let (a, r4) ← pActions r3
  some (⟨b, i, l, a⟩, r4)

def pRuleSets : P (List (List Rule)) := pList (pList pRule)

def pLig : P Lig := fun r => do
  let (c, r1) ← pNats r
  let (o, r2) ← pNat r1
  some (⟨c, o⟩, r2)

def unbias (n : Nat) : Int := (n : Int) - 32768

def pOptVR : P (Option ValueRec) := fun r => do
  let (t, r1) ← pNat r
  if t == 0 then some (none, r1) else
  let (x, r2) ← pNat r1
  let (y, r3) ← pNat r2
  let (a, r4) ← pNat r3
  let (u, r5) ← pNat r4
  some (some ⟨unbias x, unbias y, unbias a, u != 0⟩, r5)

def pPairAdj : P (Option PairAdj) := fun r => do
  let (t, r) ← pNat r
  if t == 0 then some (none, r) else
  let (a, r) ← pOptVR r
  let (b, r) ← pOptVR r
  some (some ⟨a, b⟩, r)

def pPairEntry : P ((Nat × Nat) × Option PairAdj) := fun r => do
  let (l, r) ← pNat r
  let (g, r) ← pNat r
  let (pa, r) ← pPairAdj r
  some (((l, g), pa), r)

def pAnchor : P Anchor := fun r => do
  let (x, r) ← pNat r
  let (y, r) ← pNat r
  some (⟨unbias x, unbias y⟩, r)

def pEntryExit : P EntryExit := fun r => do
  let (a, r) ← pAnchor r
  let (b, r) ← pAnchor r
  some (⟨a, b⟩, r)

def pMarkRec : P MarkRec := fun r => do
  let (c, r) ← pNat r
  let (a, r) ← pAnchor r
  some (⟨c, a.x, a.y⟩, r)

def pSubtable : P Subtable := fun r => do
  let (tag, r) ← pNat r
  if tag == 11 then
    let (c, r) ← pGSet r
    let (d, r) ← pNat r
    some (.gsub11 c d, r)
  else if tag == 12 then
    let (c, r) ← pCov r
    let (s, r) ← pNats r
    some (.gsub12 c s, r)
  else if tag == 21 then
    let (c, r) ← pCov r
    let (s, r) ← pList pNats r
    some (.gsub21 c s, r)
  else if tag == 31 then
    let (c, r) ← pCov r
    let (s, r) ← pList pNats r
    some (.gsub31 c s, r)
  else if tag == 41 then
    let (c, r) ← pCov r
    let (s, r) ← pList (pList pLig) r
    some (.gsub41 c s, r)
  else if tag == 81 then
    let (c, r) ← pCov r
    let (b, r) ← pList pCov r
    let (l, r) ← pList pCov r
    let (s, r) ← pNats r
    some (.gsub81 c b l s, r)
  else if tag == 51 then
    let (c, r) ← pCov r
    let (rs, r) ← pRuleSets r
    some (.ctx1 c rs, r)
  else if tag == 52 then
    let (c, r) ← pCov r
    let (cd, r) ← pCD r
    let (rs, r) ← pRuleSets r
    some (.ctx2 c cd rs, r)
  else if tag == 53 then
    let (i, r) ← pList pGSet r
    let (a, r) ← pActions r
    some (.ctx3 i a, r)
  else if tag == 61 then
    let (c, r) ← pCov r
    let (rs, r) ← pRuleSets r
    some (.chain1 c rs, r)
  else if tag == 62 then
    let (c, r) ← pCov r
    let (b, r) ← pCD r
    let (i, r) ← pCD r
    let (l, r) ← pCD r
    let (rs, r) ← pRuleSets r
    some (.chain2 c b i l rs, r)
  else if tag == 63 then
    let (b, r) ← pList pGSet r
    let (i, r) ← pList pGSet r
    let (l, r) ← pList pGSet r
    let (a, r) ← pActions r
    some (.chain3 b i l a, r)
  else if tag == 101 then
    let (c, r) ← pCov r
    let (v, r) ← pOptVR r
    some (.gpos11 c v, r)
  else if tag == 102 then
    let (c, r) ← pCov r
    let (v, r) ← pList pOptVR r
    some (.gpos12 c v, r)
  else if tag == 103 then
    let (ps, r) ← pList pPairEntry r
    some (.gpos21 ps, r)
  else if tag == 104 then
    let (c, r) ← pGSet r
    let (c1, r) ← pCD r
    let (c2, r) ← pCD r
    let (a, r) ← pList (pList pPairAdj) r
    some (.gpos22 c c1 c2 a, r)
  else if tag == 105 then
    let (c, r) ← pCov r
    let (e, r) ← pList pEntryExit r
    some (.gpos31 c e, r)
  else if tag == 106 then
    let (mc, r) ← pCov r
    let (bc, r) ← pCov r
    let (m, r) ← pList pMarkRec r
    let (b, r) ← pList (pList pAnchor) r
    some (.gpos41 mc bc m b [], r)
  else if tag == 107 then
    let (mc, r) ← pCov r
    let (bc, r) ← pCov r
    let (m, r) ← pList pMarkRec r
    let (b, r) ← pList (pList pAnchor) r
    some (.gpos61 mc bc m b, r)
  else none

def pLookup : P Lookup := fun r => do
  let (f, r) ← pNat r
  let (m, r) ← pNat r
  let (s, r) ← pList pSubtable r
  some (⟨f, m, s⟩, r)

def pGdef : P Gdef := fun r => do
  let (_, r) ← pNat r
  let (gc, r) ← pCD r
  let (ma, r) ← pCD r
  let (ms, r) ← pList pGSet r
  some (⟨gc, ma, ms⟩, r)

def pGlyph : P Glyph := fun r => do
  let (g, r) ← pNat r
  let (t, r) ← pNats r
  let (x, r) ← pNat r
  let (y, r) ← pNat r
  let (a, r) ← pNat r
  some (⟨g, t, unbias x, unbias y, unbias a⟩, r)

structure Case where
  ll : LookupList
  gd : Gdef
  lookups : List Nat
  hist : List (List Glyph)

def pCase : P Case := fun r => do
  let (ll, r) ← pList pLookup r
  let (gd, r) ← pGdef r
  let (lk, r) ← pNats r
  let (h, r) ← pList (pList pGlyph) r
  some (⟨resolveLL gd.glyphClass ll, gd, lk, h⟩, r)

def parseCase (fs : List (String × String)) : Option Case := do
  let d ← getField fs "d"
  let ns ← parseNatList d
  match pCase ns with
  | some (c, []) => some c
  | _ => none

/-! ## output -/

def showGlyph (g : Glyph) : String :=
  let t := ".".intercalate (g.text.map toString)
  if g.xoff == 0 && g.yoff == 0 && g.adv == 0 then s!"{g.gid}/{t}"
  else s!"{g.gid}/{t}/{g.xoff}/{g.yoff}/{g.adv}"

def showSeq (s : List Glyph) : String := ",".intercalate (s.map showGlyph)

def showOutcome (f : St → String) : Outcome St → String
  | .ok st => f st
  | .err e => "err:" ++ e
  | .panic _ => "panic"

def sortNats (l : List Nat) : List Nat := l.mergeSort (fun a b => a ≤ b)

@[noinline] def runCase (c : Case) : List (Outcome St) :=
  runHistory Gen.shapeNestedBudget c.ll c.gd c.lookups [] c.hist

def anyPanic : List (Outcome St) → Bool
  | [] => false
  | .panic _ :: _ => true
  | _ :: r => anyPanic r

def prefixes : List String := ["shape."]

def handle (op : String) (fs : List (String × String)) : String :=
  -- D: a table given as BYTES: whatever gtab.Read accepts must be applicable without a panic
  -- (C07_no_panic for reader-delivered tables); the expected value does not depend on the bytes
  if op == "shape.readsafe" then "ok" else
  -- D: sfnt.Layouter.Layout with a glyph ID that cmap / GSUB delivers: no panic, text kept, the
  -- advance of a glyph beyond the font is 0 (`Font.GlyphWidth` out of range), else its width
  -- D: histories of texts on ONE sfnt.Layouter: every result equals that of a fresh Layouter
  if op == "shape.layoutseq" then "same" else
  if op == "shape.layout" then
    match (getField fs "ng").bind String.toNat?, (getField fs "target").bind String.toNat?,
      (getField fs "w").bind String.toInt? with
    | some ng, some target, some w =>
      s!"ok gid={target} adv={if target < ng then w else 0} text=kept"
    | _, _, _ => "bad-case"
  else
  match parseCase fs with
  | none => "bad-case"
  | some c =>
    let outs := runCase c
    if op == "shape.apply" then
      -- V: the outcome of every call of the history on one context
      "|".intercalate (outs.map (showOutcome fun st => "ok:" ++ showSeq st.seq))
    else if op == "shape.stack" then
      -- G: len(ctx.stack) after every call
      "|".intercalate (outs.map (showOutcome fun st => toString st.stack.length))
    else if op == "shape.text" then
      -- D: the sorted runes of every OUTPUT must be the sorted runes of the INPUT (this side
      -- prints the input's; the model is used only to predict a panic outside `Guarded`)
      "|".intercalate ((outs.zip c.hist).map fun (o, s) =>
        showOutcome (fun _ => ".".intercalate ((sortNats (textOf s)).map toString)) o)
    else if op == "shape.len" then
      -- D: every output is within the length bound of C07_len_bound (the Go side evaluates the bound)
      "|".intercalate (outs.map (showOutcome fun _ => "within"))
    else if op == "shape.input" then
      -- D: the engine does not write into the rune array of the caller's input (Go side snapshots it)
      "|".intercalate (outs.map (showOutcome fun _ => "kept"))
    else if op == "shape.hist" then
      -- D: every call on the reused context gives what a fresh context gives
      "same"
    else if op == "shape.safe" then
      -- D: no call panics for ANY guarded lookup list (`C07_no_panic` proves it for the lists in
      -- the shape the reader delivers; the rest of `guardedLL` is `C07_no_panic_guarded_only`);
      -- outside `guardedLL` the model decides
      if guardedLL c.ll then "ok"
      else if anyPanic outs then "panic" else "ok"
    else if op == "shape.guarded" then
      -- G: which no-panic theorem covers the case (both sides evaluate the hypotheses)
      if readerShapedLL c.ll then "proved:C07_no_panic"
      else if guardedCase c.ll c.lookups then "proved:partial"
      else if guardedLL c.ll then "open:guarded-only"
      else "unguarded"
    else "bad-op"

end SfntV.Drive.Shape
