import SfntV.Model.Metrics
import SfntV.Model.Caret
import SfntV.Model.Os2
import SfntV.Model.MetricsWriter
import SfntV.Model.MetricsQueries
import SfntV.Spec.MetricsQueries
import SfntV.Spec.Metrics

namespace SfntV.Drive.Metrics
open SfntV SfntV.Metrics

/-- `a,b*3,c`: comma separated ints, `v*k` = k copies; `-` = nil (outer `none` = parse error) -/
def parseInts (s : String) : Option (Option (List Int)) :=
  if s == "-" then some none
  else if s.isEmpty then some (some [])
  else do
    let parts ← (s.splitOn ",").mapM fun t =>
      match t.splitOn "^" with
      | [a, m, k] => do
        -- arithmetic run `a^m^k`: the k values (a + i) mod m, i = 0 … k-1 (neighbours differ)
        let a ← a.toNat?
        let m ← m.toNat?
        let k ← k.toNat?
        pure ((List.range k).map fun i => (((a + i) % m : Nat) : Int))
      | _ =>
      match t.splitOn "*" with
      | [v] => do pure [← v.toInt?]
      | [v, k] => do pure (List.replicate (← k.toNat?) (← v.toInt?))
      | _ => none
    pure (some parts.flatten)

/-- digest of a long int16 vector for the transport: length, polynomial hash, first and last value -/
def digest (l : List Int) : String :=
  let h := l.foldl (fun (h : Nat) v => (h * 31 + (v % 65536).toNat + 1) % 2147483647) 7
  s!"{l.length}/{h}/{l.headD 0}/{l.getLastD 0}"

def parseRect (t : String) : Option Rect :=
  match t.splitOn ":" with
  | [a, b, c, d] => do pure ⟨← a.toInt?, ← b.toInt?, ← c.toInt?, ← d.toInt?⟩
  | _ => none

/-- `llx:lly:urx:ury;…` with `rect*k` repetition; `-` = nil -/
def parseRects (s : String) : Option (Option (List Rect)) :=
  if s == "-" then some none
  else if s.isEmpty then some (some [])
  else do
    let parts ← (s.splitOn ";").mapM fun t =>
      match t.splitOn "*" with
      | [v] => do pure [← parseRect v]
      | [v, k] => do pure (List.replicate (← k.toNat?) (← parseRect v))
      | _ => none
    pure (some parts.flatten)

def intsToString (l : List Int) : String := ",".intercalate (l.map toString)
def showInts (l : List Int) : String := if l.isEmpty then "-" else intsToString l
def showBool (b : Bool) : String := if b then "1" else "0"
def getInt (fs : List (String × String)) (k : String) : Option Int := (getField fs k).bind String.toInt?
def getNat (fs : List (String × String)) (k : String) : Option Nat := (getField fs k).bind String.toNat?
def getBool (fs : List (String × String)) (k : String) : Option Bool := (getField fs k).map (· == "1")
def getHex (fs : List (String × String)) (k : String) : Option Bytes := (getField fs k).bind fromHex
def getHexOpt (fs : List (String × String)) (k : String) : Option (Option Bytes) :=
  match getField fs k with
  | some "-" => some none
  | some s => (fromHex s).map some
  | none => none

def showCaret (rise run : Int) : String :=
  if Caret.isTie rise run then "tie"
  else let p := Caret.norm rise run; s!"{p.1},{p.2}"

def showWith (o : Outcome α) (f : α → String) : String :=
  match o with
  | .ok a => "ok:" ++ f a
  | .err e => "err:" ++ e
  | .panic _ => "panic"

def parseInfo (fs : List (String × String)) : Option Info := do
  let w ← (getField fs "w").bind parseInts
  let e ← (getField fs "ext").bind parseRects
  let l ← (getField fs "lsb").bind parseInts
  pure ⟨w, e, l, ← getInt fs "asc", ← getInt fs "desc", ← getInt fs "gap", ← getInt fs "coff"⟩

def parseTime (s : String) : Option GoTime :=
  match s.splitOn ":" with
  | [a, b] => do pure ⟨← a.toInt?, ← b.toNat?⟩
  | _ => none

def parseHead (fs : List (String × String)) : Option Head := do
  let bb ← (getField fs "bbox").bind parseRect
  pure {
    fontRevision := ← getNat fs "rev"
    hasYBaseAt0 := ← getBool fs "y0"
    hasXBaseAt0 := ← getBool fs "x0"
    isNonlinear := ← getBool fs "nl"
    unitsPerEm := ← getNat fs "upm"
    created := ← (getField fs "created").bind parseTime
    modified := ← (getField fs "modified").bind parseTime
    bbox := bb
    isBold := ← getBool fs "bold"
    isItalic := ← getBool fs "italic"
    hasShadow := ← getBool fs "shadow"
    isCondensed := ← getBool fs "cond"
    isExtended := ← getBool fs "extd"
    lowestRecPPEM := ← getNat fs "ppem"
    locaFormat := ← getInt fs "loca" }

def showRect (r : Rect) : String := s!"{r.llx}:{r.lly}:{r.urx}:{r.ury}"

def showHead (h : Head) : String :=
  s!"rev={h.fontRevision} y0={showBool h.hasYBaseAt0} x0={showBool h.hasXBaseAt0} nl={showBool h.isNonlinear} " ++
  s!"upm={h.unitsPerEm} created={h.created.sec} modified={h.modified.sec} bbox={showRect h.bbox} " ++
  s!"bold={showBool h.isBold} italic={showBool h.isItalic} shadow={showBool h.hasShadow} " ++
  s!"cond={showBool h.isCondensed} extd={showBool h.isExtended} ppem={h.lowestRecPPEM} loca={h.locaFormat}"

/-- direct predicate: the derived hhea fields stored in `hhea` equal the definitions
(Spec.Metrics) for widths `ws`, bearings `ls`, boxes `es` -/
def checkHhea (hhea : Bytes) (ws ls : List Int) (es : List Rect) : List String :=
  let (adv, minL, minR, xm, k) := hheaDerived hhea
  let bad (name : String) (got want : Int) : List String :=
    if got == want then [] else [s!"{name}:{got}!={want}"]
  bad "advanceWidthMax" adv (Spec.advanceWidthMax ws) ++
  bad "minLeftSideBearing" minL (Spec.minLeftSideBearing ls es) ++
  bad "minRightSideBearing" minR (Spec.sat16 (Spec.minRightSideBearing ws ls es)) ++
  bad "xMaxExtent" xm (Spec.sat16 (Spec.xMaxExtent ls es)) ++
  (if Spec.describes k ws && !(Spec.describes (k - 1) ws) then [] else [s!"numberOfHMetrics:{k}"])

def showCheck (l : List String) : String := if l.isEmpty then "ok" else "mismatch:" ++ ";".intercalate l

def parseOs2 (fs : List (String × String)) : Option Os2 := do
  let sub ← (getField fs "sub").bind parseInts
  let ur ← (getField fs "ur").bind parseNatList
  let panose ← getHex fs "panose"
  pure {
    weightClass := ← getNat fs "wc", widthClass := ← getNat fs "wd"
    isBold := ← getBool fs "bold", isItalic := ← getBool fs "italic"
    isRegular := ← getBool fs "regular", isOblique := ← getBool fs "oblique"
    firstCharIndex := ← getNat fs "first", lastCharIndex := ← getNat fs "last"
    ascent := ← getInt fs "asc", descent := ← getInt fs "desc"
    winAscent := ← getInt fs "wasc", winDescent := ← getInt fs "wdesc"
    lineGap := ← getInt fs "gap", capHeight := ← getInt fs "cap", xHeight := ← getInt fs "xh"
    avgGlyphWidth := ← getInt fs "avg"
    sub := sub.getD []
    familyClass := ← getInt fs "fam"
    panose := panose.map (·.toNat)
    vendor := ← getHex fs "vendor"
    unicodeRange := ur
    codePageRange := ← getNat fs "cpr"
    permUse := ← getInt fs "perm"
    permNoSubsetting := ← getBool fs "nosub", permOnlyBitmap := ← getBool fs "bitmap" }

def showOs2 (o : Os2) : String :=
  s!"wc={o.weightClass} wd={o.widthClass} bold={showBool o.isBold} italic={showBool o.isItalic} " ++
  s!"regular={showBool o.isRegular} oblique={showBool o.isOblique} first={o.firstCharIndex} " ++
  s!"last={o.lastCharIndex} asc={o.ascent} desc={o.descent} wasc={o.winAscent} wdesc={o.winDescent} " ++
  s!"gap={o.lineGap} cap={o.capHeight} xh={o.xHeight} avg={o.avgGlyphWidth} sub={intsToString o.sub} " ++
  s!"fam={o.familyClass} panose={toHex (o.panose.map UInt8.ofNat)} vendor={toHex o.vendor} " ++
  s!"ur={natsToString o.unicodeRange} cpr={o.codePageRange} perm={o.permUse} " ++
  s!"nosub={showBool o.permNoSubsetting} bitmap={showBool o.permOnlyBitmap}"

/-- `n` or `n/d` -/
def parseRat (t : String) : Option Rat :=
  match t.splitOn "/" with
  | [n] => do pure ((← n.toInt?) : Rat)
  | [n, d] => do
    let dn ← d.toNat?
    if dn = 0 then none else pure (((← n.toInt?) : Rat) / (dn : Rat))
  | _ => none

def parseRats (s : String) : Option (List Rat) :=
  if s.isEmpty then some [] else (s.splitOn ",").mapM parseRat

def parseMat (s : String) : Option Mat :=
  match parseRats s with
  | some [a, b, c, d, e, f] => some ⟨a, b, c, d, e, f⟩
  | _ => none

/-- glyph list `-;l:b:r:t;…` (`-` = nil glyph / empty path), rational coordinates -/
def parseGlyphsQ (s : String) : Option (List (Option (Rat × Rat × Rat × Rat))) :=
  if s.isEmpty then some [] else
  (s.splitOn ";").mapM fun t =>
    if t == "-" then some none
    else match (t.splitOn ":").mapM parseRat with
      | some [l, b, r, u] => some (some (l, b, r, u))
      | _ => none

def cornersQ (g : Rat × Rat × Rat × Rat) : List (Rat × Rat) :=
  [(g.1, g.2.1), (g.2.2.1, g.2.1), (g.2.2.1, g.2.2.2), (g.1, g.2.2.2)]

def showRectQ (r : RectQ) : String := s!"{q20 r.llx}:{q20 r.lly}:{q20 r.urx}:{q20 r.ury}"

/-- the explicit domain of the OS/2 round trip (`Os2Dom` in Proofs/MetricsOs2), as a Boolean -/
def os2InDom (o : Os2) : Bool :=
  let i16 (x : Int) : Bool := decide (-32768 ≤ x ∧ x ≤ 32767)
  decide (o.weightClass < 65536) && decide (o.widthClass < 65536) &&
  (!o.isRegular || (!o.isBold && !o.isItalic)) &&
  decide (o.firstCharIndex < 65536) && decide (o.lastCharIndex < 65536) &&
  i16 o.ascent && i16 o.descent && i16 o.winAscent && i16 o.winDescent && i16 o.lineGap &&
  i16 o.capHeight && i16 o.xHeight && decide (0 ≤ o.capHeight) && decide (0 ≤ o.xHeight) &&
  i16 o.avgGlyphWidth && i16 o.familyClass &&
  decide (o.sub.length = 10) && o.sub.all i16 &&
  decide (o.panose.length = 10) && o.panose.all (· < 256) &&
  decide (o.vendor.length = 4) &&
  decide (o.unicodeRange.length = 4) && o.unicodeRange.all (· < 4294967296) &&
  (match o.unicodeRange[1]? with
   | some u => bit u 25 == (o.lastCharIndex == 0xFFFF)
   | none => false) &&
  decide (o.codePageRange < 18446744073709551616) && decide (0 ≤ o.permUse ∧ o.permUse ≤ 3)

def prefixes : List String := ["metrics."]

def handle (op : String) (fs : List (String × String)) : String :=
  if op == "metrics.hmtxenc" then
    match parseInfo fs, getInt fs "rise", getInt fs "run" with
    | some info, some rise, some run =>
      let p := Caret.norm rise run
      showWith (encode info p.1 p.2) (fun r =>
        (toHex r.1 ++ ":" ++ (match r.2 with | some b => toHex b | none => "-")))
    | _, _, _ => "bad-case"
  else if op == "metrics.hmtxrt" then
    -- the property itself: Decode (Encode info) gives back every width and bearing (digests), and the
    -- table uses the least numberOfHMetrics
    match (getField fs "w").bind parseInts, (getField fs "ext").bind parseRects,
          (getField fs "lsb").bind parseInts with
    | some (some ws), some es, some lsb =>
      match (match lsb, es with
             | some l, _ => some l
             | none, some e => some (e.map (·.llx))
             | none, none => none) with
      | some ls => s!"k={Spec.leastNumberOfHMetrics ws};w={digest ws};lsb={digest ls}"
      | none => "n/a"
    | _, _, _ => "bad-case"
  else if op == "metrics.hmtxtrunc" then
    -- D: an hmtx body must hold `k` whole long records (4 bytes) followed by whole int16 bearings:
    -- otherwise it is refused; if accepted, both vectors have the full length k + (L - 4k)/2
    match getHex fs "hhea", getHex fs "hmtx" with
    | some hhea, some body =>
      let k := rdU16 hhea 34
      let l := body.length
      if l = 0 then (if k = 0 then "full:0" else "refused")
      else if l < 4 * k || (l - 4 * k) % 2 != 0 then "refused"
      else s!"full:{k + (l - 4 * k) / 2}"
    | _, _ => "bad-case"
  else if op == "metrics.maxprt" then
    -- D: Read (Encode info) = info, in particular a present TrueType part stays present
    match getInt fs "n", (getField fs "ttf").bind parseInts with
    | some n, some ttf =>
      if 1 ≤ n && n < 65536 && (match ttf with | some v => v.length == 13 && v.all (fun x => 0 ≤ x && x < 65536) | none => true)
      then s!"ok:{n};" ++ (match ttf with | some v => intsToString v | none => "-")
      else "n/a"
    | _, _ => "bad-case"
  else if op == "metrics.postrt" then
    match getInt fs "angle", getInt fs "upos", getInt fs "uthick", getBool fs "fixed" with
    | some a, some up, some ut, some fx => s!"ok:196608;{a},{up},{ut},{showBool fx}"
    | _, _, _, _ => "bad-case"
  else if op == "metrics.hmtxdec" then
    match getHex fs "hhea", getHexOpt fs "hmtx" with
    | some hhea, some hmtx =>
      showWith (decode hhea hmtx) (fun d =>
        (s!"{d.ascent},{d.descent},{d.lineGap},{d.caretOffset};{showCaret d.rise d.run};w={showInts d.widths};lsb={showInts d.lsb}"))
    | _, _ => "bad-case"
  else if op == "metrics.caret" then
    match getInt fs "rise", getInt fs "run" with
    | some rise, some run => let p := Caret.norm rise run; s!"{p.1},{p.2}"
    | _, _ => "bad-case"
  else if op == "metrics.caretrt" then
    -- the property itself: a slope pair in lowest terms survives Decode∘Encode∘Decode unchanged
    match getInt fs "rise", getInt fs "run" with
    | some rise, some run =>
      if Int.gcd rise run == 1 && rise != -32768 && run != -32768 && !Caret.isTie rise run
      then s!"{rise},{run}" else "n/a"
    | _, _ => "bad-case"
  else if op == "metrics.hheaderived" then
    match (getField fs "w").bind parseInts, (getField fs "ext").bind parseRects,
          (getField fs "lsb").bind parseInts, getHex fs "hhea" with
    | some (some ws), some (some es), some ls, some hhea =>
      showCheck (checkHhea hhea ws (ls.getD (es.map (·.llx))) es)
    | _, _, _, _ => "bad-case"
  else if op == "metrics.hheaspec" then
    -- the derived hhea fields according to the definitions (to be compared with the real Encode)
    match (getField fs "w").bind parseInts, (getField fs "ext").bind parseRects,
          (getField fs "lsb").bind parseInts with
    | some (some ws), some (some es), some lsb =>
      let ls := lsb.getD (es.map (·.llx))
      s!"{Spec.advanceWidthMax ws},{Spec.minLeftSideBearing ls es},{Spec.sat16 (Spec.minRightSideBearing ws ls es)},{Spec.sat16 (Spec.xMaxExtent ls es)},{Spec.leastNumberOfHMetrics ws}"
    | _, _, _ => "bad-case"
  else if op == "metrics.rsbclass" then
    -- is every inked glyph's `aw - xMax` representable as int16 (hypothesis of C12_hhea_derived)?
    match (getField fs "w").bind parseInts, (getField fs "ext").bind parseRects with
    | some (some ws), some (some es) =>
      showBool (((ws.zip es).filter fun g => !g.2.isZero).all fun g => Spec.fitsI16 (g.1 - g.2.urx))
    | _, _ => "bad-case"
  else if op == "metrics.headenc" then
    match parseHead fs with
    | some h => "ok:" ++ toHex (encodeHead h)
    | none => "bad-case"
  else if op == "metrics.headrt" then
    -- the property itself: Read (Encode info) = info, timestamps to the second (the 1904 epoch and
    -- the unset time both read back as the unset time)
    match parseHead fs with
    | some h =>
      let i16 (x : Int) : Bool := decide (-32768 ≤ x ∧ x ≤ 32767)
      let tOk (t : GoTime) : Bool := decide (-4611686018427387904 ≤ t.sec ∧ t.sec ≤ 4611686018427387904)
      let img (t : GoTime) : GoTime :=
        if t.isZero || t.sec == Gen.metricsZeroTime then GoTime.zero else ⟨t.sec, 0⟩
      if decide (h.fontRevision < 4294967296) && decide (h.unitsPerEm < 65536) && i16 h.bbox.llx &&
         i16 h.bbox.lly && i16 h.bbox.urx && i16 h.bbox.ury && decide (h.lowestRecPPEM < 65536) &&
         i16 h.locaFormat && tOk h.created && tOk h.modified
      then "ok:" ++ showHead { h with created := img h.created, modified := img h.modified }
      else showWith (decodeHead (encodeHead h)) showHead   -- outside the domain: what the model predicts
    | none => "bad-case"
  else if op == "metrics.nodisturb" then
    -- results of earlier Encode/Decode calls are not disturbed by later calls (judged by the harness
    -- on the real code; a pure function has nothing to disturb)
    "ok"
  else if op == "metrics.headdec" then
    match getHex fs "b" with
    | some b => showWith (decodeHead b) showHead
    | none => "bad-case"
  else if op == "metrics.time" then
    match (getField fs "t").bind parseTime with
    | some t => s!"{encodeTime t};{(decodeTime (encodeTime t)).sec}"
    | none => "bad-case"
  else if op == "metrics.maxpenc" then
    match getInt fs "n", (getField fs "ttf").bind parseInts with
    | some n, some ttf =>
      showWith (encodeMaxp ⟨n, ttf.map (·.map Int.toNat)⟩) toHex
    | _, _ => "bad-case"
  else if op == "metrics.maxpdec" then
    match getHex fs "b" with
    | some b => showWith (decodeMaxp b) (fun m =>
        (s!"{m.numGlyphs};" ++ (match m.ttf with | some v => natsToString v | none => "-")))
    | none => "bad-case"
  else if op == "metrics.wbbox" then
    match (getField fs "ext").bind parseRects with
    | some (some es) => showRect (fontBBoxModel es)
    | _ => "bad-case"
  else if op == "metrics.wfixed" then
    match (getField fs "w").bind parseInts with
    | some (some ws) => showBool (isFixedPitchModel ws)
    | _ => "bad-case"
  else if op == "metrics.wos2" then
    match (getField fs "w").bind parseInts, (getField fs "ext").bind parseRects,
          getNat fs "fmt", (getField fs "codes").bind parseInts with
    | some (some ws), some (some es), some fmt, some (some codes) =>
      let cr := if fmt == 4 then codeRange4 codes else if fmt == 12 then codeRange12 codes true (0, 0) else (0, 0)
      let win := winMetricsModel (fontBBoxModel es)
      s!"{avgWidthModel ws},{charIndexModel cr.1},{charIndexModel cr.2},{win.1},{win.2}"
    | _, _, _, _ => "bad-case"
  else if op == "metrics.qwidths" then
    match getField fs "kind" with
    | some "glyf" =>
      match getNat fs "upem", (getField fs "w").bind parseInts with
      | some upem, some (some ws) =>
        "pdf=" ++ intsToString (ws.map fun w => q20 (widthPDFglyf w upem)) ++
        ";gpdf=" ++ intsToString (ws.map fun w => q20 (glyphWidthPDFglyf w upem))
      | _, _ => "bad-case"
    | _ =>
      match (getField fs "fm").bind parseMat, (getField fs "w").bind parseRats with
      | some fm, some ws =>
        "pdf=" ++ intsToString (ws.map fun w => q20 (widthPDFcff w fm)) ++
        ";gpdf=" ++ intsToString (ws.map fun w => q20 (glyphWidthPDFcff w fm))
      | _, _ => "bad-case"
  else if op == "metrics.qbbox" then
    match (getField fs "fm").bind parseMat, (getField fs "g").bind parseGlyphsQ with
    | some fm, some gs =>
      let isCff := getField fs "kind" == some "cff"
      let pts := gs.map fun g => g.map cornersQ
      let boxes : List Rect := gs.map fun g =>
        match g with
        | none => ⟨0, 0, 0, 0⟩
        | some q => if isCff then extentQ (cornersQ q) else ⟨q.1.floor, q.2.1.floor, q.2.2.1.floor, q.2.2.2.floor⟩
      "gb=" ++ ";".intercalate (boxes.map showRect) ++
      "|gp=" ++ ";".intercalate (pts.map fun p => showRectQ (glyphBBoxPDF fm p)) ++
      "|fb=" ++ showRect (fontBBoxModel boxes) ++ "|fp=" ++ showRectQ (fontBBoxPDF fm pts)
    | _, _ => "bad-case"
  else if op == "metrics.dextent" then
    -- D: GlyphBBox of every glyph = the smallest integer box enclosing all outline points
    match (getField fs "g").bind parseGlyphsQ with
    | some gs => ";".intercalate (gs.map fun g =>
        showRect (match g with | none => ⟨0, 0, 0, 0⟩ | some q => Spec.enclosingBox (cornersQ q)))
    | none => "bad-case"
  else if op == "metrics.dbboxpdf" then
    -- D: GlyphBBoxPDF of every glyph = bounding box of the images of all its corner / path points
    match (getField fs "fm").bind parseMat, (getField fs "g").bind parseGlyphsQ with
    | some fm, some gs => ";".intercalate (gs.map fun g =>
        showRectQ (match g with | none => ⟨0, 0, 0, 0⟩ | some q => Spec.imageBox (Spec.pdfMatrix fm) (cornersQ q)))
    | _, _ => "bad-case"
  else if op == "metrics.dcid" then
    -- D: the queries of a CID-keyed CFF font against the geometric definitions (FD matrix first,
    -- font matrix second, then ×1000)
    match (getField fs "fm").bind parseMat, (getField fs "fds").map (·.splitOn ";"),
          (getField fs "sel").bind parseNatList, (getField fs "g").bind parseGlyphsQ,
          (getField fs "w").bind parseRats with
    | some fm, some fdStrs, some sel, some gs, some ws =>
      match fdStrs.mapM parseMat with
      | none => "bad-case"
      | some fds =>
        let fdOf (i : Nat) : Mat := fds.getD (sel.getD i 0) (Mat.scale 1)
        let boxes := (List.range gs.length).map fun i =>
          match gs.getD i none with
          | none => RectQ.zero
          | some q => Spec.imageBoxF (Spec.cidImage (fdOf i) fm) (cornersQ q)
        "gp=" ++ ";".intercalate (boxes.map showRectQ) ++
        "|fp=" ++ showRectQ (fontBBoxPDFLoop boxes true RectQ.zero) ++
        "|gw=" ++ intsToString ((List.range ws.length).map fun i => q20 (Spec.cidWidthPDF (fdOf i) fm (ws.getD i 0))) ++
        "|pw=" ++ intsToString (ws.map fun w => q20 (w * fm.a)) ++
        "|dw=" ++ intsToString (ws.map q20) ++ "|map=nil"
    | _, _, _, _, _ => "bad-case"
  else if op == "metrics.wcffq" then
    match (getField fs "w").bind parseRats with
    | some ws =>
      s!"{showBool (isFixedPitchQ ws)};{avgWidthQ ws};" ++ intsToString (ws.map fun w => wrap16 (truncQ w))
    | none => "bad-case"
  else if op == "metrics.wmakehmtx" then
    match (getField fs "w").bind parseInts, (getField fs "ext").bind parseRects, getInt fs "asc",
          getInt fs "desc", getInt fs "gap", getBool fs "upright" with
    | some (some ws), some (some es), some asc, some desc, some gap, some upright =>
      match encode ⟨some ws, some es, none, asc, desc, gap, 0⟩ 1 0 with
      | .ok (hhea, hmtx) =>
        -- with an italic angle the caret fields (bytes 18..21) depend on float trigonometry: masked
        let h := if upright then hhea else hhea.take 18 ++ [0, 0, 0, 0] ++ hhea.drop 22
        "ok:" ++ toHex h ++ ":" ++ (match hmtx with | some b => toHex b | none => "-")
      | .err e => "err:" ++ e
      | .panic _ => "panic"
    | _, _, _, _, _, _ => "bad-case"
  else if op == "metrics.os2enc" then
    match parseOs2 fs with
    | some o => "ok:" ++ toHex (encodeOs2 o)
    | none => "bad-case"
  else if op == "metrics.os2rt" then
    -- the property itself: Read (Encode info) = info for every info in the domain
    match parseOs2 fs with
    | some o => if os2InDom o then "ok:" ++ showOs2 o else "n/a"
    | none => "bad-case"
  else if op == "metrics.os2dec" then
    match getHex fs "b" with
    | some b => showWith (decodeOs2 b) showOs2
    | none => "bad-case"
  else if op == "metrics.postenc" then
    match getInt fs "angle", getInt fs "upos", getInt fs "uthick", getBool fs "fixed" with
    | some a, some up, some ut, some fx => "ok:" ++ toHex (encodePost 0x00030000 ⟨a, up, ut, fx⟩)
    | _, _, _, _ => "bad-case"
  else if op == "metrics.postdec" then
    match getHex fs "b" with
    | some b => showWith (decodePost b) (fun r =>
        (s!"{r.1};{r.2.italicAngle},{r.2.underlinePosition},{r.2.underlineThickness},{showBool r.2.isFixedPitch}"))
    | none => "bad-case"
  else if op == "metrics.dfont" then
    -- derived fields inside the tables written by (*sfnt.Font).Write, recomputed by the spec folds
    match (getField fs "w").bind parseInts, (getField fs "ext").bind parseRects,
          getHex fs "hhea", getHex fs "head", getHex fs "os2", getHex fs "post",
          getNat fs "lo", getNat fs "hi" with
    | some (some ws), some (some es), some hhea, some head, some os2, some post, some lo, some hi =>
      let bad (name : String) (got want : Int) : List String :=
        if got == want then [] else [s!"{name}:{got}!={want}"]
      let bb := Spec.fontBBox es
      showCheck (
        checkHhea hhea ws (es.map (·.llx)) es ++
        bad "head.xMin" (rdI16 head 36) bb.llx ++ bad "head.yMin" (rdI16 head 38) bb.lly ++
        bad "head.xMax" (rdI16 head 40) bb.urx ++ bad "head.yMax" (rdI16 head 42) bb.ury ++
        bad "os2.xAvgCharWidth" (rdI16 os2 2) (Spec.avgCharWidth ws) ++
        bad "os2.usFirstCharIndex" (rdU16 os2 64) (Spec.charIndex lo) ++
        bad "os2.usLastCharIndex" (rdU16 os2 66) (Spec.charIndex hi) ++
        bad "os2.usWinAscent" (rdI16 os2 74) bb.ury ++
        bad "os2.usWinDescent" (rdI16 os2 76) (-bb.lly) ++
        bad "post.isFixedPitch" (if rdU32 post 12 ≠ 0 then 1 else 0) (if Spec.isFixedPitch ws then 1 else 0))
    | _, _, _, _, _, _, _, _ => "bad-case"
  else "bad-op"

end SfntV.Drive.Metrics
