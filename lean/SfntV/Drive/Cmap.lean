import SfntV.Model.Cmap4

namespace SfntV.Drive.Cmap
open SfntV SfntV.Cmap4

def parsePairs (s : String) : Option (List (Nat × Nat)) :=
  if s.isEmpty then some [] else
  (s.splitOn ",").mapM fun p =>
    match p.splitOn ":" with
    | [a, b] => do pure ((← a.toNat?), (← b.toNat?))
    | _ => none

def mkArr (ps : List (Nat × Nat)) : Array Nat :=
  ps.foldl (fun (a : Array Nat) p => if p.1 < a.size then a.set! p.1 p.2 else a) (Array.replicate 65536 0)

@[noinline] def mapOf (arr : Array Nat) : M := fun c => arr.getD c 0

def showSeg (s : Seg) : String :=
  s!"{s.first}-{s.last}-{s.delta}-{if s.useValues then "v" else "d"}"

def parseSeg (t : String) : Option Seg :=
  match t.splitOn "-" with
  | [a, b, c, d] => do pure ⟨← a.toNat?, ← b.toNat?, ← c.toNat?, d == "v"⟩
  | _ => none

def parseSegs (s : String) : Option (List Seg) :=
  if s.isEmpty then some [] else (s.splitOn ";").mapM parseSeg

/-- is `path` a path of proposed edges from vertex `v` to 0x10000? -/
def isPath (m : M) : Nat → List Seg → Bool
  | v, [] => v == 0x10000
  | v, s :: ss => (appendEdges m v).contains s && isPath m (s.last + 1) ss

def showPairs (l : List (Nat × Nat)) : String :=
  ",".intercalate (l.map fun p => s!"{p.1}:{p.2}")

def canonMap (l : List (Nat × Nat)) : List (Nat × Nat) :=
  -- last write wins, sorted by code
  let arr := l.foldl (fun (a : Array Nat) p => if p.1 < a.size then a.set! p.1 p.2 else a) (Array.replicate 65536 0)
  (List.range 65536).filterMap fun c => if arr.getD c 0 ≠ 0 then some (c, arr.getD c 0) else none

def prefixes : List String := ["cmap4."]

def handle (op : String) (fs : List (String × String)) : String :=
  if op == "cmap4.edges" then
    match (getField fs "map").bind parsePairs, (getField fs "v").bind String.toNat? with
    | some ps, some v =>
      let arr := mkArr ps
      ";".intercalate ((appendEdges (mapOf arr) v).map showSeg)
    | _, _ => "bad-case"
  else if op == "cmap4.encode" then
    match (getField fs "map").bind parsePairs, (getField fs "lang").bind String.toNat?,
          (getField fs "path").bind parseSegs with
    | some ps, some lang, some path =>
      let arr := mkArr ps
      let m := mapOf arr
      if !isPath m 0 path then "bad-path" else
      match encode m lang path with
      | some b => "ok:" ++ toHex b
      | none => "panic"
    | _, _, _ => "bad-case"
  else if op == "cmap4.spec" then
    match (getField fs "bytes").bind fromHex, (getField fs "codes").bind parseNatList with
    | some b, some codes => natsToString (codes.map (specLookupBytes b))
    | _, _ => "bad-case"
  else if op == "cmap4.hdr" then
    -- the binary-search fields of the header as the specification defines them from segCount
    -- (decoders that drive their search by them exist; the library's own reader ignores them)
    match (getField fs "bytes").bind fromHex with
    | some b =>
      let u16 := fun (i : Nat) => (b.getD i 0).toNat * 256 + (b.getD (i+1) 0).toNat
      let segX2 := u16 6
      let seg := segX2 / 2
      if b.length < 14 || seg == 0 || segX2 % 2 != 0 then "bad-header" else
      let es := Nat.log2 seg
      let sr := 2 * 2 ^ es
      if u16 8 == sr && u16 10 == es && u16 12 == segX2 - sr then "ok"
      else s!"search-fields:segCount={seg}:searchRange={u16 8}/{sr}:entrySelector={u16 10}/{es}:rangeShift={u16 12}/{segX2 - sr}"
    | none => "bad-case"
  else if op == "cmap4.decode" then
    match (getField fs "bytes").bind fromHex with
    | some b =>
      match decode b with
      | some l => "ok:" ++ showPairs (canonMap l)
      | none => "err"
    | none => "bad-case"
  else if op == "cmap4.decspec" then
    match (getField fs "bytes").bind fromHex, (getField fs "codes").bind parseNatList with
    | some b, some codes =>
      match decode b with
      | some _ => natsToString (codes.map (specLookupBytes b))
      | none => "na"
    | _, _ => "bad-case"
  else "bad-op"

end SfntV.Drive.Cmap
