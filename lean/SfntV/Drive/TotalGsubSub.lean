import SfntV.Model.TotalGsubSub

/-!
Line protocol of the `tmgsubsub.` verdict ops (property C02, group `gsubsub`):
`tmgsubsub.read bytes=<hex> pos=<n> type=<lookup type>` → the outcome of the checked-index model
of `readGsubSubtable` (format word at `pos`, then `readGsub1_1/1_2/2_1/3_1/4_1/8_1`):
`ok:<subtable>` | `err:<io|invalid|unsupported|foreign>` | `panic` (`foreign`: a VALID key of another
group's reader, lookup types 5, 6, 7; lookup types and formats above 9 are `invalid` since the
dispatcher repair).
Canonical subtables (coverage `s-e:i` = maximal runs in which glyph id and coverage index both go
up by one; set `s-e` = maximal runs of consecutive glyph ids):
  `1.1;cov=<set runs>;delta=<d>`            `1.2;cov=<runs>;subs=<g,g,…>`
  `2.1;cov=<runs>;seqs=<g.g.g|-|…>`         `3.1;…` the same
  `4.1;cov=<runs>;ligs=<out<in.in,out<|-|…>`
  `8.1;in=<runs>;back=<n>/<runs>/…;look=<n>/<runs>/…;subs=<g,g,…>`
-/
namespace SfntV.Drive.TotalGsubSub
open SfntV SfntV.Total
open SfntV.Otl.Gsub (Lig Rev81 Sub)

def prefixes : List String := ["tmgsubsub."]

/-- stable sort by glyph, then keep the FIRST entry of each glyph -/
def canonKV (l : List (Nat × Nat)) : List (Nat × Nat) :=
  let s := l.mergeSort (fun a b => a.1 ≤ b.1)
  (s.foldl (fun acc p =>
    match acc with
    | q :: _ => if q.1 == p.1 then acc else p :: acc
    | [] => [p]) []).reverse

/-- maximal runs `(s, e, v)`; a run continues while the glyph goes up by one and the value by `step` -/
def runsOf (step : Nat) (l : List (Nat × Nat)) : List (Nat × Nat × Nat) :=
  let (done, cur) := l.foldl (fun (st : List (Nat × Nat × Nat) × Option (Nat × Nat × Nat × Nat)) p =>
    match st.2 with
    | none => (st.1, some (p.1, p.1, p.2, p.2))
    | some (s, e, v, last) =>
      if p.1 == e + 1 && p.2 == last + step then (st.1, some (s, p.1, v, p.2))
      else ((s, e, v) :: st.1, some (p.1, p.1, p.2, p.2))) ([], none)
  (match cur with
   | some (s, e, v, _) => (s, e, v) :: done
   | none => done).reverse

def showCov (es : List (Nat × Nat)) : String :=
  ",".intercalate ((runsOf 1 (canonKV es)).map fun r => s!"{r.1}-{r.2.1}:{r.2.2}")

def showSet (gs : List Nat) : String :=
  ",".intercalate ((runsOf 0 (canonKV (gs.map fun g => (g, 0)))).map fun r => s!"{r.1}-{r.2.1}")

def showSeqs (l : List (List Nat)) : String :=
  "|".intercalate (l.map fun r => if r.isEmpty then "-" else ".".intercalate (r.map toString))

def showLigSets (l : List (List Lig)) : String :=
  "|".intercalate (l.map fun set =>
    if set.isEmpty then "-" else
    ",".intercalate (set.map fun g => s!"{g.out}<" ++ ".".intercalate (g.inp.map toString)))

def showCovs (l : List (List (Nat × Nat))) : String :=
  "/".intercalate (toString l.length :: l.map showCov)

def showSub : Sub → String
  | .s11 gs d => s!"1.1;cov={showSet gs};delta={d}"
  | .s12 cov subs => s!"1.2;cov={showCov cov};subs={natsToString subs}"
  | .seq tp cov seqs => s!"{tp}.1;cov={showCov cov};seqs={showSeqs seqs}"
  | .s41 cov repl => s!"4.1;cov={showCov cov};ligs={showLigSets repl}"
  | .s81 r => s!"8.1;in={showCov r.input};back={showCovs r.back};look={showCovs r.look};subs={natsToString r.subs}"

def showOut : Outcome (Sub × Cost) → String
  | .ok (v, _) => "ok:" ++ showSub v
  | .err e => "err:" ++ e
  | .panic _ => "panic"

def handle (op : String) (fs : List (String × String)) : String :=
  match (getField fs "bytes").bind fromHex, (getField fs "pos").bind String.toNat?,
      (getField fs "type").bind String.toNat? with
  | some b, some pos, some tp =>
    if op == "tmgsubsub.read" then showOut (GsubSub.readSubtable tp b pos)
    else "bad-op"
  | _, _, _ => "bad-case"

end SfntV.Drive.TotalGsubSub
