import SfntV.Model.TotalGtabLists
import SfntV.Model.OtlScriptList

/-!
Line protocol of the checked-index models of the GSUB/GPOS script-list, feature-list and header
readers (property C02, group `gtablists`).

* `tmgtablists.script bytes=<hex> pos=<n>` → `ok:<script hex>:<lang hex|->:<required>:<o.o.o|->,…`
  (the map with the newest write per tag pair, sorted by (script, lang)) | `err:<class>` | `panic`
* `tmgtablists.feature bytes=<hex> pos=<n>` → `ok:<tag hex>:<l.l.l|->,…` (in list order) | …
* `tmgtablists.header bytes=<hex> tp=<gsub|gpos>` → `ok:empty` | `ok:sl=<…>;fl=<…>;ll=0` | …
  (`gtab.Read` on tables whose lookup list, where it is reached, is empty or unreadable)

`otfToBCP47` is instantiated with the regenerated key sets of the library's tables
(`SfntV.Otl.SL.known`): a tag is the pair (script, lang) — the library's conversion is injective
and succeeds on all known pairs (checked by the harness on all 167 × 621 pairs); `sort.Slice` is the
stable merge sort.
-/
namespace SfntV.Drive.TotalGtabLists
open SfntV SfntV.Total SfntV.Total.GtabLists

def prefixes : List String := ["tmgtablists."]

abbrev Tag := Bytes × Bytes

def conv (script lang : Bytes) : Option Tag :=
  if SfntV.Otl.SL.known script lang then some (script, lang) else none

def srt (l : List (Bytes × Nat)) : List (Bytes × Nat) := l.mergeSort fun a c => a.2 ≤ c.2

def tagLt := SfntV.Otl.SL.tagLt
def tagLe := SfntV.Otl.SL.tagLe

/-- newest write per tag wins (the list is newest first); sorted by (script, lang) -/
def canonSL (info : List (Tag × Features)) : List (Tag × Features) :=
  let dedup := info.foldl (fun acc e => if acc.any (fun q => q.1 == e.1) then acc else e :: acc) []
  dedup.mergeSort fun a b => tagLt a.1.1 b.1.1 || (a.1.1 == b.1.1 && tagLe a.1.2 b.1.2)

def dots (l : List Nat) : String := if l.isEmpty then "-" else ".".intercalate (l.map toString)

def showSL (info : List (Tag × Features)) : String :=
  ",".intercalate ((canonSL info).map fun e =>
    toHex e.1.1 ++ ":" ++ (if e.1.2.isEmpty then "-" else toHex e.1.2) ++ s!":{e.2.required}:" ++
      dots e.2.optional)

def showFL (fl : List Feature) : String :=
  ",".intercalate (fl.map fun f => toHex f.tag ++ ":" ++ dots f.lookups)

def showOut {α} (f : α → String) : Outcome (α × Cost) → String
  | .ok (v, _) => "ok:" ++ f v
  | .err e => "err:" ++ e
  | .panic _ => "panic"

/-- the lookup-list reader on the inputs of the header stream: the list is empty or its count is
unreadable (`ReadUint16Slice`); anything else is outside the stream -/
def llEmpty (b : Bytes) (pos : Nat) : Outcome (Nat × Cost) := do
  let n ← readU16 "parser.go:145#ReadUint16" b pos
  if n = 0 then .ok (0, Cost.zero.tick) else .err "not-in-stream"

def showInfo (i : Info Tag Nat) : String :=
  match i.featureList, i.lookupList with
  | some fl, some _ => s!"sl={showSL i.scriptList};fl={showFL fl};ll=0"
  | _, _ => "empty"

def handle (op : String) (fs : List (String × String)) : String :=
  match (getField fs "bytes").bind fromHex with
  | none => "bad-case"
  | some b =>
    if op == "tmgtablists.header" then
      showOut showInfo (readGtab conv srt (llEmpty b) b)
    else
      match (getField fs "pos").bind String.toNat? with
      | none => "bad-case"
      | some pos =>
        if op == "tmgtablists.script" then showOut showSL (readScriptList conv srt b pos)
        else if op == "tmgtablists.feature" then showOut showFL (readFeatureList b pos)
        else "bad-op"

end SfntV.Drive.TotalGtabLists
