import SfntV.Prelude.Bytes
import SfntV.Model.FontMerge
import SfntV.Model.FontFile
import SfntV.Model.FontFileCff

/-! Line protocol for the `font.` area (C01).  See harness/area_font.go for the field list. -/
namespace SfntV.Drive.Font
open SfntV SfntV.Font

/-! ## parsing -/

def strOfHex (s : String) : Option Str := do
  let b ← fromHex s
  let t ← String.fromUTF8? (ByteArray.mk b.toArray)
  pure t.toList

def hexOfStr (s : Str) : String := toHex (String.ofList s).toUTF8.toList

def parseDy (s : String) : Option Dy :=
  match s.splitOn ":" with
  | [a, b] => do
    let n ← a.toInt?
    let e ← b.toNat?
    pure ⟨n, e⟩
  | _ => none

def parseTime (s : String) : Option Time :=
  match s.splitOn ":" with
  | [a, b] => do
    let n ← a.toInt?
    let e ← b.toNat?
    pure ⟨n, e⟩
  | _ => none

def parseIntList (s : String) : Option (List Int) :=
  if s.isEmpty then some [] else (s.splitOn ",").mapM String.toInt?

def parseDyList (s : String) : Option (List Dy) :=
  if s.isEmpty then some [] else (s.splitOn ",").mapM parseDy

def parseTok (s : String) : Option Str := if s == "-" then none else some s.toList

def parseFM (s : String) : Option FM :=
  match s.splitOn "/" with
  | [t, u] => if u == "-" then some ⟨t.toList, none⟩ else (u.toNat?).map fun n => ⟨t.toList, some n⟩
  | _ => none

def bit (s : String) (i : Nat) : Bool := s.toList.getD i '0' == '1'

def parseOutline (fs : List (String × String)) : Option Outline := do
  let kind ← getField fs "kind"
  let n ← (getField fs "n").bind String.toNat?
  let w ← getField fs "w"
  let widths ← if w == "nil" then some none else (parseDyList w).map some
  let h ← (getField fs "h").bind parseIntList
  let gl ← getField fs "gl"
  let cm ← getField fs "cm"
  let best ← getField fs "best"
  let gh ← (getField fs "gh").bind String.toNat?
  let gx ← (getField fs "gx").bind String.toNat?
  let sl ← getField fs "sl"
  let eg ← getField fs "eg"
  pure { kind := if kind == "g" then .glyf else .cff, numGlyphs := n, widths := widths, heights := h,
         glyphs := (kind ++ gl).toList, emptyGlyf := eg == "1", cmap := cm.toList, hasBest := best == "1",
         gidH := gh, gidX := gx, stdLig := parseTok sl }

def parseMeta (fs : List (String × String)) : Option FontMeta := do
  let str (k : String) : Option Str := (getField fs k).bind strOfHex
  let nat (k : String) : Option Nat := (getField fs k).bind String.toNat?
  let int (k : String) : Option Int := (getField fs k).bind String.toInt?
  let dy (k : String) : Option Dy := (getField fs k).bind parseDy
  let fl ← getField fs "fl"
  let o ← parseOutline fs
  pure {
    familyName := ← str "fam", width := ← nat "wd", weight := ← nat "wt",
    isRegular := bit fl 0, isBold := bit fl 1, isItalic := bit fl 2, isOblique := bit fl 3,
    isSerif := bit fl 4, isScript := bit fl 5,
    codePageRange := ← nat "cpr", version := ← nat "ver",
    creationTime := ← (getField fs "ct").bind parseTime,
    modificationTime := ← (getField fs "mt").bind parseTime,
    description := ← str "dsc", sampleText := ← str "smp", copyright := ← str "cpy",
    trademark := ← str "tm", license := ← str "lic", licenseURL := ← str "url",
    permUse := ← int "perm", unitsPerEm := ← nat "upem",
    fontMatrix := ← (getField fs "fm").bind parseFM,
    ascent := ← int "asc", descent := ← int "des", lineGap := ← int "gap",
    capHeight := ← int "cap", xHeight := ← int "xh",
    italicAngle := ← dy "ia", underlinePosition := ← dy "up", underlineThickness := ← dy "ut",
    outline := o,
    gdef := ← (getField fs "gdef").map parseTok,
    gsub := ← (getField fs "gsub").map parseTok,
    gpos := ← (getField fs "gpos").map parseTok }

/-! ## printing -/

def showDy (d : Dy) : String := s!"{d.num}:{d.exp}"
def showTime (t : Time) : String := s!"{t.sec}:{t.nsec}"
def showTok (t : Option Str) : String := match t with | some s => String.ofList s | none => "-"
def b01 (b : Bool) : String := if b then "1" else "0"
def showInts (l : List Int) : String := ",".intercalate (l.map toString)
def showFM (m : FM) : String :=
  String.ofList m.tok ++ "/" ++ (match m.upem with | some u => toString u | none => "-")

def kindStr (o : Outline) : String := String.ofList (o.glyphs.take 1)

def metaFields (F : FontMeta) : List (String × String) :=
  let o := F.outline
  [("fam", hexOfStr F.familyName), ("wd", toString F.width), ("wt", toString F.weight),
   ("fl", b01 F.isRegular ++ b01 F.isBold ++ b01 F.isItalic ++ b01 F.isOblique ++ b01 F.isSerif ++ b01 F.isScript),
   ("cpr", toString F.codePageRange), ("ver", toString F.version),
   ("ct", showTime F.creationTime), ("mt", showTime F.modificationTime),
   ("dsc", hexOfStr F.description), ("smp", hexOfStr F.sampleText), ("cpy", hexOfStr F.copyright),
   ("tm", hexOfStr F.trademark), ("lic", hexOfStr F.license), ("url", hexOfStr F.licenseURL),
   ("perm", toString F.permUse), ("upem", toString F.unitsPerEm), ("fm", showFM F.fontMatrix),
   ("asc", toString F.ascent), ("des", toString F.descent), ("gap", toString F.lineGap),
   ("cap", toString F.capHeight), ("xh", toString F.xHeight),
   ("ia", showDy F.italicAngle), ("up", showDy F.underlinePosition), ("ut", showDy F.underlineThickness),
   ("kind", kindStr o), ("n", toString o.numGlyphs),
   ("w", match o.widths with | none => "nil" | some l => ",".intercalate (l.map showDy)),
   ("h", showInts o.heights), ("gl", String.ofList (o.glyphs.drop 1)), ("eg", b01 o.emptyGlyf),
   ("cm", String.ofList o.cmap),
   ("best", b01 o.hasBest), ("gh", toString o.gidH), ("gx", toString o.gidX), ("sl", showTok o.stdLig),
   ("gdef", showTok F.gdef), ("gsub", showTok F.gsub), ("gpos", showTok F.gpos)]

def showFields (l : List (String × String)) : String := " ".intercalate (l.map fun p => p.1 ++ "=" ++ p.2)
def showMeta (F : FontMeta) : String := showFields (metaFields F)

def diffKeys : List (String × String) → List (String × String) → List String
  | a :: as, b :: bs => if a == b then diffKeys as bs else a.1 :: diffKeys as bs
  | as, [] => as.map (·.1)
  | [], _ => []

/-! ## table records -/

def semi (l : List String) : String := ";".intercalate l

def showHead (h : HeadRec) : String :=
  semi [toString h.fontRevision, toString h.unitsPerEm, showTime h.created, showTime h.modified,
        b01 h.isBold, b01 h.isItalic, toString h.lowestRecPPEM]

def showOs2 (o : Os2Rec) : String :=
  semi [toString o.weightClass, toString o.widthClass,
        b01 o.isBold ++ b01 o.isItalic ++ b01 o.isRegular ++ b01 o.isOblique,
        toString o.ascent, toString o.descent, toString o.lineGap, toString o.capHeight, toString o.xHeight,
        toString o.avgGlyphWidth, toString o.familyClass, toString o.codePageRange, toString o.permUse]

def showName (n : NameRec) (withId : Bool) : String :=
  semi [hexOfStr n.family, hexOfStr n.subfamily, hexOfStr n.description, hexOfStr n.copyright,
        hexOfStr n.trademark, hexOfStr n.license, hexOfStr n.licenseURL,
        (if withId then hexOfStr n.identifier else "now"), hexOfStr n.fullName, hexOfStr n.version,
        hexOfStr n.postScriptName, hexOfStr n.sampleText]

def showPost (p : PostRec) : String :=
  semi [showDy p.italicAngle, toString p.underlinePosition, toString p.underlineThickness, b01 p.isFixedPitch]

/-- the three float fields pass through the decimal "real" codec of the CFF DICT (C13) and are
not compared -/
def showCff (c : CffInfo) : String :=
  semi [hexOfStr c.fontName, hexOfStr c.fullName, hexOfStr c.familyName, hexOfStr c.weight, hexOfStr c.version,
        hexOfStr c.copyright, hexOfStr c.notice, "-", b01 c.isFixedPitch, "-", "-", showFM c.fontMatrix]

def showHmtx (h : HmtxRec) : String :=
  semi [toString h.ascent, toString h.descent, toString h.lineGap, "-", showInts h.widths]

def opt (f : α → String) : Option α → String
  | some a => f a
  | none => "-"

def showTables (T : Tables) (withId : Bool) : String :=
  showFields [("sc", if T.scalerCFF then "c" else "g"), ("head", opt showHead T.head),
    ("hmtx", opt showHmtx T.hmtx), ("maxp", opt toString T.maxp), ("os2", opt showOs2 T.os2),
    ("name", opt (showName · withId) T.name), ("post", opt showPost T.post), ("cff", opt showCff T.cff)]

def nth (l : List String) (i : Nat) : Option String := l[i]?

def parseHead (s : String) : Option (Option HeadRec) :=
  if s == "-" then some none else
  let p := s.splitOn ";"
  (do
    let rev ← (nth p 0).bind String.toNat?
    let u ← (nth p 1).bind String.toNat?
    let c ← (nth p 2).bind parseTime
    let m ← (nth p 3).bind parseTime
    let b ← nth p 4
    let i ← nth p 5
    let pp ← (nth p 6).bind String.toNat?
    pure (some { fontRevision := rev, unitsPerEm := u, created := c, modified := m,
                 isBold := b == "1", isItalic := i == "1", lowestRecPPEM := pp }))

def parseHmtx (s : String) (caret : Int) : Option (Option HmtxRec) :=
  if s == "-" then some none else
  let p := s.splitOn ";"
  (do
    let a ← (nth p 0).bind String.toInt?
    let d ← (nth p 1).bind String.toInt?
    let g ← (nth p 2).bind String.toInt?
    let w ← (nth p 4).bind parseIntList
    pure (some { widths := w, ascent := a, descent := d, lineGap := g, caret16 := caret }))

def parseOs2 (s : String) : Option (Option Os2Rec) :=
  if s == "-" then some none else
  let p := s.splitOn ";"
  (do
    let wt ← (nth p 0).bind String.toNat?
    let wd ← (nth p 1).bind String.toNat?
    let fl ← nth p 2
    let iv (i : Nat) : Option Int := (nth p i).bind String.toInt?
    let cpr ← (nth p 10).bind String.toNat?
    pure (some { weightClass := wt, widthClass := wd, isBold := bit fl 0, isItalic := bit fl 1,
                 isRegular := bit fl 2, isOblique := bit fl 3,
                 ascent := ← iv 3, descent := ← iv 4, lineGap := ← iv 5, capHeight := ← iv 6, xHeight := ← iv 7,
                 avgGlyphWidth := ← iv 8, familyClass := ← iv 9, codePageRange := cpr, permUse := ← iv 11 }))

def parseName (s : String) : Option (Option NameRec) :=
  if s == "-" then some none else
  let p := s.splitOn ";"
  (do
    let sv (i : Nat) : Option Str := (nth p i).bind strOfHex
    pure (some { family := ← sv 0, subfamily := ← sv 1, description := ← sv 2, copyright := ← sv 3,
                 trademark := ← sv 4, license := ← sv 5, licenseURL := ← sv 6, identifier := ← sv 7,
                 fullName := ← sv 8, version := ← sv 9, postScriptName := ← sv 10, sampleText := ← sv 11 }))

def parsePost (s : String) : Option (Option PostRec) :=
  if s == "-" then some none else
  let p := s.splitOn ";"
  (do
    let a ← (nth p 0).bind parseDy
    let up ← (nth p 1).bind String.toInt?
    let ut ← (nth p 2).bind String.toInt?
    let fx ← nth p 3
    pure (some { italicAngle := a, underlinePosition := up, underlineThickness := ut, isFixedPitch := fx == "1" }))

def parseCff (s : String) : Option (Option CffInfo) :=
  if s == "-" then some none else
  let p := s.splitOn ";"
  (do
    let sv (i : Nat) : Option Str := (nth p i).bind strOfHex
    let fx ← nth p 8
    pure (some { fontName := ← sv 0, fullName := ← sv 1, familyName := ← sv 2, weight := ← sv 3,
                 version := ← sv 4, copyright := ← sv 5, notice := ← sv 6,
                 italicAngle := ← (nth p 7).bind parseDy, isFixedPitch := fx == "1",
                 underlinePosition := ← (nth p 9).bind parseDy, underlineThickness := ← (nth p 10).bind parseDy,
                 fontMatrix := ← (nth p 11).bind parseFM }))

/-- what the cut-down OS/2 tables of the foreign stream decode to (os2.Read, os2.go:76-200):
versions ≤ 3 mask fsSelection to its low 7 bits (no OBLIQUE), versions < 2 have no code page
ranges and no x/cap height, the short version 0 has no typographic metrics either -/
def os2Version (v : String) (o : Os2Rec) : Os2Rec :=
  let o := if v == "4" then o else { o with isOblique := false }
  let o := if v == "1" || v == "0" || v == "0s" then { o with codePageRange := 0, capHeight := 0, xHeight := 0 } else o
  if v == "0s" then { o with ascent := 0, descent := 0, lineGap := 0 } else o

def parseTables (fs : List (String × String)) : Option Tables := do
  let sc ← getField fs "sc"
  let caret ← (getField fs "caret16").bind String.toInt?
  let o ← parseOutline fs
  let v ← getField fs "os2v"
  let os2 ← (getField fs "os2").bind parseOs2
  pure { scalerCFF := sc == "c",
         head := ← (getField fs "head").bind parseHead,
         hmtx := ← (getField fs "hmtx").bind (parseHmtx · caret),
         maxp := ← (getField fs "maxp").map fun s => if s == "-" then none else s.toNat?,
         os2 := os2.map fun r => os2Version v (codecOs2 r),
         name := ← (getField fs "name").bind parseName,
         post := ← (getField fs "post").bind parsePost,
         cff := ← (getField fs "cff").bind parseCff,
         outline := o,
         gdef := ← (getField fs "gdef").map parseTok,
         gsub := ← (getField fs "gsub").map parseTok,
         gpos := ← (getField fs "gpos").map parseTok,
         kern := ← (getField fs "kern").map parseTok }

/-- encode→decode of the foreign records: OS/2 is handled in `parseTables` (version variants) -/
def codecForeign (T : Tables) : Tables :=
  { T with head := T.head.map codecHead, post := T.post.map codecPost }

/-! ## civil date for `day.Format("2006-01-02")` in UTC -/

def pad (w : Nat) (n : Nat) : Str :=
  let d := decStr n
  List.replicate (w - d.length) '0' ++ d

def fmtDateUTC (t : Time) : Str :=
  let days : Int := t.sec / 86400
  let z := days + 719468
  let era := z / 146097
  let doe := z - era * 146097
  let yoe := (doe - doe / 1460 + doe / 36524 - doe / 146096) / 365
  let y := yoe + era * 400
  let doy := doe - (365 * yoe + yoe / 4 - yoe / 100)
  let mp := (5 * doy + 2) / 153
  let d := doy - (153 * mp + 2) / 5 + 1
  let m := if mp < 10 then mp + 3 else mp - 9
  let y := if m ≤ 2 then y + 1 else y
  pad 4 y.toNat ++ '-' :: pad 2 m.toNat ++ '-' :: pad 2 d.toNat

def env : Env := { now := Time.zero, fmtDate := fmtDateUTC, caretOf := fun _ => 0 }

/-! ## handlers -/

def generationsOf (F1 : FontMeta) : String :=
  let F2 := rewrite env F1
  match readErr (codec (derive env F1)) with
  | some e => "differ:reread-err:" ++ e
  | none =>
    let d := diffKeys (metaFields F1) (metaFields F2)
    if d.isEmpty then "same" else "differ:" ++ ",".intercalate d

def firstGen (fs : List (String × String)) : Option (Except String FontMeta) :=
  if (getField fs "sc").isSome then
    (parseTables fs).map fun T =>
      let T := codecForeign T
      match readErr T with
      | some e => .error ("err:" ++ e)
      | none => .ok (merge T)
  else
    (parseMeta fs).map fun F =>
      let T := codec (derive env F)
      match readErr T with
      | some e => .error ("err:" ++ e)
      | none => .ok (merge T)

/-! ## font.file: payload fields -/

def parseGlyph (s : String) : Option (Option Glyf.Glyph) :=
  if s == "-" then some none else
  match s.splitOn "." with
  | [a, b, c, d, nc, enc] => do
    let llx ← a.toNat?
    let lly ← b.toNat?
    let urx ← c.toNat?
    let ury ← d.toNat?
    let n ← nc.toNat?
    let e ← fromHex enc
    pure (some ⟨llx, lly, urx, ury, .simple n e⟩)
  | _ => none

def parseSideTables (s : String) : Option (List (Bytes × Bytes)) :=
  if s.isEmpty then some [] else
  (s.splitOn ",").mapM fun t =>
    match t.splitOn ":" with
    | [n, d] => do
      let name ← fromHex n
      let data ← fromHex d
      pure (name, data)
    | _ => none

def parseCmapEntry (s : String) : Option (CmapTable.Key × Bytes) :=
  match s.splitOn ":" with
  | [k, d] =>
    match k.splitOn "." with
    | [p, e, l] => do
      let pp ← p.toNat?
      let ee ← e.toNat?
      let ll ← l.toNat?
      let data ← fromHex d
      pure (⟨pp, ee, ll⟩, data)
    | _ => none
  | _ => none

/-- layout decoders of the diagnostic stream: the token is the hex of the table -/
def idLayout : FontFile.LayoutDec :=
  { gdef := fun b => .ok (FontFile.tokenOfBytes b), gsub := fun b => .ok (FontFile.tokenOfBytes b),
    gpos := fun b => .ok (FontFile.tokenOfBytes b) }

def parseFileFont (fs : List (String × String)) : Option (FontFile.FileFont × (Int × Int)) := do
  let M ← parseMeta fs
  let gly ← getField fs "gly"
  let gs ← if gly.isEmpty then some [] else (gly.splitOn ",").mapM parseGlyph
  let mx ← (getField fs "mx").bind parseNatList
  let tabs ← (getField fs "tabs").bind parseSideTables
  let rr ← getField fs "rr"
  let (rise, run) ← match rr.splitOn ":" with
    | [a, b] => do
      let x ← a.toInt?
      let y ← b.toInt?
      pure (x, y)
    | _ => none
  let ws := M.outline.widthList.map Dy.trunc
  let cmt ← getField fs "cmt"
  let cm ← if cmt == "-" then some none else
    ((if cmt.isEmpty then some [] else (cmt.splitOn ",").mapM parseCmapEntry).map some)
  let gn ← getField fs "gn"
  let names ← if gn == "-" then some none else
    (let body : String := String.ofList (gn.toList.drop 1)
     (if body.isEmpty then some [] else (body.splitOn ",").mapM fun h => (fromHex h).map (·.map (·.toNat))).map some)
  let ob (k : String) : Option (Option Bytes) :=
    match getField fs k with
    | none => some none
    | some v => if v == "-" then some none else (fromHex v).map some
  pure ({ scalars := M, glyphs := gs, widths := ws, maxpTtf := mx, sideTables := tabs,
          cmap := cm, glyphNames := names, gdef := ← ob "gdefb", gsub := ← ob "gsubb", gpos := ← ob "gposb" },
        (rise, run))

def parseRect (s : String) : Option Metrics.Rect :=
  match s.splitOn "." with
  | [a, b, c, d] => do
    let llx ← a.toInt?
    let lly ← b.toInt?
    let urx ← c.toInt?
    let ury ← d.toInt?
    pure ⟨llx, lly, urx, ury⟩
  | _ => none

/-- a font.file line of an OpenType/CFF font -/
def parseCffFileFont (fs : List (String × String)) : Option (FontFile.CffFileFont × (Int × Int)) := do
  let M ← parseMeta fs
  let cffb ← (getField fs "cffb").bind fromHex
  let ext ← getField fs "ext"
  let rects ← if ext.isEmpty then some [] else (ext.splitOn ",").mapM parseRect
  let rr ← getField fs "rr"
  let (rise, run) ← match rr.splitOn ":" with
    | [a, b] => do
      let x ← a.toInt?
      let y ← b.toInt?
      pure (x, y)
    | _ => none
  let cmt ← getField fs "cmt"
  let cm ← if cmt == "-" then some none else
    ((if cmt.isEmpty then some [] else (cmt.splitOn ",").mapM parseCmapEntry).map some)
  let ob (k : String) : Option (Option Bytes) :=
    match getField fs k with
    | none => some none
    | some v => if v == "-" then some none else (fromHex v).map some
  let payload : FontFile.CffPayload :=
    { info := deriveCff M, widths := M.outline.widthList, extents := rects, token := M.outline.glyphs }
  pure ({ scalars := M, cffBytes := cffb, payload := payload, cmap := cm,
          gdef := ← ob "gdefb", gsub := ← ob "gsubb", gpos := ← ob "gposb" }, (rise, run))

def prefixes : List String := ["font."]

def handle (op : String) (fs : List (String × String)) : String :=
  if op == "font.meta" || op == "font.merge" then
    match firstGen fs with
    | none => "bad-case"
    | some (.error e) => e
    | some (.ok F) => showMeta F
  else if op == "font.derive" then
    match parseMeta fs with
    | none => "bad-case"
    | some F => showTables (codec (derive env F)) (!(F.creationTime.isZero && F.modificationTime.isZero))
  else if op == "font.fixed" then
    -- the property itself: a font value can be written and read back, and every accepted first
    -- generation is a fixed point (a rejected *foreign* table set is outside the property)
    match firstGen fs with
    | none => "bad-case"
    | some (.error e) => if (getField fs "sc").isSome then e else "same"
    | some (.ok _) => "same"
  else if op == "font.fixedpred" then
    match firstGen fs with
    | none => "bad-case"
    | some (.error e) => e
    | some (.ok F) => generationsOf F
  else if op == "font.twice" then
    -- the property: writing the same font again gives the same bytes (a rejected foreign table
    -- set yields no font and is outside the property)
    if (getField fs "tag").isSome then "same"
    else match firstGen fs with
      | none => "bad-case"
      | some (.error e) => if (getField fs "sc").isSome then e else "same"
      | some (.ok _) => "same"
  else if op == "font.cmaprt" then
    -- the cmap clause of the property on the real code: Read(Write(F)).CMapTable = F.CMapTable, keys
    -- (platform, encoding, language) and subtable bytes (C09_table_roundtrip; the recipes stay in its
    -- domain: the key's language is the subtable's language field on platform 1 and 0 elsewhere)
    "same"
  else if op == "font.file" && (getField fs "cffb").isSome then
    match parseCffFileFont fs with
    | none => "bad-case"
    | some (F, rr) =>
      match FontFile.writeFileCff { env := env, riseRun := fun _ => rr } F with
      | .ok b => "ok:" ++ toHex b
      | .err e => "err:" ++ e
      | .panic s => "panic:" ++ s
  else if op == "font.filert" && (getField fs "cffb").isSome then
    match parseCffFileFont fs with
    | none => "bad-case"
    | some (F, rr) =>
      let F := { F with payload := { F.payload with info := deriveCff (FontFile.metaOfCff F) } }
      match FontFile.writeFileCff { env := env, riseRun := fun _ => rr } F with
      | .ok b =>
        match FontFile.readFileCff idLayout (fun _ => .ok F.payload) (fun _ _ => 0) b with
        | .ok r => if r == FontFile.nfFileCff F then "same" else
            "differ:" ++ ",".intercalate (diffKeys (metaFields r.font) (metaFields (FontFile.nfFileCff F).font))
        | .err e => "read-err:" ++ e
        | .panic s => "read-panic:" ++ s
      | .err e => "err:" ++ e
      | .panic s => "panic:" ++ s
  else if op == "font.file" then
    match parseFileFont fs with
    | none => "bad-case"
    | some (F, rr) =>
      match FontFile.writeFile { env := env, riseRun := fun _ => rr } F with
      | .ok b => "ok:" ++ toHex b
      | .err e => "err:" ++ e
      | .panic s => "panic:" ++ s
  else if op == "font.filert" then
    -- diagnostic: the byte-level model reads back what it wrote as `nfFile F` (instance of the
    -- statement of C01_file_roundtrip)
    match parseFileFont fs with
    | none => "bad-case"
    | some (F, rr) =>
      match FontFile.writeFile { env := env, riseRun := fun _ => rr } F with
      | .ok b =>
        match FontFile.readFile idLayout (fun _ _ => 0) b with
        | .ok r => if r == FontFile.nfFile F then "same" else
            "differ:" ++ ",".intercalate (diffKeys (metaFields r.font) (metaFields (FontFile.nfFile F).font)) ++
            (if r.glyphs == F.glyphs then "" else ",glyphs") ++
            (if r.maxpTtf == some F.maxpTtf then "" else ",maxp") ++
            (if r.cmap == F.cmap then "" else ",cmap") ++
            (if r.glyphNames == F.glyphNames then "" else ",glyphnames") ++
            (if r.sideTables == (FontFile.nfFile F).sideTables then "" else ",sidetables")
        | .err e => "read-err:" ++ e
        | .panic s => "read-panic:" ++ s
      | .err e => "err:" ++ e
      | .panic s => "panic:" ++ s
  else if op == "font.nf" then
    -- the property's first clause: Read(Write(F)) is the explicit normal form of F
    match parseMeta fs with
    | none => "bad-case"
    | some F => if decide (InDomain F) then showMeta (nf F) else "outside-domain"
  else "bad-op"

end SfntV.Drive.Font
