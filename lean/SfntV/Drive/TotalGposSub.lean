import SfntV.Model.TotalGposSub

/-!
Line protocol of the `tmgpossub.` verdict ops (property C02, group `gpossub`):
`tmgpossub.read bytes=<hex> pos=<n> type=<t>`, `tmgpossub.anchor bytes=<hex> pos=<n>`,
`tmgpossub.markarray bytes=<hex> pos=<n> num=<int>` → the outcome of the checked-index model:
`ok:<canonical>` | `err:<class>` | `panic`.
Canonical values: value record `-` (nil) or its eight fields joined by `.`; coverage `s-e:i` =
maximal runs in which glyph id and coverage index both go up by one; set `s-e`; classdef `s-e:c`;
GPOS 2.1 = the merged map sorted by (first, second), the LAST record of a repeated second glyph.
-/
namespace SfntV.Drive.TotalGposSub
open SfntV SfntV.Total SfntV.Total.GposSub

def prefixes : List String := ["tmgpossub."]

/-- stable sort by key, then keep the FIRST entry of each key -/
def canonKV {β} (l : List (Nat × β)) : List (Nat × β) :=
  let s := l.mergeSort (fun a b => a.1 ≤ b.1)
  (s.foldl (fun acc p =>
    match acc with
    | q :: _ => if q.1 == p.1 then acc else p :: acc
    | [] => [p]) []).reverse

/-- maximal runs `(s, e, v)`; a run continues while the glyph goes up by one and the value by `step` -/
def runsOf (step : Nat) (l : List (Nat × Nat)) : List (Nat × Nat × Nat) :=
  let (done, cur) := l.foldl (fun (st : List (Nat × Nat × Nat) × Option (Nat × Nat × Nat × Nat)) p =>
    match st.2 with
    | none => (st.1, some (p.1, p.1, p.2, p.2))
    | some (s, e, v, last) =>
      if p.1 == e + 1 && p.2 == last + step then (st.1, some (s, p.1, v, p.2))
      else ((s, e, v) :: st.1, some (p.1, p.1, p.2, p.2))) ([], none)
  (match cur with
   | some (s, e, v, _) => (s, e, v) :: done
   | none => done).reverse

def showRunsV (rs : List (Nat × Nat × Nat)) : String :=
  ",".intercalate (rs.map fun r => s!"{r.1}-{r.2.1}:{r.2.2}")

def showRuns (rs : List (Nat × Nat × Nat)) : String :=
  ",".intercalate (rs.map fun r => s!"{r.1}-{r.2.1}")

def showCov (es : List (Nat × Nat)) : String := showRunsV (runsOf 1 (canonKV es))
def showSet (gs : List Nat) : String := showRuns (runsOf 0 (canonKV (gs.map fun g => (g, 0))))
def showCd (es : List (Nat × Nat)) : String :=
  showRunsV (runsOf 0 ((canonKV es).filter fun p => p.2 != 0))

def showVR : VR → String
  | none => "-"
  | some fs => ".".intercalate (fs.map toString)

def showAnchor (a : Anchor) : String := s!"{a.1}.{a.2}"

/-- the merged map of GPOS 2.1 -/
@[noinline] def merge21 (cov : List (Nat × Nat)) (adjust : Array PairSet) : String :=
  let es : List (Nat × (VR × VR)) := cov.flatMap fun p =>
    (canonKV ((adjust.getD p.2 []).reverse.map fun t => (t.1, t.2))).map
      fun t => (p.1 * 65536 + t.1, t.2)
  let es := es.mergeSort (fun a b => a.1 ≤ b.1)
  ",".intercalate (es.map fun e =>
    s!"{e.1 / 65536}/{e.1 % 65536}:{showVR e.2.1}|{showVR e.2.2}")

def showSub51 (mc lc : List (Nat × Nat)) (marks : List (Nat × Anchor))
    (ligs : List (List (List Anchor))) : String :=
  let m := ",".intercalate (marks.map fun r => s!"{r.1}.{showAnchor r.2}")
  let l := "/".intercalate (ligs.map fun lig =>
    "|".intercalate (lig.map fun row => ",".intercalate (row.map showAnchor)))
  s!"5.1 mcov={showCov mc};lcov={showCov lc};marks={m};n={ligs.length};lig={l}"

def showSub : Sub → String
  | .s51 mc lc marks ligs => showSub51 mc lc marks ligs
  | .s11 cov vr => s!"1.1 cov={showCov cov};vr={showVR vr}"
  | .s12 cov vrs => s!"1.2 cov={showCov cov};vrs={",".intercalate (vrs.map showVR)}"
  | .s21 cov sets => "2.1 " ++ merge21 cov sets.toArray
  | .s22 cov cd1 cd2 rows =>
    let r := "/".intercalate (rows.map fun row =>
      ",".intercalate (row.map fun p => s!"{showVR p.1}|{showVR p.2}"))
    s!"2.2 cov={showSet cov};cd1={showCd cd1};cd2={showCd cd2};n={rows.length};adj={r}"
  | .s31 cov recs =>
    s!"3.1 cov={showCov cov};recs={",".intercalate (recs.map fun r => showAnchor r.1 ++ "." ++ showAnchor r.2)}"

def showOut {α} (f : α → String) : Outcome (α × Cost) → String
  | .ok (v, _) => "ok:" ++ f v
  | .err e => "err:" ++ e
  | .panic _ => "panic"

def handle (op : String) (fs : List (String × String)) : String :=
  match (getField fs "bytes").bind fromHex, (getField fs "pos").bind String.toNat? with
  | some b, some pos =>
    if op == "tmgpossub.read" then
      match (getField fs "type").bind String.toNat? with
      | some tp => showOut showSub (readSubtable b pos tp)
      | none => "bad-case"
    else if op == "tmgpossub.anchor" then
      showOut showAnchor (anchorRead b pos)
    else if op == "tmgpossub.markarray" then
      match (getField fs "num").bind String.toInt? with
      | some num =>
        showOut (fun rs => ",".intercalate (rs.map fun r => s!"{r.1}.{showAnchor r.2}"))
          (markarrayRead b pos num)
      | none => "bad-case"
    else "bad-op"
  | _, _ => "bad-case"

end SfntV.Drive.TotalGposSub
