import SfntV.Model.TotalChainCtx

/-!
Line protocol of the `tmchainctx.` verdict op (property C02, group `chainctx`):
`tmchainctx.read bytes=<hex> pos=<n>` → the outcome of the checked-index model of
`readGsubSubtable` for lookup type 6 (`readChainedSeqContext1/2/3`):
`ok:<canonical subtable>` | `err:<class>` | `panic`.
Canonical values: coverage `s-e:i` runs, class tables `s-e:c` runs, coverage sets `s-e` runs (as in
`tmotl.`); a rule set is `-` (nil) or its rules joined by `/` (`=` for a set without rules); a rule is
`b<list>i<list>l<list>a<list>`; a list is its numbers joined by `.`, or `#<len>~<hash>` beyond 32
entries.
-/
namespace SfntV.Drive.TotalChainCtx
open SfntV SfntV.Total

def prefixes : List String := ["tmchainctx."]

/-- stable sort by glyph, then keep the FIRST entry of each glyph -/
def canonKV (l : List (Nat × Nat)) : List (Nat × Nat) :=
  let s := l.mergeSort (fun a b => a.1 ≤ b.1)
  (s.foldl (fun acc p =>
    match acc with
    | q :: _ => if q.1 == p.1 then acc else p :: acc
    | [] => [p]) []).reverse

/-- maximal runs `(s, e, v)`; a run continues while the glyph goes up by one and the value by `step` -/
def runsOf (step : Nat) (l : List (Nat × Nat)) : List (Nat × Nat × Nat) :=
  let (done, cur) := l.foldl (fun (st : List (Nat × Nat × Nat) × Option (Nat × Nat × Nat × Nat)) p =>
    match st.2 with
    | none => (st.1, some (p.1, p.1, p.2, p.2))
    | some (s, e, v, last) =>
      if p.1 == e + 1 && p.2 == last + step then (st.1, some (s, p.1, v, p.2))
      else ((s, e, v) :: st.1, some (p.1, p.1, p.2, p.2))) ([], none)
  (match cur with
   | some (s, e, v, _) => (s, e, v) :: done
   | none => done).reverse

def showRunsV (rs : List (Nat × Nat × Nat)) : String :=
  ",".intercalate (rs.map fun r => s!"{r.1}-{r.2.1}:{r.2.2}")

def showRuns (rs : List (Nat × Nat × Nat)) : String :=
  ",".intercalate (rs.map fun r => s!"{r.1}-{r.2.1}")

def showCov (es : List (Nat × Nat)) : String := showRunsV (runsOf 1 (canonKV es))
def showCd (es : List (Nat × Nat)) : String := showRunsV (runsOf 0 ((canonKV es).filter fun p => p.2 != 0))
def showSet (gs : List Nat) : String := showRuns (runsOf 0 (canonKV (gs.map fun g => (g, 0))))

def showList (l : List Nat) : String :=
  if l.length ≤ 32 then ".".intercalate (l.map toString)
  else
    let h := l.foldl (fun h v => (h * 31 + v + 1) % 1000000007) 7
    s!"#{l.length}~{h}"

def showRule (r : ChainCtx.Rule) : String :=
  "b" ++ showList r.back ++ "i" ++ showList r.input ++ "l" ++ showList r.look ++ "a" ++
    showList (r.actions.flatMap fun a => [a.1, a.2])

def showRuleSet : Option (List ChainCtx.Rule) → String
  | none => "-"
  | some [] => "="
  | some rs => "/".intercalate (rs.map showRule)

def showSets (sets : List (Option (List ChainCtx.Rule))) : String :=
  ";".intercalate (sets.map showRuleSet)

def showSub : ChainCtx.Sub → String
  | .c1 _ cov sets => "c1|" ++ showCov cov ++ "|" ++ showSets sets
  | .c2 _ cov cds sets => "c2|" ++ showCov cov ++ "|" ++ "|".intercalate (cds.map showCd) ++ "|" ++ showSets sets
  | .c3 cb ci cl acts _ =>
    "c3|" ++ ";".intercalate (cb.map showSet) ++ "|" ++ ";".intercalate (ci.map showSet) ++ "|" ++
      ";".intercalate (cl.map showSet) ++ "|" ++ showList (acts.flatMap fun a => [a.1, a.2])

def showOut : Outcome (ChainCtx.Sub × Cost) → String
  | .ok (v, _) => "ok:" ++ showSub v
  | .err e => "err:" ++ e
  | .panic _ => "panic"

def handle (op : String) (fs : List (String × String)) : String :=
  match (getField fs "bytes").bind fromHex, (getField fs "pos").bind String.toNat? with
  | some b, some pos =>
    if op == "tmchainctx.read" then showOut (ChainCtx.readChained b pos)
    else "bad-op"
  | _, _ => "bad-case"

end SfntV.Drive.TotalChainCtx
