import SfntV.Model.TotalOtl

/-!
Line protocol of the `tmotl.` verdict ops (property C02, group `otl`):
`tmotl.coverage | tmotl.covset | tmotl.classdef  bytes=<hex> pos=<n>` → the outcome of the
checked-index model: `ok:<runs>` | `err:<class>` | `panic`.
Canonical values (glyph order): coverage `s-e:i` = maximal runs in which glyph id and coverage
index both go up by one; set `s-e` = maximal runs of consecutive glyph ids; classdef `s-e:c` =
maximal runs of one non-zero class.
-/
namespace SfntV.Drive.TotalOtl
open SfntV SfntV.Total

def prefixes : List String := ["tmotl."]

/-- stable sort by glyph, then keep the FIRST entry of each glyph -/
def canonKV (l : List (Nat × Nat)) : List (Nat × Nat) :=
  let s := l.mergeSort (fun a b => a.1 ≤ b.1)
  (s.foldl (fun acc p =>
    match acc with
    | q :: _ => if q.1 == p.1 then acc else p :: acc
    | [] => [p]) []).reverse

/-- maximal runs `(s, e, v)`; a run continues while the glyph goes up by one and the value by `step` -/
def runsOf (step : Nat) (l : List (Nat × Nat)) : List (Nat × Nat × Nat) :=
  let (done, cur) := l.foldl (fun (st : List (Nat × Nat × Nat) × Option (Nat × Nat × Nat × Nat)) p =>
    match st.2 with
    | none => (st.1, some (p.1, p.1, p.2, p.2))
    | some (s, e, v, last) =>
      if p.1 == e + 1 && p.2 == last + step then (st.1, some (s, p.1, v, p.2))
      else ((s, e, v) :: st.1, some (p.1, p.1, p.2, p.2))) ([], none)
  (match cur with
   | some (s, e, v, _) => (s, e, v) :: done
   | none => done).reverse

def showRunsV (rs : List (Nat × Nat × Nat)) : String :=
  ",".intercalate (rs.map fun r => s!"{r.1}-{r.2.1}:{r.2.2}")

def showRuns (rs : List (Nat × Nat × Nat)) : String :=
  ",".intercalate (rs.map fun r => s!"{r.1}-{r.2.1}")

def showOut {α} (f : α → String) : Outcome (α × Cost) → String
  | .ok (v, _) => "ok:" ++ f v
  | .err e => "err:" ++ e
  | .panic _ => "panic"

def handle (op : String) (fs : List (String × String)) : String :=
  match (getField fs "bytes").bind fromHex, (getField fs "pos").bind String.toNat? with
  | some b, some pos =>
    if op == "tmotl.coverage" then
      showOut (fun es => showRunsV (runsOf 1 (canonKV es))) (Otl.coverageRead b pos)
    else if op == "tmotl.covset" then
      showOut (fun gs => showRuns (runsOf 0 (canonKV (gs.map fun g => (g, 0))))) (Otl.readSet b pos)
    else if op == "tmotl.classdef" then
      showOut (fun es => showRunsV (runsOf 0 ((canonKV es).filter fun p => p.2 != 0))) (Otl.classdefRead b pos)
    else "bad-op"
  | _, _ => "bad-case"


end SfntV.Drive.TotalOtl
