import SfntV.Model.Header

namespace SfntV.Drive.Header
open SfntV SfntV.Header

/-- `tabs=<namehex>:<datahex or ->,...` -/
def parseTabs (s : String) : Option (List Entry) :=
  if s.isEmpty then some [] else
  (s.splitOn ",").mapM fun t =>
    match t.splitOn ":" with
    | [n, d] => do
      let name ← fromHex n
      if d == "-" then pure ⟨name, none⟩
      else
        let data ← fromHex d
        pure ⟨name, some data⟩
    | _ => none

def sortByName (l : List (Bytes × String)) : List (Bytes × String) :=
  l.mergeSort fun a b => !(nameLt b.1 a.1)

def showTabs (l : List (Bytes × String)) : String :=
  ",".intercalate ((sortByName l).map fun t => s!"{toHex t.1}:{t.2}")

def prefixes : List String := ["header."]

def handle (op : String) (fs : List (String × String)) : String :=
  if op == "header.write" then
    match (getField fs "scaler").bind String.toNat?, (getField fs "tabs").bind parseTabs with
    | some sc, some ts =>
      match write sc ts with
      | .ok w => "ok:" ++ toHex w.bytes
      | .err e => "err:" ++ e
      | .panic _ => "panic"
    | _, _ => "bad-case"
  else if op == "header.tables" then
    -- the map's contents after Write (head patched in place), as the model predicts them
    match (getField fs "scaler").bind String.toNat?, (getField fs "tabs").bind parseTabs with
    | some sc, some ts =>
      match write sc ts with
      | .ok w => s!"{sc};" ++ showTabs (w.bodies.map fun t => (t.1, toHex t.2))
      | .err e => "err:" ++ e
      | .panic _ => "panic"
    | _, _ => "bad-case"
  else if op == "header.ximage" then (getField fs "want").getD "bad-case"
  else if op == "header.fontbytes" then "never"
  else if op == "header.xoutline" || op == "header.xnames" || op == "header.bigreadback" then "ok"
  else if op == "header.nilequiv" then "same"
  else
    match (getField fs "file").bind fromHex with
    | none => "bad-case"
    | some f =>
      if op == "header.readback" then (getField fs "want").getD "bad-case"
      else if op == "header.wf" then
        match wellFormedErr f with
        | none => "wf"
        | some c => "not-wf:" ++ c
      else if op == "header.parse" then
        match specParse f with
        | some (sc, ts) => s!"{sc};" ++ showTabs (ts.map fun t => (t.1, toHex t.2))
        | none => "none"
      else if op == "header.read" then
        match read 280 f with
        | .ok (sc, recs) => s!"ok:{sc};" ++ showTabs (recs.map fun r => (r.1, s!"{r.2.1}:{r.2.2}"))
        | .err e => "err:" ++ e
        | .panic _ => "panic"
      else "bad-op"

end SfntV.Drive.Header
