import SfntV.Model.CffIndex
import SfntV.Model.CffDict
import SfntV.Model.CffCharset
import SfntV.Model.CffFdselect
import SfntV.Generated.Cff
import SfntV.Spec.Cff
import SfntV.Model.CffWidths
import SfntV.Model.CffEncoding
import SfntV.Model.CffStrings
import SfntV.Model.CffWrite
import SfntV.Model.CffRead

namespace SfntV.Drive.Cff
open SfntV SfntV.Cff

/-- `n` pseudo-random bytes from `seed` (the harness expands the same recurrence) -/
def prngBytes (n seed : Nat) : Bytes := Id.run do
  let mut a : Array UInt8 := Array.mkEmpty n
  let mut x := seed
  for _ in [0:n] do
    x := (x * 1103515245 + 12345) % 2147483648
    a := a.push (UInt8.ofNat (x / 65536 % 256))
  return a.toList

/-- rolling checksum of a byte string -/
def bytesSum (b : Bytes) : Nat := b.foldl (fun h x => (h * 31 + x.toNat) % 4294967296) 7

/-- a blob: hex, `-` (empty), `z<n>` (n zero bytes) or `p<n>:<seed>` (n pseudo-random bytes) -/
def parseBlob (s : String) : Option Bytes :=
  if s == "-" then some []
  else if s.startsWith "p" then
    match ((s.drop 1).toString).splitOn ":" with
    | [n, sd] => do pure (prngBytes (← n.toNat?) (← sd.toNat?))
    | _ => none
  else if s.startsWith "z" then (s.drop 1).toString.toNat?.map fun n => List.replicate n 0
  else fromHex s

def parseBlobs (s : String) : Option (List Bytes) :=
  if s.isEmpty then some [] else (s.splitOn ",").mapM parseBlob

def showBlob (b : Bytes) : String := if b.isEmpty then "-" else toHex b
def showBlobs (l : List Bytes) : String := ",".intercalate (l.map showBlob)

def parseIntList (s : String) : Option (List Int) :=
  if s.isEmpty then some [] else (s.splitOn ",").mapM String.toInt?

def intsToString (l : List Int) : String := ",".intercalate (l.map toString)

def showOutcome {α} (f : α → String) : Outcome α → String
  | .ok a => "ok:" ++ f a
  | .err e => "err:" ++ e
  | .panic _ => "panic"

def showOperand : Operand → String
  | .int v => s!"i{v}"
  | .real neg m e => s!"r{if neg then "-" else ""}{m}e{e}"
  | .str s => "s" ++ toHex s.toUTF8.toList

def showDict (d : List (Nat × List Operand)) : String :=
  ",".intercalate ((sortDict d).map fun e => s!"{e.1}:" ++ "|".intercalate (e.2.map showOperand))

/-- operand syntax of case lines: `i<int>` or `r<-?><digits>e<l>` (the decimal 0.digits·10^l,
1–9 digits, first digit non-zero; all-zero digits = 0.0) -/
def parseOperand (s : String) : Option Operand :=
  if s.startsWith "i" then (s.drop 1).toString.toInt?.map .int
  else if s.startsWith "r" then
    let t := (s.drop 1).toString
    let (neg, t) := if t.startsWith "-" then (true, (t.drop 1).toString) else (false, t)
    match t.splitOn "e" with
    | [ds, ls] => do
      let d ← ds.toNat?
      let l ← ls.toInt?
      if ds.length > 9 then none
      else pure (.real neg (d * 10 ^ (9 - ds.length)) l)
    | _ => none
  else none

def parseDictArg (s : String) : Option (List (Nat × List Operand)) :=
  if s.isEmpty then some [] else
  (s.splitOn ",").mapM fun e =>
    match e.splitOn ":" with
    | [o, args] => do
      let op ← o.toNat?
      let as ← if args.isEmpty then some [] else (args.splitOn "|").mapM parseOperand
      pure (op, as)
    | _ => none

def parseStrs (s : String) : Option (Array String) :=
  if s.isEmpty then some #[] else do
    let l ← (s.splitOn ",").mapM fun h => do
      let b ← parseBlob h
      String.fromUTF8? (ByteArray.mk b.toArray)
    pure l.toArray

def showDec (d : Spec.Dec) : String := s!"{if d.neg then "-" else ""}{d.m}e{d.e}"

def showStr (s : String) : String := showBlob s.toUTF8.toList

def dashList (l : List String) : String := if l.isEmpty then "-" else ",".intercalate l

def showPriv (full : Bool) (p : Spec.PrivateInfo) : String :=
  s!"{dashList (p.blueValues.map toString)}.{dashList (p.otherBlues.map toString)}.{p.blueShift}.{p.blueFuzz}.{if p.forceBold then 1 else 0}" ++
  (if full then s!".{showDec p.blueScale}.{showDec p.stdHW}.{showDec p.stdVW}" else "")

def showFont (f : Spec.FontSummary) (full : Bool := false) (withEnc : Bool := true) : String :=
  s!"name:{showBlob f.fontName};strs:{",".intercalate (f.strs.map showStr)};fixed:{if f.isFixedPitch then 1 else 0}" ++
  s!";ul:{showDec f.underlinePos},{showDec f.underlineThick};n:{f.nGlyphs}" ++
  (match f.ros with
   | some (r, o, sup) => s!";cs:{natsToString f.charset};names:-;ros:{showStr r},{showStr o},{sup}"
   | none => s!";cs:-;names:{dashList ((f.names.getD []).map showStr)};ros:-") ++
  s!";fds:{natsToString f.fds};privs:{"/".intercalate (f.privs.map (showPriv full))};w:{",".intercalate (f.widths.map showDec)}" ++
  (match f.encoding, withEnc with
   | some e, true => s!";enc:{natsToString e}"
   | _, _ => "") ++
  (if full then
    s!";angle:{showDec f.italicAngle};fm:{",".intercalate (f.fontMatrix.map showDec)}" ++
    (if f.ros.isSome then s!";fms:{"/".intercalate (f.fdMatrices.map fun m => ",".intercalate (m.map showDec))}" else "")
   else "")


def tables : Tables :=
  { std := Gen.cffStdStrings, isoAdobe := Gen.cff_isoAdobeCharset, expert := Gen.cff_expertCharset,
    expertSubset := Gen.cff_expertSubsetCharset, expertEnc := Gen.cffExpertEnc,
    standardEncRev := Gen.cffStandardEncRev }


@[noinline] def readFontWith (T : Tables) (b : Bytes) := Spec.readFont T b

/-! parsing of the font description `name:…;strs:…;…` (see harness/area_cff.go, c13Font) -/

def descFields (s : String) : List (String × String) :=
  (s.splitOn ";").filterMap fun p =>
    match p.splitOn ":" with
    | [k, v] => some (k, v)
    | _ => none

def parseDashInts (s : String) : Option (List Int) := if s == "-" then some [] else parseIntList s

/-- byte strings are carried in `String`s by the Latin-1 bijection -/
def parseBlobStr (s : String) : Option String := (parseBlob s).map blobToStr

def parseDashStrs (s : String) : Option (List String) :=
  if s == "-" then some [] else (s.splitOn ",").mapM parseBlobStr

/-- `[-]<m>e<exp>` as the operand `dictNumber` produces: an int32 if integral, else the real in
nine-digit form -/
def parseDecOperand (s : String) : Option Operand := do
  let (neg, t) := if s.startsWith "-" then (true, (s.drop 1).toString) else (false, s)
  match t.splitOn "e" with
  | [ms, es] =>
    let m ← ms.toNat?
    let e ← es.toInt?
    let v : Int := (m * 10 ^ e.toNat : Nat)
    let sv : Int := if neg then -v else v
    -- `if i := int32(x); float64(i) == x`: integral and inside the int32 range
    if e ≥ 0 ∧ -2147483648 ≤ sv ∧ sv ≤ 2147483647 then
      pure (.int sv)
    else if ms.length > 9 then none
    else pure (.real neg (m * 10 ^ (9 - ms.length)) ((ms.length : Int) + e))
  | _ => none

/-- `[-]<m>e<exp>` as an exact decimal -/
def parseRl (s : String) : Option Rl := do
  let (neg, t) := if s.startsWith "-" then (true, (s.drop 1).toString) else (false, s)
  match t.splitOn "e" with
  | [ms, es] => pure (normReal neg (← ms.toNat?) (← es.toInt?))
  | _ => none

def parseRlList (s : String) : Option (List Rl) := (s.splitOn ",").mapM parseRl

def parsePrivIn (s : String) : Option PrivIn :=
  match s.splitOn "." with
  | [bv, ob, bs, bf, fb] => do
    pure { blueValues := ← parseDashInts bv, otherBlues := ← parseDashInts ob, blueShift := ← bs.toInt?,
           blueFuzz := ← bf.toInt?, forceBold := fb == "1" }
  | [bv, ob, bs, bf, fb, sc, hw, vw] => do
    pure { blueValues := ← parseDashInts bv, otherBlues := ← parseDashInts ob, blueShift := ← bs.toInt?,
           blueFuzz := ← bf.toInt?, forceBold := fb == "1", blueScale := ← parseRl sc, stdHW := ← parseRl hw,
           stdVW := ← parseRl vw }
  | _ => none

def parseFontIn (desc : String) (cs : List Bytes) (dw nw : Int) : Option FontIn := do
  let fs := descFields desc
  let get (k : String) := (fs.find? (·.1 == k)).map (·.2)
  let name ← (get "name").bind parseBlob
  let strs ← (get "strs").bind fun v => (v.splitOn ",").mapM parseBlobStr
  let ul ← get "ul"
  let (ulp, ult) ← match ul.splitOn "," with
    | [a, b] => some (a, b)
    | _ => none
  let ros ← (get "ros").bind fun v =>
    if v == "-" then some none
    else match v.splitOn "," with
      | [r, o, sup] => do pure (some (← parseBlobStr r, ← parseBlobStr o, ← sup.toInt?))
      | _ => none
  let names ← (get "names").bind parseDashStrs
  let enc ← (match get "enc" with
    | some v => (parseNatList v).map fun e => encChoiceOf tables (some e) names
    | none => some EncChoice.standard)
  pure { fontName := name, strs := strs, isFixedPitch := get "fixed" == some "1",
         ulPos := ← parseDecOperand ulp, ulThick := ← parseDecOperand ult,
         ulPosDefault := ulp == "-1e2", ulThickDefault := ult == "5e1",
         ros := ros, names := names, cids := ← (get "cs").bind parseDashInts,
         enc := enc, fds := ← (get "fds").bind parseDashInts,
         privs := ← (get "privs").bind fun v => (v.splitOn "/").mapM parsePrivIn,
         charStrings := cs, defWidth := dw, nomWidth := nw,
         italicAngle := ← (match get "angle" with | some v => parseRl v | none => some Rl.zero),
         fontMatrix := ← (match get "fm" with | some v => (parseRlList v).map some | none => some none),
         fdMatrices := ← (match get "fms" with
           | some v => (v.splitOn "/").mapM parseRlList
           | none => some []) }

@[noinline] def writeFontWith (std : List String) (f : FontIn) := writeFont std f

/-! summary of a font delivered by the model of `cff.Read` (stream `cff.file.read`) -/

def showRl (r : Rl) : String := s!"{if r.1 then "-" else ""}{r.2.1}e{r.2.2}"

/-- nine significant digits (half away from zero), as `strconv.FormatFloat(x, 'e', 8, 64)` -/
def round9 (r : Rl) : Rl :=
  let d := numDigits r.2.1
  if d ≤ 9 then r
  else
    let p := 10 ^ (d - 9)
    let q := (r.2.1 + p / 2) / p
    normReal r.1 q (r.2.2 + ((d - 9 : Nat) : Int))

def showBStr (s : String) : String := showBlob (strToBlob s)

def showPrivOut (p : PrivOut) : String :=
  s!"{dashList (p.blueValues.map toString)}.{dashList (p.otherBlues.map toString)}.{showRl p.blueScale}" ++
  s!".{p.blueShift}.{p.blueFuzz}.{showRl p.stdHW}.{showRl p.stdVW}.{if p.forceBold then 1 else 0}"

def showFontOut (f : FontOut) (withW : Bool) : String :=
  s!"name:{showBlob f.fontName};strs:{",".intercalate (f.strs.map showBStr)};fixed:{if f.isFixedPitch then 1 else 0}" ++
  s!";angle:{if withW then showRl (round9 f.italicAngle) else "-"};ul:{showRl f.ulPos},{showRl f.ulThick}" ++
  s!";fm:{",".intercalate (f.fontMatrix.map showRl)};n:{f.charStrings.length}" ++
  (if f.isCID then
    s!";kind:c;ros:{showBStr f.ros.1},{showBStr f.ros.2.1},{f.ros.2.2}" ++
    s!";cids:{",".intercalate (f.charset.map fun c => toString (c % 4294967296))};fds:{natsToString f.fds}" ++
    s!";fms:{"/".intercalate (f.fontMatrices.map fun m => ",".intercalate (m.map showRl))}"
   else
    s!";kind:s;names:{dashList (f.names.map showBStr)};enc:{natsToString f.encoding}") ++
  s!";privs:{"/".intercalate (f.privs.map showPrivOut)}" ++
  (if withW then
    match f.widths with
    | some ws => s!";w:{",".intercalate (ws.map showRl)}"
    | none => ";w:opaque"
   else "")

@[noinline] def readFontModel (T : Tables) (b : Bytes) := SfntV.Cff.readFont T b

def prefixes : List String := ["cff."]

@[noinline] def decodeDictWith (std custom : Array String) (b : Bytes) := decodeDict std custom b

def handle (op : String) (fs : List (String × String)) : String :=
  let data := (getField fs "data").bind fromHex
  let nat (k : String) := (getField fs k).bind String.toNat?
  if op == "cff.index.enc" then
    match (getField fs "blobs").bind parseBlobs with
    | some bl => showOutcome toHex (indexEncode bl)
    | none => "bad-case"
  else if op == "cff.index.enchead" then
    -- header and offset array only, plus the total length (for large bodies)
    match (getField fs "blobs").bind parseBlobs with
    | some bl =>
      showOutcome (fun b => s!"{toHex (b.take (b.length - bodyLength bl))};len={b.length}") (indexEncode bl)
    | none => "bad-case"
  else if op == "cff.index.encsum" then
    match (getField fs "blobs").bind parseBlobs with
    | some bl => showOutcome (fun b => s!"len={b.length};sum={bytesSum b}") (indexEncode bl)
    | none => "bad-case"
  else if op == "cff.index.readsum" then
    -- the INDEX is built by the model encoder, preceded by `pre` zero bytes, and read back
    match (getField fs "blobs").bind parseBlobs, nat "pre" with
    | some bl, some k =>
      match indexEncode bl with
      | .ok enc =>
        showOutcome (fun r => s!"n={r.1.length};lens={bytesSum (r.1.flatMap fun b => [UInt8.ofNat b.length, UInt8.ofNat (b.length / 256)])};sum={bytesSum r.1.flatten};pos={r.2}")
          (readIndex (List.replicate k 0 ++ enc ++ [1, 2, 3]) k)
      | _ => "enc-failed"
    | _, _ => "bad-case"
  else if op == "cff.index.read" then
    match data, nat "pos" with
    | some d, some c => showOutcome (fun r => s!"{showBlobs r.1};pos={r.2}") (readIndex d c)
    | _, _ => "bad-case"
  else if op == "cff.index.spec" then
    match data, nat "pos" with
    | some d, some c =>
      match specIndex d c with
      | some r => s!"{showBlobs r.1};pos={r.2}"
      | none => "none"
    | _, _ => "bad-case"
  else if op == "cff.dict.enc" then
    match (getField fs "dict").bind parseDictArg with
    | some d => toHex (encodeDict d)
    | none => "bad-case"
  else if op == "cff.dict.dec" || op == "cff.dict.specdec" then
    match data, (getField fs "custom").bind parseStrs with
    | some d, some cs => showOutcome showDict (decodeDictWith Gen.cffStdStrings cs d)
    | _, _ => "bad-case"
  else if op == "cff.real.enc" then
    match (getField fs "x").bind parseOperand with
    | some (.real neg i l) => toHex (encodeReal neg i l)
    | _ => "bad-case"
  else if op == "cff.real.dec" then
    match data with
    | some d => showOutcome (fun r => s!"{showOperand r.1};rest={r.2.length}") (decodeReal d)
    | none => "bad-case"
  else if op == "cff.charset.enc" then
    match (getField fs "names").bind parseIntList with
    | some ns => showOutcome toHex (encodeCharset ns)
    | none => "bad-case"
  else if op == "cff.charset.read" then
    match data, nat "n" with
    | some d, some n => showOutcome (fun r => s!"{intsToString r.1};pos={r.2}") (readCharset d 0 n)
    | _, _ => "bad-case"
  else if op == "cff.charset.spec" then
    match data, nat "n" with
    | some d, some n =>
      match specCharset d 0 n with
      | some l => natsToString l
      | none => "none"
    | _, _ => "bad-case"
  else if op == "cff.fdselect.enc" then
    match (getField fs "fds").bind parseIntList with
    | some l => toHex (fdEncode l)
    | none => "bad-case"
  else if op == "cff.fdselect.read" then
    match data, nat "n", nat "np" with
    | some d, some n, some np => showOutcome natsToString (readFDSelect d 0 n np)
    | _, _, _ => "bad-case"
  else if op == "cff.fdselect.spec" then
    match data, nat "n" with
    | some d, some n =>
      match specFDSelect d 0 n with
      | some l => natsToString l
      | none => "none"
    | _, _ => "bad-case"
  else if op == "cff.encoding.enc" then
    match (getField fs "enc").bind parseNatList, (getField fs "names").bind parseIntList with
    | some e, some ns => showOutcome toHex (encodeEncoding e ns)
    | _, _ => "bad-case"
  else if op == "cff.encoding.read" then
    match data, (getField fs "charset").bind parseIntList with
    | some d, some cs => showOutcome natsToString (readEncoding d 0 cs)
    | _, _ => "bad-case"
  else if op == "cff.encoding.spec" then
    match data, (getField fs "charset").bind parseNatList with
    | some d, some cs =>
      match specEncoding d 0 cs with
      | some l => natsToString l
      | none => "none"
    | _, _ => "bad-case"
  else if op == "cff.encoding.rt" then
    -- the property on the real code: the vector written comes back
    "ok:" ++ (getField fs "enc").getD "bad-case"
  else if op == "cff.strings.lookup" then
    match (getField fs "names").bind parseStrs with
    | some ns =>
      let (sids, custom) := stringsLookupAll Gen.cffStdStrings.toList [] ns.toList
      s!"{natsToString sids};{dashList (custom.map showStr)}"
    | none => "bad-case"
  else if op == "cff.widths.select" then
    match (getField fs "ws").bind parseIntList with
    | some ws =>
      let (d, nom) := selectWidths ws
      let stored (w : Int) := if w = 0 then "-" else toString (truncFx w)
      s!"{showDec (Spec.Dec.ofFixed d)},{match nom with | some v => showDec (Spec.Dec.ofFixed v) | none => "inf"}" ++
      s!";dict={stored d},{match nom with | some v => stored v | none => "?"}"
    | none => "bad-case"
  else if op == "cff.file.model" || op == "cff.file.passes" then
    match getField fs "font", (getField fs "cs").bind parseBlobs, (getField fs "dw").bind String.toInt?,
          (getField fs "nw").bind String.toInt? with
    | some desc, some cs, some dw, some nw =>
      match (parseFontIn desc cs dw nw).map (fun f =>
          match getField fs "enckind" with
          | some "std" => { f with enc := EncChoice.standard }
          | some "exp" => { f with enc := EncChoice.expert }
          | _ => f) with
      | some f =>
        if op == "cff.file.model" then showOutcome (fun r => toHex r.1) (writeFontWith Gen.cffStdStrings.toList f)
        else showOutcome (fun r => toString r.2) (writeFontWith Gen.cffStdStrings.toList f)
      | none => "bad-case"
    | _, _, _, _ => "bad-case"
  else if op == "cff.file.read" then
    match (getField fs "file").bind fromHex with
    | some d => showOutcome (fun f => showFontOut f (getField fs "w" == some "1")) (readFontModel tables d)
    | none => "bad-case"
  else if op == "cff.index.rt" then
    -- the property on the real code: what was put into the INDEX comes back
    match (getField fs "blobs").bind parseBlobs with
    | some bs => "ok:" ++ showBlobs bs
    | none => "bad-case"
  else if op == "cff.file.rtself" then
    -- Write refuses, or Read gives the font back
    "faithful"
  else if op == "cff.file.rt2" then
    -- the convergence clause: the second Write/Read reproduces the first, the angle is normalised
    "stable"
  else if op == "cff.file.rt" then
    -- the property: what was put in comes back; the expected summary is the description itself
    (getField fs "font").getD "bad-case"
  else if op == "cff.file.spec" then
    match (getField fs "file").bind fromHex with
    | some d =>
      match readFontWith tables d with
      | some f => showFont f (decide ((((getField fs "want").getD "").splitOn ";angle:").length > 1))
          (decide ((((getField fs "want").getD "").splitOn ";enc:").length > 1))
      | none => "none"
    | none => "bad-case"
  else "bad-op"

end SfntV.Drive.Cff
