import SfntV.Model.CffIndex
import SfntV.Model.CffDict
import SfntV.Model.CffCharset
import SfntV.Model.CffFdselect
import SfntV.Generated.Cff
import SfntV.Spec.Cff
import SfntV.Model.CffWidths

namespace SfntV.Drive.Cff
open SfntV SfntV.Cff

/-- a blob: hex, `-` (empty) or `z<n>` (n zero bytes) -/
def parseBlob (s : String) : Option Bytes :=
  if s == "-" then some []
  else if s.startsWith "z" then (s.drop 1).toString.toNat?.map fun n => List.replicate n 0
  else fromHex s

def parseBlobs (s : String) : Option (List Bytes) :=
  if s.isEmpty then some [] else (s.splitOn ",").mapM parseBlob

def showBlob (b : Bytes) : String := if b.isEmpty then "-" else toHex b
def showBlobs (l : List Bytes) : String := ",".intercalate (l.map showBlob)

def parseIntList (s : String) : Option (List Int) :=
  if s.isEmpty then some [] else (s.splitOn ",").mapM String.toInt?

def intsToString (l : List Int) : String := ",".intercalate (l.map toString)

def showOutcome {α} (f : α → String) : Outcome α → String
  | .ok a => "ok:" ++ f a
  | .err e => "err:" ++ e
  | .panic _ => "panic"

def showOperand : Operand → String
  | .int v => s!"i{v}"
  | .real neg m e => s!"r{if neg then "-" else ""}{m}e{e}"
  | .str s => "s" ++ toHex s.toUTF8.toList

def showDict (d : List (Nat × List Operand)) : String :=
  ",".intercalate ((sortDict d).map fun e => s!"{e.1}:" ++ "|".intercalate (e.2.map showOperand))

/-- operand syntax of case lines: `i<int>` or `r<-?><digits>e<l>` (the decimal 0.digits·10^l,
1–9 digits, first digit non-zero; all-zero digits = 0.0) -/
def parseOperand (s : String) : Option Operand :=
  if s.startsWith "i" then (s.drop 1).toString.toInt?.map .int
  else if s.startsWith "r" then
    let t := (s.drop 1).toString
    let (neg, t) := if t.startsWith "-" then (true, (t.drop 1).toString) else (false, t)
    match t.splitOn "e" with
    | [ds, ls] => do
      let d ← ds.toNat?
      let l ← ls.toInt?
      if ds.length > 9 then none
      else pure (.real neg (d * 10 ^ (9 - ds.length)) l)
    | _ => none
  else none

def parseDictArg (s : String) : Option (List (Nat × List Operand)) :=
  if s.isEmpty then some [] else
  (s.splitOn ",").mapM fun e =>
    match e.splitOn ":" with
    | [o, args] => do
      let op ← o.toNat?
      let as ← if args.isEmpty then some [] else (args.splitOn "|").mapM parseOperand
      pure (op, as)
    | _ => none

def parseStrs (s : String) : Option (Array String) :=
  if s.isEmpty then some #[] else do
    let l ← (s.splitOn ",").mapM fun h => do
      let b ← parseBlob h
      String.fromUTF8? (ByteArray.mk b.toArray)
    pure l.toArray

def showDec (d : Spec.Dec) : String := s!"{if d.neg then "-" else ""}{d.m}e{d.e}"

def showStr (s : String) : String := showBlob s.toUTF8.toList

def dashList (l : List String) : String := if l.isEmpty then "-" else ",".intercalate l

def showPriv (p : Spec.PrivateInfo) : String :=
  s!"{dashList (p.blueValues.map toString)}.{dashList (p.otherBlues.map toString)}.{p.blueShift}.{p.blueFuzz}.{if p.forceBold then 1 else 0}"

def showFont (f : Spec.FontSummary) : String :=
  s!"name:{showBlob f.fontName};strs:{",".intercalate (f.strs.map showStr)};fixed:{if f.isFixedPitch then 1 else 0}" ++
  s!";ul:{showDec f.underlinePos},{showDec f.underlineThick};n:{f.nGlyphs}" ++
  (match f.ros with
   | some (r, o, sup) => s!";cs:{natsToString f.charset};names:-;ros:{showStr r},{showStr o},{sup}"
   | none => s!";cs:-;names:{dashList ((f.names.getD []).map showStr)};ros:-") ++
  s!";fds:{natsToString f.fds};privs:{"/".intercalate (f.privs.map showPriv)};w:{",".intercalate (f.widths.map showDec)}"

@[noinline] def readFontWith (std : Array String) (b : Bytes) := Spec.readFont std b

def prefixes : List String := ["cff."]

@[noinline] def decodeDictWith (std custom : Array String) (b : Bytes) := decodeDict std custom b

def handle (op : String) (fs : List (String × String)) : String :=
  let data := (getField fs "data").bind fromHex
  let nat (k : String) := (getField fs k).bind String.toNat?
  if op == "cff.index.enc" then
    match (getField fs "blobs").bind parseBlobs with
    | some bl => showOutcome toHex (indexEncode bl)
    | none => "bad-case"
  else if op == "cff.index.enchead" then
    -- header and offset array only, plus the total length (for large bodies)
    match (getField fs "blobs").bind parseBlobs with
    | some bl =>
      showOutcome (fun b => s!"{toHex (b.take (b.length - bodyLength bl))};len={b.length}") (indexEncode bl)
    | none => "bad-case"
  else if op == "cff.index.read" then
    match data, nat "pos" with
    | some d, some c => showOutcome (fun r => s!"{showBlobs r.1};pos={r.2}") (readIndex d c)
    | _, _ => "bad-case"
  else if op == "cff.index.spec" then
    match data, nat "pos" with
    | some d, some c =>
      match specIndex d c with
      | some r => s!"{showBlobs r.1};pos={r.2}"
      | none => "none"
    | _, _ => "bad-case"
  else if op == "cff.dict.enc" then
    match (getField fs "dict").bind parseDictArg with
    | some d => toHex (encodeDict d)
    | none => "bad-case"
  else if op == "cff.dict.dec" || op == "cff.dict.specdec" then
    match data, (getField fs "custom").bind parseStrs with
    | some d, some cs => showOutcome showDict (decodeDictWith Gen.cffStdStrings cs d)
    | _, _ => "bad-case"
  else if op == "cff.real.enc" then
    match (getField fs "x").bind parseOperand with
    | some (.real neg i l) => toHex (encodeReal neg i l)
    | _ => "bad-case"
  else if op == "cff.real.dec" then
    match data with
    | some d => showOutcome (fun r => s!"{showOperand r.1};rest={r.2.length}") (decodeReal d)
    | none => "bad-case"
  else if op == "cff.charset.enc" then
    match (getField fs "names").bind parseIntList with
    | some ns => showOutcome toHex (encodeCharset ns)
    | none => "bad-case"
  else if op == "cff.charset.read" then
    match data, nat "n" with
    | some d, some n => showOutcome (fun r => s!"{intsToString r.1};pos={r.2}") (readCharset d 0 n)
    | _, _ => "bad-case"
  else if op == "cff.charset.spec" then
    match data, nat "n" with
    | some d, some n =>
      match specCharset d 0 n with
      | some l => natsToString l
      | none => "none"
    | _, _ => "bad-case"
  else if op == "cff.fdselect.enc" then
    match (getField fs "fds").bind parseIntList with
    | some l => toHex (fdEncode l)
    | none => "bad-case"
  else if op == "cff.fdselect.read" then
    match data, nat "n", nat "np" with
    | some d, some n, some np => showOutcome natsToString (readFDSelect d 0 n np)
    | _, _, _ => "bad-case"
  else if op == "cff.fdselect.spec" then
    match data, nat "n" with
    | some d, some n =>
      match specFDSelect d 0 n with
      | some l => natsToString l
      | none => "none"
    | _, _ => "bad-case"
  else if op == "cff.widths.select" then
    match (getField fs "ws").bind parseIntList with
    | some ws =>
      let (d, nom) := selectWidths ws
      let stored (w : Int) := if w = 0 then "-" else toString (truncFx w)
      s!"{showDec (Spec.Dec.ofFixed d)},{match nom with | some v => showDec (Spec.Dec.ofFixed v) | none => "inf"}" ++
      s!";dict={stored d},{match nom with | some v => stored v | none => "?"}"
    | none => "bad-case"
  else if op == "cff.file.rt" then
    -- the property: what was put in comes back; the expected summary is the description itself
    (getField fs "font").getD "bad-case"
  else if op == "cff.file.spec" then
    match (getField fs "file").bind fromHex with
    | some d =>
      match readFontWith Gen.cffStdStrings d with
      | some f => showFont f
      | none => "none"
    | none => "bad-case"
  else "bad-op"

end SfntV.Drive.Cff
