import SfntV.Prelude.Bytes
import SfntV.Model.DslExplain
import SfntV.Model.DslProc

namespace SfntV.Drive.Dsl
open SfntV SfntV.Dsl

def hexNats (s : String) : Option (List Nat) := (fromHex s).map fun b => b.map (·.toNat)
def natsHex (l : List Nat) : String := toHex (l.map UInt8.ofNat)

def showTok (t : Tok) : String :=
  if t.typ == tError then
    (if t.err == 1 then s!"0:u{t.erune}" else "0:s") ++ s!":{t.line}"
  else s!"{t.typ}:{natsHex t.bytes}:{t.line}"

def showToks (ts : List Tok) : String := ";".intercalate (ts.map showTok)

/-- `n=<numGlyphs> names=<hex>,<hex>,…|- cmap=<rune>:<gid>,…` -/
def parseFont (fs : List (String × String)) : Option Font := do
  let n ← (getField fs "n").bind String.toNat?
  let ns ← getField fs "names"
  let names ← if ns == "-" then some [] else (ns.splitOn ",").mapM hexNats
  let cs ← getField fs "cmap"
  let noCmap := cs == "none"
  let cmap ← if cs.isEmpty || noCmap then some [] else
    (cs.splitOn ",").mapM fun p =>
      match p.splitOn ":" with
      | [r, g] => do pure ((← r.toNat?), (← g.toNat?))
      | _ => none
  pure { numGlyphs := n, names := names, cmap := cmap, noCmap := noCmap }

def showL (l : List Nat) (sep : String) : String := sep.intercalate (l.map toString)

def showVR : Option VR → String
  | none => "_"
  | some r => s!"{r.x}.{r.y}.{r.dx}.{r.dy}"

def showPA (p : PairAdj) : String := showVR p.1 ++ "&" ++ showVR p.2

def readVR (s : String) : Option (Option VR) :=
  if s == "_" then some none else
  match s.splitOn "." with
  | [a, b, c, d] => do pure (some { x := (← a.toInt?), y := (← b.toInt?), dx := (← c.toInt?), dy := (← d.toInt?) })
  | _ => none

def readPA (s : String) : Option PairAdj :=
  match s.splitOn "&" with
  | [a, b] => do pure ((← readVR a), (← readVR b))
  | _ => none

def showClasses (t : List (Nat × Nat)) : String := ",".intercalate (t.map fun p => s!"{p.1}-{p.2}")

def readClasses (s : String) : Option (List (Nat × Nat)) :=
  if s.isEmpty then some [] else
  (s.splitOn ",").mapM fun e =>
    match e.splitOn "-" with
    | [g, c] => do pure ((← g.toNat?), (← c.toNat?))
    | _ => none

def showActs (a : List Action) : String := ".".intercalate (a.map fun x => s!"{x.1}@{x.2}")

def readActs (s : String) : Option (List Action) :=
  if s.isEmpty then some [] else
  (s.splitOn ".").mapM fun e =>
    match e.splitOn "@" with
    | [i, p] => do pure ((← i.toNat?), (← p.toNat?))
    | _ => none

def showSeqRule (r : SeqRule) : String := showL r.input "." ++ "~" ++ showActs r.actions
def showChRule (r : ChRule) : String :=
  showL r.back "." ++ "~" ++ showL r.input "." ++ "~" ++ showL r.look "." ++ "~" ++ showActs r.actions

def showSets (ss : List (List Nat)) : String :=
  ",".intercalate (ss.map fun s => if s.isEmpty then "e" else showL s ".")

def showSub : Subtable → String
  | .ctx1 rules => "l:" ++ ",".intercalate (rules.map fun p => s!"{p.1}>" ++ "+".intercalate (p.2.map showSeqRule))
  | .ctx2 cov cls rules => s!"m:{showL cov "."}:{showClasses cls}:" ++
      ",".intercalate (rules.map fun rs => "+".intercalate (rs.map showSeqRule))
  | .ctx3 input acts => s!"n:{showSets input}:{showActs acts}"
  | .chain1 rules => "o:" ++ ",".intercalate (rules.map fun p => s!"{p.1}>" ++ "+".intercalate (p.2.map showChRule))
  | .chain2 cov b i l rules => s!"p:{showL cov "."}:{showClasses b}:{showClasses i}:{showClasses l}:" ++
      ",".intercalate (rules.map fun rs => "+".intercalate (rs.map showChRule))
  | .chain3 back input look acts => s!"q:{showSets back}:{showSets input}:{showSets look}:{showActs acts}"
  | .gpos1_1 cov adj => s!"f:{",".intercalate (cov.map toString)}:{showVR adj}"
  | .gpos1_2 cov adj => "g:" ++ ",".intercalate ((cov.zip adj).map fun p => s!"{p.1}>{showVR p.2}")
  | .gpos2_1 pairs => "h:" ++ ",".intercalate (pairs.map fun p => s!"{p.1.1}+{p.1.2}>{showPA p.2}")
  | .gpos2_2 cov c1 c2 adjust =>
    s!"i:{",".intercalate (cov.map toString)}:{showClasses c1}:{showClasses c2}:" ++
      "!".intercalate (adjust.map fun row => "+".intercalate (row.map showPA))
  | .gpos3_1 cov recs => "j:" ++ ",".intercalate ((cov.zip recs).map fun p =>
      s!"{p.1}>{p.2.1}.{p.2.2.1}.{p.2.2.2.1}.{p.2.2.2.2}")
  | .gpos4_1 marks bases =>
    "k:" ++ ",".intercalate (marks.map fun r => s!"{r.1}>{r.2.1}.{r.2.2.1}.{r.2.2.2}") ++ ":" ++
      ",".intercalate (bases.map fun r => s!"{r.1}>" ++ "+".intercalate (r.2.map fun a => s!"{a.1}.{a.2}"))
  | .gsub1_1 cov d => s!"a:{showL cov "."}:{d}"
  | .gsub1_2 cov subst => "b:" ++ ",".intercalate ((cov.zip subst).map fun p => s!"{p.1}>{p.2}")
  | .gsub2_1 cov repl => "c:" ++ ",".intercalate ((cov.zip repl).map fun p => s!"{p.1}>{showL p.2 "."}")
  | .gsub3_1 cov alt => "d:" ++ ",".intercalate ((cov.zip alt).map fun p => s!"{p.1}>{showL p.2 "."}")
  | .gsub4_1 cov repl => "e:" ++ ",".intercalate ((cov.zip repl).map fun p =>
      s!"{p.1}>" ++ "+".intercalate (p.2.map fun lig => s!"{showL lig.1 "."}~{lig.2}"))

def showLookup (l : Lookup) : String :=
  s!"{l.typ},{l.flags}" ++ String.join (l.subtables.map fun s => "/" ++ showSub s)

def showLookups (ls : List Lookup) : String := ";".intercalate (ls.map showLookup)

def readL (s : String) (sep : String) : Option (List Nat) :=
  if s.isEmpty then some [] else (s.splitOn sep).mapM String.toNat?

def readPairs {β : Type} (s : String) (rhs : String → Option β) : Option (List (Nat × β)) :=
  if s.isEmpty then some [] else
  (s.splitOn ",").mapM fun e =>
    match e.splitOn ">" with
    | [g, r] => do pure ((← g.toNat?), (← rhs r))
    | _ => none

def readPairEntry (entry : String) : Option ((Nat × Nat) × PairAdj) :=
  match entry.splitOn ">" with
  | [k, v] =>
    match k.splitOn "+" with
    | [l, r] => do pure (((← l.toNat?), (← r.toNat?)), (← readPA v))
    | _ => none
  | _ => none

def readLd (s : String) : Option (List Nat) := if s.isEmpty then some [] else (s.splitOn ".").mapM String.toNat?

def readSeqRule (s : String) : Option SeqRule :=
  match s.splitOn "~" with
  | [i, a] => do pure ⟨(← readLd i), (← readActs a)⟩
  | _ => none

def readChRule (s : String) : Option ChRule :=
  match s.splitOn "~" with
  | [b, i, l, a] => do pure ⟨(← readLd b), (← readLd i), (← readLd l), (← readActs a)⟩
  | _ => none

def readRules {β : Type} (rd : String → Option β) (s : String) : Option (List β) :=
  if s.isEmpty then some [] else (s.splitOn "+").mapM rd

def readSets (s : String) : Option (List (List Nat)) :=
  if s.isEmpty then some [] else (s.splitOn ",").mapM fun e => if e == "e" then some [] else readLd e

def readGroups {β : Type} (rd : String → Option β) (s : String) : Option (List (Nat × List β)) :=
  if s.isEmpty then some [] else
  (s.splitOn ",").mapM fun e =>
    match e.splitOn ">" with
    | [g, r] => do pure ((← g.toNat?), (← readRules rd r))
    | _ => none

def readSub (s : String) : Option Subtable :=
  match s.splitOn ":" with
  | ["l", body] => do pure (.ctx1 (← readGroups readSeqRule body))
  | ["m", cov, cls, rules] => do
    pure (.ctx2 (← readLd cov) (← readClasses cls) (← (rules.splitOn ",").mapM (readRules readSeqRule)))
  | ["n", input, acts] => do pure (.ctx3 (← readSets input) (← readActs acts))
  | ["o", body] => do pure (.chain1 (← readGroups readChRule body))
  | ["p", cov, b, i, l, rules] => do
    pure (.chain2 (← readLd cov) (← readClasses b) (← readClasses i) (← readClasses l)
      (← (rules.splitOn ",").mapM (readRules readChRule)))
  | ["q", back, input, look, acts] => do pure (.chain3 (← readSets back) (← readSets input) (← readSets look) (← readActs acts))
  | ["a", cov, d] => do pure (.gsub1_1 (← readL cov ".") (← d.toNat?))
  | ["b", body] => do
    let ps ← readPairs body String.toNat?
    pure (.gsub1_2 (ps.map (·.1)) (ps.map (·.2)))
  | ["c", body] => do
    let ps ← readPairs body (readL · ".")
    pure (.gsub2_1 (ps.map (·.1)) (ps.map (·.2)))
  | ["d", body] => do
    let ps ← readPairs body (readL · ".")
    pure (.gsub3_1 (ps.map (·.1)) (ps.map (·.2)))
  | ["e", body] => do
    let ps ← readPairs body fun r =>
      if r.isEmpty then some [] else
      (r.splitOn "+").mapM fun lig =>
        match lig.splitOn "~" with
        | [i, o] => do pure ((← readL i "."), (← o.toNat?))
        | _ => none
    pure (.gsub4_1 (ps.map (·.1)) (ps.map (·.2)))
  | ["f", cov, adj] => do pure (.gpos1_1 (← readL cov ",") (← readVR adj))
  | ["g", body] => do
    let ps ← readPairs body readVR
    pure (.gpos1_2 (ps.map (·.1)) (ps.map (·.2)))
  | ["j", body] => do
    let ps ← readPairs body fun r =>
      match r.splitOn "." with
      | [a, b, c, d] => do pure ((← a.toInt?), (← b.toInt?), (← c.toInt?), (← d.toInt?))
      | _ => none
    pure (.gpos3_1 (ps.map (·.1)) (ps.map (·.2)))
  | ["k", ms, bs] => do
    let marks ← readPairs ms fun r =>
      match r.splitOn "." with
      | [c, x, y] => do pure ((← c.toNat?), (← x.toInt?), (← y.toInt?))
      | _ => none
    let bases ← readPairs bs fun r =>
      if r.isEmpty then some [] else
      (r.splitOn "+").mapM fun a =>
        match a.splitOn "." with
        | [x, y] => do pure ((← x.toInt?), (← y.toInt?))
        | _ => none
    pure (.gpos4_1 marks bases)
  | ["h", body] => do
    let ps ← if body.isEmpty then some [] else (body.splitOn ",").mapM readPairEntry
    pure (.gpos2_1 ps)
  | ["i", cov, c1, c2, rows] => do
    let adjust ← if rows.isEmpty then some [] else
      (rows.splitOn "!").mapM fun row => (row.splitOn "+").mapM readPA
    pure (.gpos2_2 (← readL cov ",") (← readClasses c1) (← readClasses c2) adjust)
  | _ => none

def readLookup (s : String) : Option Lookup :=
  match s.splitOn "/" with
  | hd :: subs =>
    match hd.splitOn "," with
    | [t, f] => do
      pure { typ := (← t.toNat?), flags := (← f.toNat?), subtables := (← subs.mapM readSub) }
    | _ => none
  | [] => none

def readLookups (s : String) : Option (List Lookup) :=
  if s.isEmpty then some [] else (s.splitOn ";").mapM readLookup

def showOutcome : Except PErr (List Lookup) → String
  | .ok ls => "ok:" ++ showLookups ls
  | .error e =>
    if e.cls == unmodelled then "unmodelled" else s!"err:{e.line}:{e.cls}"

open Proc in
/-- worst number of processes left with something to do over sampled `k`, both outcomes and
two schedulers, for a lexer that sends `n` items -/
def modelLeak (n : Nat) : Nat :=
  let ks := [0, 1, 2, n / 2, n - 1, n, n + 1]
  let prios := [[Actor.P, .C, .D], [Actor.C, .D, .P]]
  (ks.flatMap fun k => prios.flatMap fun pr =>
    ([true] ++ (if k ≥ n then [false] else [])).map fun fatal =>
      let s := repaired n k fatal
      blocked (runPrio pr (size s + 1) s)).foldl max 0

def prefixes : List String := ["dsl."]

def handle (op : String) (fs : List (String × String)) : String :=
  if op == "dsl.lex" then
    match (getField fs "text").bind hexNats with
    | some bs => showToks (lexBytes bs)
    | none => "bad-case"
  else if op == "dsl.parse" then
    match parseFont fs, (getField fs "text").bind hexNats with
    | some f, some bs => showOutcome (parseBytes f bs)
    | _, _ => "bad-case"
  else if op == "dsl.explain" then
    match parseFont fs, (getField fs "lookups").bind readLookups with
    | some f, some ls => natsHex (if getField fs "tab" == some "gpos" then explainGpos f ls else explainGsub f ls)
    | _, _ => "bad-case"
  else if op == "dsl.glyphbound" then
    -- whatever Parse accepts names only glyphs of the font (the model refuses a glyph number that
    -- is not below the glyph count: "invalid glyph id") and can be written by Explain again
    "sound"
  else if op == "dsl.comments" then
    -- a comment runs from `#` (outside a string) to the end of its line and means nothing: the text
    -- and the text without its comments parse to the same outcome (both parsed by the real code)
    "same"
  else if op == "dsl.goroutinesrep" then
    -- an early error followed by `rep` more lookups: no process stays blocked (C19_no_leak holds for
    -- every number of items the lexer still has to deliver)
    "leak=0"
  else if op == "dsl.meaning" then
    -- what a chained rule written in the notation denotes: the backtrack entries are listed in
    -- reading order and stored closest-to-the-input first, the lookahead entries in reading order.
    -- The expectation is computed from the entries as the case line lists them in text order
    -- (not from any parse)
    match getField fs "back", getField fs "look" with
    | some b, some l => "back=" ++ ",".intercalate (b.splitOn ",").reverse ++ ";look=" ++ l
    | _, _ => "bad-case"
  else if op == "dsl.rtrepeat" then
    -- the round trip parsed many times over: every repetition gives the lookups (the format choice
    -- of GSUB 1 must not depend on the order in which the parser visits its map)
    match parseFont fs, (getField fs "lookups").bind readLookups with
    | some _, some ls => "ok:" ++ showLookups (normalize ls)
    | _, _ => "bad-case"
  else if op == "dsl.parserepeat" then
    -- a text parsed many times over: every repetition gives the model's outcome
    match parseFont fs, (getField fs "text").bind hexNats with
    | some f, some bs => showOutcome (parseBytes f bs)
    | _, _ => "bad-case"
  else if op == "dsl.roundtrip" then
    -- the property: Parse(ExplainGsub(l)) = l (up to the 1.1/1.2 identification)
    match parseFont fs, (getField fs "lookups").bind readLookups with
    | some _, some ls => "ok:" ++ showLookups (normalize ls)
    | _, _ => "bad-case"
  else if op == "dsl.modelrt" then
    -- the same on the model: parse (explain l)
    match parseFont fs, (getField fs "lookups").bind readLookups with
    | some f, some ls =>
      showOutcome (parseBytes f (if getField fs "tab" == some "gpos" then explainGpos f ls else explainGsub f ls))
    | _, _ => "bad-case"
  else if op == "dsl.rtseed" then
    -- Parse(Explain(l)) = l for the forms not modelled here: compared structurally by the
    -- harness on the real code; the property fixes the expected verdict
    "same"
  else if op == "dsl.flags" then
    match (getField fs "f").bind String.toNat? with
    | some f => s!"{f}"
    | none => "bad-case"
  else if op == "dsl.goroutines" then
    match (getField fs "text").bind hexNats with
    | some bs => s!"leak={modelLeak (lexBytes bs).length}"
    | none => "bad-case"
  else if op == "dsl.total" then
    match (getField fs "text").bind hexNats with
    | some bs =>
      match (lexBytes bs).getLast? with
      | some t => if t.line ≥ 1 then "lookups-or-error-with-line" else "model-line-0"
      | none => "model-no-items"
    | none => "bad-case"
  else "bad-op"

end SfntV.Drive.Dsl
