import SfntV.Model.TotalKern
import SfntV.Model.TotalMaxp
import SfntV.Model.TotalGdef
import SfntV.Model.TotalHeader

/-!
Line protocol of area `total` (property C02).

* `total.m.<decoder> bytes=<hex> …` (verdict): the checked-index model's outcome class and
  decoded value, to be compared with the real decoder's.
* `total.sites name=<func>` (verdict): the regenerated site/guard inventory of a modelled function
  compared with lean/SfntV/Tie/<func>.json by the extractor; the expected answer is `match`.
* every other `total.<decoder> …` line (direct predicate): the property predicate "returns a
  value or an error, within the allocation bound" needs no model; the expected answer is the
  constant `total`, the Go side answers with the panic site / allocation figure otherwise.
-/
namespace SfntV.Drive.Total
open SfntV SfntV.Total

def prefixes : List String := ["total."]

def showErr (e : String) : String := "err:" ++ e

def kernLe (a b : (Nat × Nat) × Nat) : Bool :=
  if a.1.1 ≠ b.1.1 then a.1.1 < b.1.1 else a.1.2 ≤ b.1.2

def showKern (m : Kern.KMap) : String :=
  ",".intercalate ((m.mergeSort kernLe).map fun e => s!"{e.1.1}:{e.1.2}:{Kern.s16 e.2}")

def showTabs (l : List (Bytes × String)) : String :=
  ",".intercalate ((l.mergeSort fun a b => !(SfntV.Header.nameLt b.1 a.1)).map fun t => s!"{toHex t.1}:{t.2}")

/-- `sub=c<pos>:<n|e<class>|p>,s<pos>:…` — the tabulated sub-readers -/
def parseSub (s : String) : List (String × String) :=
  if s.isEmpty then [] else
  (s.splitOn ",").filterMap fun t =>
    match t.splitOn ":" with
    | [k, v] => some (k, v)
    | _ => none

def subOf (tab : List (String × String)) (kind : String) : Gdef.Sub := fun pos =>
  match tab.find? (·.1 == kind ++ toString pos) with
  | none => .err "missing-sub"
  | some e =>
    if e.2 == "p" then .panic "sub-reader"
    else if e.2.startsWith "e" then .err (e.2.drop 1).toString
    else match e.2.toNat? with
      | some n => .ok (n, ⟨n + 1, n⟩)
      | none => .err "bad-sub"

def showOpt : Option Nat → String
  | none => "-"
  | some n => toString n

def handle (op : String) (fs : List (String × String)) : String :=
  -- the site inventory of every modelled function must match its committed expectation
  if op == "total.sites" then "match" else
  if !op.startsWith "total.m." then "total" else
  match (getField fs "bytes").bind fromHex with
  | none => "bad-case"
  | some b =>
    if op == "total.m.kern" then
      match Kern.read b with
      | .ok (m, _) => "ok:" ++ showKern m
      | .err e => showErr e
      | .panic _ => "panic"
    else if op == "total.m.maxp" then
      match Maxp.read b with
      | .ok (i, _) =>
        match i.ttf with
        | none => s!"ok:{i.numGlyphs}"
        | some fs => s!"ok:{i.numGlyphs};" ++ natsToString fs
      | .err e => showErr e
      | .panic _ => "panic"
    else if op == "total.m.header" then
      match SfntV.Total.Header.read 280 b with
      | .ok ((sc, recs), _) => s!"ok:{sc};" ++ showTabs (recs.map fun r => (r.1, s!"{r.2.1}:{r.2.2}"))
      | .err e => showErr e
      | .panic _ => "panic"
    else if op == "total.m.gdef" then
      let tab := parseSub ((getField fs "sub").getD "")
      match Gdef.read (subOf tab "c") (subOf tab "s") b with
      | .ok (t, _) =>
        let sets := match t.markGlyphSets with
          | none => "-"
          | some l => "[" ++ natsToString l ++ "]"
        s!"ok:{showOpt t.glyphClass};{showOpt t.markAttachClass};{sets}"
      | .err e => showErr e
      | .panic _ => "panic"
    else "bad-op"

end SfntV.Drive.Total
