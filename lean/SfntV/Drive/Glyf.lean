import SfntV.Model.Glyf
import SfntV.Spec.Glyf

namespace SfntV.Drive.Glyf
open SfntV SfntV.Glyf

/-! Glyph list syntax (case lines and canonical output): items joined by `,`;
`-` = nil glyph; `s:<numContours>:<bbox, 8 bytes hex>:<Encoded hex>`;
`c:<bbox hex>:<component records hex, joined by ;>:<n | i<instructions hex>>`. -/

def parseComp (s : String) : Option Component := do
  let b ← fromHex s
  if b.length < 4 then none else some ⟨rd16 b 0, rd16 b 2, b.drop 4⟩

def parseGlyph (s : String) : Option (Option Glyph) :=
  if s == "-" then some none else
  match s.splitOn ":" with
  | ["s", nc, bb, enc] => do
    let n ← nc.toInt?
    let b ← fromHex bb
    let e ← fromHex enc
    if b.length ≠ 8 then none else
    some (some ⟨rd16 b 0, rd16 b 2, rd16 b 4, rd16 b 6, .simple (n % 65536).toNat e⟩)
  | ["c", bb, comps, ins] => do
    let b ← fromHex bb
    if b.length ≠ 8 then none else
    let cs ← if comps.isEmpty then some [] else (comps.splitOn ";").mapM parseComp
    let i ← if ins == "n" then some none else
      if ins.startsWith "i" then (fromHex (ins.drop 1).toString).map some else none
    some (some ⟨rd16 b 0, rd16 b 2, rd16 b 4, rd16 b 6, .composite cs i⟩)
  | _ => none

def parseGlyphs (s : String) : Option Glyphs :=
  if s.isEmpty then some [] else (s.splitOn ",").mapM parseGlyph

def showInt16 (n : Nat) : String := if n < 32768 then toString n else "-" ++ toString (65536 - n)

def showGlyph : Option Glyph → String
  | none => "-"
  | some g =>
    let bb := toHex (be16 g.llx ++ be16 g.lly ++ be16 g.urx ++ be16 g.ury)
    match g.data with
    | .simple nc enc => s!"s:{showInt16 nc}:{bb}:{toHex enc}"
    | .composite cs ins =>
      let c := ";".intercalate (cs.map fun c => toHex (encComp c))
      let i := match ins with | none => "n" | some i => "i" ++ toHex i
      s!"c:{bb}:{c}:{i}"

def showGlyphs (gs : Glyphs) : String := ",".intercalate (gs.map showGlyph)

def showPoint (x y : Int) (on : Bool) : String := s!"{x}/{y}/{if on then 1 else 0}"

def showInfo (g : GlyphInfo) : String :=
  "ok:" ++ toHex g.instr ++ ";" ++
    "|".intercalate (g.contours.map fun c => ",".intercalate (c.map fun p => showPoint p.x p.y p.on))

/-- spec outline, coordinates shown as the `int16` the Go `Point` type can hold -/
def showOutline (g : GlyfSpec.Outline) : String :=
  "ok:" ++ toHex g.instructions ++ ";" ++
    "|".intercalate (g.contours.map fun c =>
      ",".intercalate (c.map fun p => showPoint (wrap16 p.x) (wrap16 p.y) p.onCurve))

def parseMap (s : String) : Option (List (Nat × Nat)) :=
  if s.isEmpty then some [] else
  (s.splitOn ";").mapM fun e =>
    match e.splitOn ":" with
    | [a, b] => do pure ((← a.toNat?), (← b.toNat?))
    | _ => none

def prefixes : List String := ["glyf."]

def handle (op : String) (fs : List (String × String)) : String :=
  if op == "glyf.encode" then
    match (getField fs "gs").bind parseGlyphs with
    | none => "bad-case"
    | some gs =>
      match encode gs with
      | .ok e => s!"ok:{e.fmt};{toHex e.loca};{toHex e.glyf}"
      | .err e => "err:" ++ e
      | .panic _ => "panic"
  else if op == "glyf.roundtrip" then
    -- direct predicate: on a well-formed list, Decode (Encode gs) must give gs back
    match (getField fs "gs").bind parseGlyphs with
    | none => "bad-case"
    | some gs =>
      if wfGlyphs gs then "ok:" ++ showGlyphs gs else "not-wf"
  else if op == "glyf.decode" then
    match (getField fs "fmt").bind String.toInt?, (getField fs "loca").bind fromHex,
        (getField fs "glyf").bind fromHex with
    | some f, some l, some g =>
      match decode f l g with
      | .ok gs => "ok:" ++ showGlyphs gs
      | .err e => "err:" ++ e
      | .panic _ => "panic"
    | _, _, _ => "bad-case"
  else if op == "glyf.fixed" then
    -- direct predicate (C11_bytes_fixed): whatever Decode accepts re-encodes to a fixed point
    match (getField fs "fmt").bind String.toInt?, (getField fs "loca").bind fromHex,
        (getField fs "glyf").bind fromHex with
    | some f, some l, some g =>
      match decode f l g with
      | .ok _ => "fixed"
      | .err _ => "rejected"
      | .panic _ => "panic"
    | _, _, _ => "bad-case"
  else if op == "glyf.simple" then
    match (getField fs "nc").bind String.toInt?, (getField fs "enc").bind fromHex with
    | some nc, some e =>
      match simpleDecode nc e with
      | some g => showInfo g
      | none => "err"
    | _, _ => "bad-case"
  else if op == "glyf.simplespec" then
    match (getField fs "nc").bind String.toInt?, (getField fs "enc").bind fromHex with
    | some nc, some e =>
      match GlyfSpec.decodeSimple nc e with
      | some g => showOutline g
      | none => "err"
    | _, _ => "bad-case"
  else if op == "glyf.ximage" then
    -- extra oracle: segments of the specification outline (y axis flipped as x/image does)
    match (getField fs "nc").bind String.toInt?, (getField fs "enc").bind fromHex with
    | some nc, some e =>
      match GlyfSpec.decodeSimple nc e with
      | some g => "ok:" ++ ",".intercalate ((GlyfSpec.outlineSegs g).map fun
          | .move x y => s!"M{x}/{-y}"
          | .line x y => s!"L{x}/{-y}"
          | .quad cx cy x y => s!"Q{cx}/{-cy}/{x}/{-y}")
      | none => "err"
    | _, _ => "bad-case"
  else if op == "glyf.locafacts" then
    match (getField fs "fmt").bind String.toNat?, (getField fs "loca").bind fromHex,
        (getField fs "glyflen").bind String.toNat?, (getField fs "n").bind String.toNat? with
    | some f, some l, some gl, some n =>
      match GlyfSpec.locaFactsErr f l gl n with
      | none => "facts-ok"
      | some c => "bad:" ++ c
    | _, _, _, _ => "bad-case"
  else if op == "glyf.comps" then
    match (getField fs "gs").bind parseGlyphs with
    | none => "bad-case"
    | some gs => ",".intercalate (gs.map fun g =>
        match components g with
        | none => "nil"
        | some l => "[" ++ ".".intercalate (l.map toString) ++ "]")
  else if op == "glyf.indep" then
    -- direct predicate: `encode` and `decode` are functions — results of earlier calls do not
    -- depend on later calls
    match (getField fs "a").bind parseGlyphs, (getField fs "b").bind parseGlyphs with
    | some _, some _ => "independent"
    | _, _ => "bad-case"
  else if op == "glyf.decpure" then
    -- direct predicate: the model's `decode`/`encode` are functions of their arguments, so the
    -- caller's tables are the same after Decode + Encode and a second Decode agrees
    match (getField fs "fmt").bind String.toInt?, (getField fs "loca").bind fromHex,
        (getField fs "glyf").bind fromHex with
    | some f, some l, some g =>
      match decode f l g with
      | .ok _ => "pure"
      | .err _ => "rejected"
      | .panic _ => "panic"
    | _, _, _ => "bad-case"
  else if op == "glyf.encpure" then
    match (getField fs "gs").bind parseGlyphs with
    | some _ => "pure"
    | none => "bad-case"
  else if op == "glyf.fixenc" then
    -- direct predicate: the rewritten list (C11_components keeps it well-formed) round-trips
    -- (C11_roundtrip) and its loca offsets are even (C11_loca)
    match (getField fs "gs").bind parseGlyphs, (getField fs "map").bind parseMap with
    | some gs, some m =>
      let f := fun (k : Nat) => ((m.find? (·.1 == k)).map (·.2)).getD 0
      let out := gs.map (fixComponents f)
      if wfGlyphs out then "ok:" ++ showGlyphs out ++ "|even" else "not-wf"
    | _, _ => "bad-case"
  else if op == "glyf.fixpure" then
    -- direct predicate: `fixComponents` is a function, so the input is unchanged by a call and a
    -- second call returns the same glyphs (what the harness observes on the real code)
    match (getField fs "gs").bind parseGlyphs, (getField fs "map").bind parseMap with
    | some _, some _ => "input-unchanged|again-same"
    | _, _ => "bad-case"
  else if op == "glyf.fix" then
    match (getField fs "gs").bind parseGlyphs, (getField fs "map").bind parseMap with
    | some gs, some m =>
      let f := fun (k : Nat) => ((m.find? (·.1 == k)).map (·.2)).getD 0
      -- `FixComponents` is a function of its arguments (C11_components): the input list is the
      -- same afterwards and a second call gives the same result; the harness reports both
      let out := gs.map (fixComponents f)
      let comps := ",".intercalate (out.map fun g =>
        match components g with
        | none => "nil"
        | some l => "[" ++ ".".intercalate (l.map toString) ++ "]")
      showGlyphs out ++ "|input-unchanged|again-same|comps=" ++ comps
    | _, _ => "bad-case"
  else "bad-op"

end SfntV.Drive.Glyf
