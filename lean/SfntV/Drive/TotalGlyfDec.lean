import SfntV.Model.TotalGlyfDec

/-!
Line protocol of the checked-index model of the glyf/loca decoders (property C02, group `glyfdec`).

`tmglyfdec.decode bytes=<glyf hex> loca=<hex> fmt=<int16> comp=<body hex>:<ok|e<class>|p>,…`
→ `ok:<glyph>,<glyph>,…` with `-` = nil glyph, `<numContours>:<bbox hex>:<len(Encoded)>` for a simple
glyph and `c:<bbox hex>` for a composite one | `err:<class>` | `panic`.
The field `comp` tabulates the abstract parameter `decodeGlyphComposite` on the bodies (`data[10:]`)
of the glyphs with a negative contour count, as computed by the real decoder.
-/
namespace SfntV.Drive.TotalGlyfDec
open SfntV SfntV.Total SfntV.Total.GlyfDec

def prefixes : List String := ["tmglyfdec."]

def parseComp (s : String) : List (String × String) :=
  if s.isEmpty then [] else
  (s.splitOn ",").filterMap fun t =>
    match t.splitOn ":" with
    | [k, v] => some (k, v)
    | _ => none

def compOf (tab : List (String × String)) : Bytes → Outcome (Unit × Cost) := fun d =>
  match tab.find? (·.1 == toHex d) with
  | none => .err "missing-comp"
  | some e =>
    if e.2 == "ok" then .ok ((), ⟨0, 0⟩)
    else if e.2 == "p" then .panic "comp"
    else .err (e.2.drop 1).toString

def showGlyph : Option (Glyph Unit) → String
  | none => "-"
  | some g =>
    let bb := toHex (be16 g.llx ++ be16 g.lly ++ be16 g.urx ++ be16 g.ury)
    match g.data with
    | .simple nc enc => s!"{nc}:{bb}:{enc.length}"
    | .composite _ => s!"c:{bb}"

def handle (op : String) (fs : List (String × String)) : String :=
  if op == "tmglyfdec.decode" then
    match (getField fs "bytes").bind fromHex, (getField fs "loca").bind fromHex,
        (getField fs "fmt").bind String.toInt? with
    | some g, some l, some f =>
      let tab := parseComp ((getField fs "comp").getD "")
      match decode (compOf tab) f l g with
      | .ok (gg, _) => "ok:" ++ ",".intercalate (gg.map showGlyph)
      | .err e => "err:" ++ e
      | .panic _ => "panic"
    | _, _, _ => "bad-case"
  else "bad-op"

end SfntV.Drive.TotalGlyfDec
