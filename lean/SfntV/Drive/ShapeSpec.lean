import SfntV.Prelude.Bytes
import SfntV.Model.ShapeEngine
import SfntV.Spec.Shape
import SfntV.Drive.Shape

/-!
Line protocol of area `shapespec` (C06).  The case format is that of area `shape`
(Drive/Shape.lean): one field `d=` with the lookup list, GDEF, lookup indices and sequences.

* `shapespec.apply` (D): for every sequence of the case the result of the REFERENCE shaper
  `Spec.Shape.shape`; where the reference is undefined (outside `Defined`) the property says
  nothing and the line shows the engine model's result instead (so such a line only repeats the
  correspondence Go = Engine of C07).
* `shapespec.region` (G): per sequence `defined` or `undef:<reason>` (the Go side prints
  `defined`; the number of differing lines is the number of cases outside `Defined`).
* `shapespec.exhaust` (D): fields `d=` (no sequences), `alpha=` glyph ids, `maxlen=`: all
  sequences over the alphabet up to the length, each reported as a 4-hex-digit FNV-1a digest of
  the line `shapespec.apply` would print.
-/
namespace SfntV.Drive.ShapeSpec
open SfntV SfntV.Shape SfntV.Drive.Shape

def B : Nat := Gen.shapeNestedBudget

@[noinline] def engineLine (c : Case) (s : List Glyph) : String :=
  showOutcome (fun st => "ok:" ++ showSeq st.seq) (Shape.apply B c.ll c.gd c.lookups [] s)

@[noinline] def specLine (c : Case) (s : List Glyph) : String :=
  match Spec.Shape.shape B c.ll c.gd c.lookups s with
  | .ok r => "ok:" ++ showSeq r
  | .error _ => engineLine c s

def regionLine (c : Case) (s : List Glyph) : String :=
  match Spec.Shape.shape B c.ll c.gd c.lookups s with
  | .ok _ => "defined"
  | .error e => "undef:" ++ e

def fnv (s : String) : Nat :=
  s.toUTF8.foldl (fun h b => ((h ^^^ b.toNat) * 16777619) % 4294967296) 2166136261

def hex4 (n : Nat) : String :=
  let d := fun k => String.ofList (Nat.toDigits 16 ((n / k) % 16))
  d 4096 ++ d 256 ++ d 16 ++ d 1

/-- all sequences over `alpha` of length exactly `n`, in lexicographic order of positions -/
def seqsOfLen (alpha : List Nat) : Nat → List (List Nat)
  | 0 => [[]]
  | n + 1 => alpha.flatMap fun a => (seqsOfLen alpha n).map (a :: ·)

def mkSeq (gids : List Nat) : List Glyph :=
  gids.zipIdx.map fun (g, i) => ⟨g, [97 + i], 0, 0, 0⟩

def prefixes : List String := ["shapespec."]

def handle (op : String) (fs : List (String × String)) : String :=
  match parseCase fs with
  | none => "bad-case"
  | some c =>
    if op == "shapespec.apply" then
      "|".intercalate (c.hist.map (specLine c))
    else if op == "shapespec.engine" then
      "|".intercalate (c.hist.map (engineLine c))
    else if op == "shapespec.region" then
      "|".intercalate (c.hist.map (regionLine c))
    else if op == "shapespec.exhaust" then
      match (getField fs "alpha").bind parseNatList, (getField fs "maxlen").bind String.toNat? with
      | some alpha, some maxlen =>
        let lens := List.range (maxlen + 1)
        let all := lens.flatMap (seqsOfLen alpha)
        "".intercalate (all.map fun gids => hex4 (fnv (specLine c (mkSeq gids)) % 65536))
      | _, _ => "bad-case"
    else if op == "shapespec.exregion" then
      match (getField fs "alpha").bind parseNatList, (getField fs "maxlen").bind String.toNat? with
      | some alpha, some maxlen =>
        let lens := List.range (maxlen + 1)
        let all := lens.flatMap (seqsOfLen alpha)
        let nd := (all.filter fun gids => (regionLine c (mkSeq gids)) == "defined").length
        s!"defined={nd}/{all.length}"
      | _, _ => "bad-case"
    else "bad-op"

end SfntV.Drive.ShapeSpec
