import SfntV.Model.Parser

namespace SfntV.Drive.Parser
open SfntV SfntV.Parser

def mkOracle (chunks : List Nat) : Oracle where
  give i w a :=
    let c := if chunks.isEmpty then w else chunks.getD (i % chunks.length) 1
    max 1 (min c (min w a))
  pos := by
    intro i w a hw ha
    simp only
    omega

def parseOp (s : String) : Option Op :=
  match s.splitOn ":" with
  | ["seek", n] => n.toNat?.map Op.seek
  | ["discard", n] => n.toNat?.map Op.discard
  | ["bytes", n] => n.toNat?.map Op.bytes
  | ["read", n] => n.toNat?.map Op.read
  | ["u8"] => some .u8
  | ["u16"] => some .u16
  | ["i16"] => some .i16
  | ["u32"] => some .u32
  | ["u16s"] => some .u16s
  | ["pos"] => some .pos
  | ["size"] => some .size
  | _ => none

def showOut : Out → String
  | .unit => "unit"
  | .num n => s!"num:{n}"
  | .int i => s!"int:{i}"
  | .data b => s!"data:{toHex b}"
  | .nums l => s!"nums:{natsToString l}"
  | .short b => s!"short:{b.length}:{toHex b}"
  | .eof => "eof"

/-- run on the model of the Go parser, printing output and cursor after each op -/
def runImpl (o : Oracle) : P → List Op → List String
  | _, [] => []
  | p, op :: ops =>
    let r := implStep o p op
    s!"{showOut r.2}@{r.1.cursor}" :: runImpl o r.1 ops

def runSpec (input : Bytes) : Nat → List Op → List String
  | _, [] => []
  | c, op :: ops =>
    let r := specStep input c op
    s!"{showOut r.2}@{r.1}" :: runSpec input r.1 ops

/-- diagnostic: window state after each op -/
def runWin (o : Oracle) : P → List Op → List String
  | _, [] => []
  | p, op :: ops =>
    let r := implStep o p op
    s!"{r.1.from_},{r.1.pos},{r.1.used}" :: runWin o r.1 ops

def prefixes : List String := ["parser."]

def handle (op : String) (fs : List (String × String)) : String :=
  match getField fs "input" >>= fromHex, getField fs "chunks" >>= parseNatList,
        (getField fs "ops").map (fun s => if s.isEmpty then [] else s.splitOn ";") with
  | some input, some chunks, some opStrs =>
    match opStrs.mapM parseOp with
    | none => "bad-op"
    | some ops =>
      if !(ops.all fun o => decide o.ok) then "panic:buffer size exceeded"
      else if op == "parser.ops" then ";".intercalate (runImpl (mkOracle chunks) (P.init input) ops)
      else if op == "parser.spec" then ";".intercalate (runSpec input 0 ops)
      else if op == "parser.win" then ";".intercalate (runWin (mkOracle chunks) (P.init input) ops)
      else "bad-op"
  | _, _, _ => "bad-case"

end SfntV.Drive.Parser
