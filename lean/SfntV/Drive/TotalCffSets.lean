import SfntV.Model.TotalCffSets

/-!
Line protocol of the checked-index models of the CFF set readers (property C02, group `cffsets`).

* `tmcffsets.charset bytes=<hex> n=<int>` → `ok:<names>;pos=<parser position>` | `err:<class>` | `panic`
* `tmcffsets.encoding bytes=<hex> charset=<ints, "-" = empty>` → `ok:<256 glyph ids>` | `err:<class>` | `panic`
* `tmcffsets.fdselect bytes=<hex> n=<int> np=<int>` → `ok:<fn(0),…,fn(n-1)>;oob=<fn(g) for g in
  n, n+1, 65535 (those ≤ 65535), each the FD or "p" for a panic>` | `err:<class>` | `panic` (also when
  a lookup `fn(g)`, `g < n`, panics)

Error classes: eof, invalid, unsupported, other.
-/
namespace SfntV.Drive.TotalCffSets
open SfntV SfntV.Total SfntV.Total.CffSets

def prefixes : List String := ["tmcffsets."]

def intsToString (l : List Int) : String := ",".intercalate (l.map toString)

def parseIntList (s : String) : Option (List Int) :=
  if s.isEmpty || s == "-" then some [] else (s.splitOn ",").mapM String.toInt?

def showOob (fn : FdSel) (g : Nat) : String :=
  match lookup fn g with
  | .ok v => toString v
  | _ => "p"

def handle (op : String) (fs : List (String × String)) : String :=
  match (getField fs "bytes").bind fromHex with
  | none => "bad-case"
  | some b =>
    if op == "tmcffsets.charset" then
      match (getField fs "n").bind String.toInt? with
      | none => "bad-case"
      | some n =>
        match readCharset b n with
        | .ok ((l, pos), _) => s!"ok:{intsToString l};pos={pos}"
        | .err e => "err:" ++ e
        | .panic _ => "panic"
    else if op == "tmcffsets.encoding" then
      match (getField fs "charset").bind parseIntList with
      | none => "bad-case"
      | some cs =>
        match readEncoding b cs with
        | .ok (res, _) => "ok:" ++ natsToString res
        | .err e => "err:" ++ e
        | .panic _ => "panic"
    else if op == "tmcffsets.fdselect" then
      match (getField fs "n").bind String.toInt?, (getField fs "np").bind String.toInt? with
      | some n, some np =>
        match readFDSelect b n np with
        | .ok (fn, _) =>
          (match lookups fn (List.range n.toNat) with
          | .ok l =>
            let probes := [n.toNat, n.toNat + 1, 65535].filter (fun g => g ≤ 65535)
            s!"ok:{natsToString l};oob={",".intercalate (probes.map (showOob fn))}"
          | _ => "panic")
        | .err e => "err:" ++ e
        | .panic _ => "panic"
      | _, _ => "bad-case"
    else "bad-op"

end SfntV.Drive.TotalCffSets
