import SfntV.Model.TotalMetrics
import SfntV.Generated.Names

/-!
Line protocol of the verdict ops `tmmetrics.*` (property C02, group `metrics`): the checked-index
models of `hmtx.Decode`, `head.Read`, `os2.Read`, `post.Read` applied to the bytes of the case line.

* `tmmetrics.hmtx bytes=<hmtx hex | -> hhea=<hex>` (`-` = nil slice)
* `tmmetrics.head bytes=<hex>`, `tmmetrics.os2 bytes=<hex>`, `tmmetrics.post bytes=<hex>`

Answer: `ok:<canonical fields>` | `err:<class>` | `panic`.  Floats are not compared: the caret
angle of hmtx is omitted, post.ItalicAngle and head.FontRevision are printed as raw fixed point.
-/
namespace SfntV.Drive.TotalMetrics
open SfntV SfntV.Total SfntV.Metrics

def prefixes : List String := ["tmmetrics."]

def intsToString (l : List Int) : String := ",".intercalate (l.map toString)
def showBool (b : Bool) : String := if b then "1" else "0"
def showRect (r : Rect) : String := s!"{r.llx}:{r.lly}:{r.urx}:{r.ury}"

def showHead (h : Head) : String :=
  s!"rev={h.fontRevision} y0={showBool h.hasYBaseAt0} x0={showBool h.hasXBaseAt0} nl={showBool h.isNonlinear} " ++
  s!"upm={h.unitsPerEm} created={h.created.sec} modified={h.modified.sec} bbox={showRect h.bbox} " ++
  s!"bold={showBool h.isBold} italic={showBool h.isItalic} shadow={showBool h.hasShadow} " ++
  s!"cond={showBool h.isCondensed} extd={showBool h.isExtended} ppem={h.lowestRecPPEM} loca={h.locaFormat}"

def showOs2 (o : Os2) : String :=
  s!"wc={o.weightClass} wd={o.widthClass} bold={showBool o.isBold} italic={showBool o.isItalic} " ++
  s!"regular={showBool o.isRegular} oblique={showBool o.isOblique} first={o.firstCharIndex} " ++
  s!"last={o.lastCharIndex} asc={o.ascent} desc={o.descent} wasc={o.winAscent} wdesc={o.winDescent} " ++
  s!"gap={o.lineGap} cap={o.capHeight} xh={o.xHeight} avg={o.avgGlyphWidth} sub={intsToString o.sub} " ++
  s!"fam={o.familyClass} panose={toHex (o.panose.map UInt8.ofNat)} vendor={toHex o.vendor} " ++
  s!"ur={natsToString o.unicodeRange} cpr={o.codePageRange} perm={o.permUse} " ++
  s!"nosub={showBool o.permNoSubsetting} bitmap={showBool o.permOnlyBitmap}"

def showPost (p : SfntV.Total.Metrics.PostInfo) : String :=
  let names := match p.names with
    | none => "-1;"
    | some ns => s!"{ns.length};" ++ ",".intercalate (ns.map toHex)
  s!"{p.version};{i32ofNat p.angle},{i16ofNat p.upos},{i16ofNat p.uthick},{showBool p.fixed};" ++ names

def showWith (o : Outcome (α × Cost)) (f : α → String) : String :=
  match o with
  | .ok a => "ok:" ++ f a.1
  | .err e => "err:" ++ e
  | .panic _ => "panic"

/-- the regenerated table `post.macRoman` as byte strings -/
def macTable : List Bytes := Gen.postMacRoman.map fun s => s.toUTF8.toList

def handle (op : String) (fs : List (String × String)) : String :=
  if op == "tmmetrics.hmtx" then
    let hm : Option (Option Bytes) := match getField fs "bytes" with
      | some "-" => some none
      | some s => (fromHex s).map some
      | none => none
    match hm, (getField fs "hhea").bind fromHex with
    | some hm, some hhea =>
      showWith (SfntV.Total.Metrics.hmtxDecode hhea hm) fun d =>
        s!"{d.ascent},{d.descent},{d.lineGap},{d.caretOffset};w={intsToString d.widths};lsb={intsToString d.lsb}"
    | _, _ => "bad-case"
  else match (getField fs "bytes").bind fromHex with
  | none => "bad-case"
  | some b =>
    if op == "tmmetrics.head" then showWith (SfntV.Total.Metrics.headRead b) showHead
    else if op == "tmmetrics.os2" then showWith (SfntV.Total.Metrics.os2Read b) showOs2
    else if op == "tmmetrics.post" then showWith (SfntV.Total.Metrics.postRead macTable b) showPost
    else "bad-op"

end SfntV.Drive.TotalMetrics
