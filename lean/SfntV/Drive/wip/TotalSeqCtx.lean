import SfntV.Model.TotalSeqCtx

/-!
Line protocol of the `tmseqctx.` verdict ops (property C02, group `seqctx`):
`tmseqctx.read bytes=<hex> pos=<n>` → the outcome of the checked-index model of
`readGsubSubtable` with lookup type 5 as repaired (`SeqCtx.gsub5`: format word, then
`readSeqContext1/2/3`; every other format word, the former key collisions included, is invalid):
`ok:<canonical subtable>` | `err:<class>` | `panic`.
`tmseqctx.nested bytes=<hex> pos=<n> count=<n>` → `readNested` with the parser at `pos`:
`ok:<actions>` | `err:<class>` | `panic`.
Canonical values: coverage `s-e:i` = maximal runs in which glyph id and coverage index both go up by
one; coverage set `s-e` = maximal runs of glyph ids; classdef `s-e:c` = maximal runs of one non-zero
class; a rule `i.i.i>s:l.s:l`; a rule set `[rule,rule]` or `n` (nil); sets joined by `|`.
-/
namespace SfntV.Drive.TotalSeqCtx
open SfntV SfntV.Total

def prefixes : List String := ["tmseqctx."]

/-- stable sort by glyph, then keep the FIRST entry of each glyph -/
def canonKV (l : List (Nat × Nat)) : List (Nat × Nat) :=
  let s := l.mergeSort (fun a b => a.1 ≤ b.1)
  (s.foldl (fun acc p =>
    match acc with
    | q :: _ => if q.1 == p.1 then acc else p :: acc
    | [] => [p]) []).reverse

/-- maximal runs `(s, e, v)`; a run continues while the glyph goes up by one and the value by `step` -/
def runsOf (step : Nat) (l : List (Nat × Nat)) : List (Nat × Nat × Nat) :=
  let (done, cur) := l.foldl (fun (st : List (Nat × Nat × Nat) × Option (Nat × Nat × Nat × Nat)) p =>
    match st.2 with
    | none => (st.1, some (p.1, p.1, p.2, p.2))
    | some (s, e, v, last) =>
      if p.1 == e + 1 && p.2 == last + step then (st.1, some (s, p.1, v, p.2))
      else ((s, e, v) :: st.1, some (p.1, p.1, p.2, p.2))) ([], none)
  (match cur with
   | some (s, e, v, _) => (s, e, v) :: done
   | none => done).reverse

def showRunsV (rs : List (Nat × Nat × Nat)) : String :=
  ",".intercalate (rs.map fun r => s!"{r.1}-{r.2.1}:{r.2.2}")

def showRuns (rs : List (Nat × Nat × Nat)) : String :=
  ",".intercalate (rs.map fun r => s!"{r.1}-{r.2.1}")

def showCov (es : List (Nat × Nat)) : String := showRunsV (runsOf 1 (canonKV es))
def showSet (gs : List Nat) : String := showRuns (runsOf 0 (canonKV (gs.map fun g => (g, 0))))
def showCd (es : List (Nat × Nat)) : String :=
  showRunsV (runsOf 0 ((canonKV es).filter fun p => p.2 != 0))

def showActions (as : List SeqCtx.Action) : String :=
  ".".intercalate (as.map fun a => s!"{a.1}:{a.2}")

def showRule (r : SeqCtx.Rule) : String :=
  ".".intercalate (r.input.map toString) ++ ">" ++ showActions r.actions

def showSets (ss : SeqCtx.Sets) : String :=
  "|".intercalate (ss.map fun s =>
    match s with
    | none => "n"
    | some rs => "[" ++ ",".intercalate (rs.map showRule) ++ "]")

def showSub : SeqCtx.Sub → String
  | .c1 v => "1;cov=" ++ showCov v.cov ++ ";sets=" ++ showSets v.sets
  | .c2 v => "2;cov=" ++ showCov v.cov ++ ";cd=" ++ showCd v.classes ++ ";sets=" ++ showSets v.sets
  | .c3 v => "3;covs=" ++ "|".intercalate (v.covs.map showSet) ++ ";acts=" ++ showActions v.actions

def handle (op : String) (fs : List (String × String)) : String :=
  match (getField fs "bytes").bind fromHex, (getField fs "pos").bind String.toNat? with
  | some b, some pos =>
    if op == "tmseqctx.read" then
      match SeqCtx.gsub5 b pos with
      | .ok (v, _) => "ok:" ++ showSub v
      | .err e => "err:" ++ e
      | .panic _ => "panic"
    else if op == "tmseqctx.nested" then
      match (getField fs "count").bind String.toNat? with
      | some n =>
        match SeqCtx.readNested b pos n Cost.zero with
        | .ok (v, _, _) => "ok:" ++ showActions v
        | .err e => "err:" ++ e
        | .panic _ => "panic"
      | none => "bad-case"
    else "bad-op"
  | _, _ => "bad-case"

end SfntV.Drive.TotalSeqCtx
