import SfntV.Model.TotalLookupList

/-!
Line protocol of the checked-index model of `readLookupList` and the subtable dispatchers
(property C02, group `lookuplist`).

`tmlookuplist.list bytes=<hex> pos=<n> ext=<extension lookup type>` — `gtab.VerifReadLookupList`:
→ `ok:<lookup>;<lookup>;…` with `<lookup> = <type>/<flags>/<markFilteringSet>/<sub>|<sub>|…`,
`<sub> = r<pos>.<type>` (the hook's `VerifRef`) or `x<type>.<offset>` (an extension record left in
the result) | `err:<class>` | `panic`.

`tmlookuplist.gsub` / `tmlookuplist.gpos bytes=<hex> pos=<n> type=<lookup type> sub=<ok|e<class>|p>`
— `readGsubSubtable` / `readGposSubtable`; the field `sub` tabulates the abstract individual subtable
reader (what the selected reader did on this input, as computed by the real code):
→ `ok:x<type>.<offset>` (extension record) | `ok:<T>.<F>` (the reader stored under key 10·T+F
returned a subtable) | `err:miss` (no reader under the key) | `err:<class>` | `panic`.
-/
namespace SfntV.Drive.TotalLookupList
open SfntV SfntV.Total SfntV.Total.LookupList

def prefixes : List String := ["tmlookuplist."]

def showSub : SubV (Nat × Nat) → String
  | .ext tp off => s!"x{tp}.{off}"
  | .other (p, tp) => s!"r{p}.{tp}"

def showLookup (l : Lookup (Nat × Nat)) : String :=
  s!"{l.type}/{l.flags}/{l.mfs}/" ++ "|".intercalate (l.subs.map showSub)

def subOf (hint : String) : SubReaders (Nat × Nat) := fun t f _ =>
  if hint == "ok" then .ok ((t, f), ⟨0, 0⟩)
  else if hint == "p" then .panic "sub"
  else .err ("sub:" ++ (hint.drop 1).toString)

def showDisp : Outcome (SubV (Nat × Nat) × Cost) → String
  | .ok (.ext tp off, _) => s!"ok:x{tp}.{off}"
  | .ok (.other (t, f), _) => s!"ok:{t}.{f}"
  | .err e =>
    if e == "invalid" then "err:miss"
    else if e.startsWith "sub:" then "err:" ++ (e.drop 4).toString
    else "err:" ++ e
  | .panic _ => "panic"

def handle (op : String) (fs : List (String × String)) : String :=
  if op == "tmlookuplist.list" then
    match (getField fs "bytes").bind fromHex, (getField fs "pos").bind String.toNat?,
        (getField fs "ext").bind String.toNat? with
    | some b, some pos, some ext =>
      match readLookupList (hookReader refLeaf b ext) b pos with
      | .ok (ls, _) => "ok:" ++ ";".intercalate (ls.map showLookup)
      | .err e => "err:" ++ e
      | .panic _ => "panic"
    | _, _, _ => "bad-case"
  else if op == "tmlookuplist.gsub" || op == "tmlookuplist.gpos" then
    match (getField fs "bytes").bind fromHex, (getField fs "pos").bind String.toNat?,
        (getField fs "type").bind String.toNat?, getField fs "sub" with
    | some b, some pos, some tp, some hint =>
      if op == "tmlookuplist.gsub" then showDisp (gsubReader (subOf hint) b tp pos)
      else showDisp (gposReader (subOf hint) b tp pos)
    | _, _, _, _ => "bad-case"
  else "bad-op"

end SfntV.Drive.TotalLookupList
