import SfntV.Model.TotalCffDict
import SfntV.Generated.Cff

/-!
Line protocol of the checked-index models of group `cffdict` (property C02):
`tmcffdict.dict bytes=<hex> [strings=<n>]` (custom strings `s0`…`s<n-1>`) and
`tmcffdict.float bytes=<hex>` (the bytes after the leading 0x1e).
The abstract parameters of the model are instantiated with the value-level model of C13
(`Cff.floatValue`, `Cff.realAsIndex`, `Cff.stringsGet`).  That model gives the exact decimal; it
identifies the float64 for at most 15 significant digits, so inputs with a longer real are compared
on the panic question only (`long:nopanic` / `long:panic`).
-/
namespace SfntV.Drive.TotalCffDict
open SfntV SfntV.Total SfntV.Total.CffDict

def prefixes : List String := ["tmcffdict."]

def showOperand : Cff.Operand → String
  | .int v => s!"i{v}"
  | .real neg m e => s!"r{if neg then "-" else ""}{m}e{e}"
  | .str s => "s" ++ toHex s.toUTF8.toList

def showDict (d : List (Nat × List Cff.Operand)) : String :=
  ",".intercalate ((Cff.sortDict d).map fun e => s!"{e.1}:" ++ "|".intercalate (e.2.map showOperand))

/-- digit nibbles up to the terminator `f` -/
def digitsAfter : Bytes → Nat → Nat
  | [], n => n
  | y :: ys, n =>
    let hi := y.toNat / 16
    let lo := y.toNat % 16
    if hi = 15 then n else
    let n := if hi ≤ 9 then n + 1 else n
    if lo = 15 then n else digitsAfter ys (if lo ≤ 9 then n + 1 else n)

/-- some byte 0x1e is followed by a nibble string with more than 15 digits -/
def realTooLong : Bytes → Bool
  | [] => false
  | x :: xs => (x == 0x1e && decide (digitsAfter xs 0 > 15)) || realTooLong xs

@[noinline] def runDict (std custom : Array String) (b : Bytes) : String :=
  let long := realTooLong b
  match decodeDict (envC13 std custom) b with
  | .ok (d, _) => if long then "long:nopanic" else "ok:" ++ showDict d
  | .err _ => if long then "long:nopanic" else "err"
  | .panic _ => if long then "long:panic" else "panic"

@[noinline] def runFloat (std : Array String) (b : Bytes) : String :=
  let long := decide (digitsAfter b 0 > 15)
  match decodeFloat (envC13 std #[]) b with
  | .ok ((rest, _, v), _) =>
    s!"ok:{rest.length}:" ++ (if long then "long" else showOperand (.real v.1 v.2.1 v.2.2))
  | .err _ => "err"
  | .panic _ => "panic"

def handle (op : String) (fs : List (String × String)) : String :=
  match (getField fs "bytes").bind fromHex with
  | none => "bad-case"
  | some b =>
    if op == "tmcffdict.dict" then
      let n := ((getField fs "strings").bind String.toNat?).getD 0
      let custom := (List.range n).map (fun i => s!"s{i}")
      runDict Gen.cffStdStrings custom.toArray b
    else if op == "tmcffdict.float" then runFloat Gen.cffStdStrings b
    else "bad-op"

end SfntV.Drive.TotalCffDict
