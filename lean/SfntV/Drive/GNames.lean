import SfntV.Prelude.Bytes
import SfntV.Model.GNames
import SfntV.Generated.GNames
import SfntV.Generated.Cmapx

/-! Line-protocol handlers for area `gnames` (C20). Names travel as hex of their bytes; a byte is
mapped to the character with that code (names are only compared and extended by ASCII). -/
namespace SfntV.Drive.GNames
open SfntV SfntV.GNames

def nameOfHex (s : String) : Option Name := (fromHex s).map fun b => b.map fun x => Char.ofNat x.toNat
def hexOfName (nm : Name) : String := toHex (nm.map fun c => UInt8.ofNat c.toNat)

/-- `a,b,,c` → names (`cnt` disambiguates the empty list) -/
def parseNames (cnt : Nat) (s : String) : Option (List Name) :=
  if cnt = 0 then some [] else (s.splitOn ",").mapM nameOfHex

def showNames (l : List Name) : String := ",".intercalate (l.map hexOfName)

def parsePair (sep : String) (s : String) : Option (Nat × Nat) :=
  match s.splitOn sep with
  | [a, b] => do pure (← a.toNat?, ← b.toNat?)
  | _ => none

def parsePairs (sep : String) (s : String) : Option (List (Nat × Nat)) :=
  if s.isEmpty then some [] else (s.splitOn ",").mapM (parsePair sep)

/-- `1,2|3||` → [[1,2],[3],[]] (every set is followed by `|`) -/
def parseSets (s : String) : Option (List (List Nat)) :=
  ((s.splitOn "|").dropLast).mapM parseNatList

def parseLig (s : String) : Option (List Nat × Nat) :=
  match s.splitOn ">" with
  | [a, b] => do pure (← parseNatList a, ← b.toNat?)
  | _ => none

def parseLigSets (s : String) : Option (List (List (List Nat × Nat))) :=
  ((s.splitOn "|").dropLast).mapM fun t =>
    if t.isEmpty then some [] else (t.splitOn "/").mapM parseLig

def parseSub (s : String) : Option Sub :=
  match s.splitOn ":" with
  | ["s1", d, cov] => do pure (.single1 (← parseNatList cov) (← d.toNat?))
  | ["s2", cov, subst] => do pure (.single2 (← parsePairs "-" cov) (← parseNatList subst))
  | ["al", cov, alts] => do pure (.alt (← parsePairs "-" cov) (← parseSets alts))
  | ["lg", cov, repl] => do pure (.lig (← parsePairs "-" cov) (← parseLigSets repl))
  | ["ot"] => some .other
  | _ => none

def parseGsub (s : String) : Option (List Sub) :=
  if s.isEmpty then some [] else (s.splitOn ";").mapM parseSub

@[noinline] def lookupIn (tab : Array (Nat × Nat)) (c : Nat) : Nat :=
  match tab.find? (·.1 == c) with
  | some p => p.2
  | none => 0

/-- `mac = true`: the subtable is the Macintosh one (platform 1, encoding 0); the listed codes are
MacRoman codes and the font's character map is their Unicode view (table regenerated from
mac/encoding.go); entries for glyph 0 are not mappings -/
def parseCMap (mac : Bool) (s : String) : Option (Option CMap) :=
  if s == "-" then some none else do
    let ps0 ← parsePairs ":" s
    let ps := if mac then (ps0.filter (·.2 != 0)).map fun p => (Gen.macRomanTable.getD p.1 p.1, p.2) else ps0
    let codes := ps.map (·.1)
    let lo := codes.foldl min (codes.headD 0)
    let hi := codes.foldl max 0
    let tab := ps.toArray
    pure (some ⟨lo, hi, lookupIn tab⟩)

def parseNameTab (s : String) : Option (List (Nat × Name)) :=
  if s.isEmpty then some [] else
  (s.splitOn ",").mapM fun t =>
    match t.splitOn ":" with
    | [a, b] => do pure (← a.toNat?, ← nameOfHex b)
    | _ => none

@[noinline] def nameTabFn (tab : Array (Nat × Name)) (c : Nat) : Name :=
  match tab.find? (·.1 == c) with
  | some p => p.2
  | none => []

def parseFont (fs : List (String × String)) : Option Font := do
  let n ← (getField fs "n").bind String.toNat?
  let nn ← (getField fs "nn").bind String.toNat?
  let names ← (getField fs "names").bind (parseNames nn)
  let kind ← getField fs "kind"
  let outl := if kind == "cff" then Outl.cff names else Outl.glyf n names
  let cm ← (getField fs "cmap").bind (parseCMap (getField fs "mac").isSome)
  let gsub ← (getField fs "gsub").bind parseGsub
  pure ⟨outl, cm, gsub⟩

def yn (b : Bool) : String := if b then "yes" else "no"

/-- D predicates on a names list produced by the real code -/
def completeP (n : Nat) (out : List Name) : Bool := out.length == n && out.all (· ≠ [])
def uniqueP (out : List Name) : Bool :=
  (List.range out.length).all fun i => (List.range i).all fun j => out.getD i [] ≠ out.getD j []
def notdefP (out : List Name) : Bool := out.head? == some notdef
/-- every existing name that is non-empty, not `.notdef`, and not a repetition of the name of an
earlier glyph (other than glyph 0) is kept -/
def keptP (init out : List Name) : Bool :=
  (List.range init.length).all fun i =>
    let nm := init.getD i []
    if i = 0 ∨ nm = [] ∨ nm = notdef ∨ ((init.take i).drop 1).contains nm then true
    else out.getD i [] == nm

/-- `nm` is `base` or `base.N` with N ≥ 1 written without leading zeros -/
def isVariantOf (base nm : Name) : Bool :=
  nm == base ||
  (let pre := base ++ ['.']
   pre.isPrefixOf nm &&
   (let rest := nm.drop pre.length
    rest ≠ [] && rest.all Char.isDigit &&
    (let t := Nat.ofDigitChars 10 rest 0
     decide (1 ≤ t) && variantName base t == nm)))

/-- `orn%03d` with number ≥ 1 -/
def isOrn (nm : Name) : Bool :=
  ['o', 'r', 'n'].isPrefixOf nm &&
  (let rest := nm.drop 3
   rest ≠ [] && rest.all Char.isDigit &&
   (let k := Nat.ofDigitChars 10 rest 0
    decide (1 ≤ k) && ornName k == nm))

/-- does subtable `s` explain the name `nm` of glyph `i`, given all final names `out`?
(statement of `C20_gsub_shape`: a variant of the name of a source glyph, or of the names of exactly
the components of one ligature rule joined by `_`) -/
def subExplains (out : List Name) (n i : Nat) (nm : Name) : Sub → Bool
  | .single1 cov d => cov.any fun o =>
      (o + d) % 65536 == i && decide (o < n) && out.getD o [] ≠ [] && isVariantOf (out.getD o []) nm
  | .single2 cov subst => cov.any fun p =>
      subst[p.2]? == some i && decide (p.1 < n) && out.getD p.1 [] ≠ [] && isVariantOf (out.getD p.1 []) nm
  | .alt cov alts => cov.any fun p =>
      (alts.getD p.2 []).contains i && decide (p.1 < n) && out.getD p.1 [] ≠ [] &&
        isVariantOf (out.getD p.1 []) nm
  | .lig cov repl => cov.any fun p =>
      decide (p.1 < n) && out.getD p.1 [] ≠ [] &&
      (repl.getD p.2 []).any fun l =>
        l.2 == i && l.1.all (fun g => decide (g < n)) &&
          isVariantOf (joinU (out.getD p.1 [] :: l.1.map fun g => out.getD g [])) nm
  | .other => false

/-- every name of the real output is accounted for by one of the sources of `C20_sources` /
`C20_gsub_shape`: glyph 0 `.notdef`, the existing name, `FromUnicode` of a code mapped to the glyph,
a GSUB-derived name of the right shape, or a numbered placeholder -/
def explainedP (f : Font) (fu : Nat → Name) (out : List Name) : Bool :=
  let n := f.outl.numGlyphs
  let init := f.outl.initNames
  let codes : List Nat := match f.cmap with
    | none => []
    | some c => List.range' c.lo (c.hi + 1 - c.lo)
  (List.range n).all fun i =>
    let nm := out.getD i []
    (i == 0 && nm == notdef) ||
    (nm ≠ [] && nm == init.getD i []) ||
    (match f.cmap with
      | none => false
      | some c => codes.any fun code => c.lookup code == i && fu code == nm && nm ≠ []) ||
    f.gsub.any (subExplains out n i nm) ||
    isOrn nm

/-- glyph `o` had its name before the GSUB pass: glyph 0, its existing name, or the cmap name of a
code mapped to it (a name once in `used` is never handed out again, so this is exact) -/
def namedEarly (f : Font) (fu : Nat → Name) (out : List Name) (o : Nat) : Bool :=
  let nm := out.getD o []
  o == 0 || (nm ≠ [] && nm == f.outl.initNames.getD o []) ||
  (match f.cmap with
    | none => false
    | some c => (List.range' c.lo (c.hi + 1 - c.lo)).any fun code =>
        c.lookup code == o && fu code == nm && nm ≠ [])

/-- is there a rule of `s` that derives glyph `i` from glyphs that all pass `early`? -/
def subDerives (early : Nat → Bool) (n i : Nat) : Sub → Bool
  | .single1 cov d => cov.any fun o => (o + d) % 65536 == i && decide (o < n) && early o
  | .single2 cov subst => cov.any fun p => subst[p.2]? == some i && decide (p.1 < n) && early p.1
  | .alt cov alts => cov.any fun p => (alts.getD p.2 []).contains i && decide (p.1 < n) && early p.1
  | .lig cov repl => cov.any fun p =>
      decide (p.1 < n) && early p.1 &&
      (repl.getD p.2 []).any fun l => l.2 == i && l.1.all fun g => decide (g < n) && early g
  | .other => false

/-- "inferred before placeholder": a glyph with a numbered placeholder (not its existing name) is
not the target of any GSUB 1.1/1.2/3.1/4.1 rule whose source glyphs all had names before the
GSUB pass -/
def inferredP (f : Font) (fu : Nat → Name) (out : List Name) : Bool :=
  let n := f.outl.numGlyphs
  let early := fun o => namedEarly f fu out o
  (List.range n).all fun i =>
    !(isOrn (out.getD i []) && !early i) || !(f.gsub.any (subDerives early n i))

/-- "inferred from the character map before placeholders": a glyph that ends with a numbered
placeholder (not its existing name) has no cmap entry whose `FromUnicode` name was still free —
every such name is empty or is the name of some glyph of the result (names in `used` at the time
of the cmap pass all remain names of the result) -/
def cmapFirstP (f : Font) (fu : Nat → Name) (out : List Name) : Bool :=
  let n := f.outl.numGlyphs
  match f.cmap with
  | none => true
  | some c =>
    let codes := List.range' c.lo (c.hi + 1 - c.lo)
    (List.range n).all fun i =>
      !(isOrn (out.getD i []) && !namedEarly f fu out i) ||
      codes.all fun code => c.lookup code != i || fu code == [] || out.contains (fu code)

/-- a legal glyph name (Adobe glyph list specification: at most 31 characters from
`A-Z a-z 0-9 . _`, not starting with a digit or a period; `.notdef` is the exception) -/
def safeName (nm : Name) : Bool :=
  nm == notdef ||
  (decide (1 ≤ nm.length) && decide (nm.length ≤ 31) &&
   nm.all (fun c => c.isAlphanum || c == '.' || c == '_') &&
   !(nm.head?.any fun c => c.isDigit || c == '.'))

def prefixes : List String := ["gnames."]

def handle (op : String) (fs : List (String × String)) : String :=
  if op == "gnames.make" then
    match parseFont fs, (getField fs "fu").bind parseNameTab with
    | some f, some fu =>
      let tab := fu.toArray
      match makeGlyphNames (nameTabFn tab) f with
      | some r => showNames r
      | none => "panic"
    | _, _ => "bad-case"
  else if op == "gnames.ensure" then
    -- EnsureGlyphNames, then the names read back, then MakeGlyphNames again
    match parseFont fs, (getField fs "fu").bind parseNameTab with
    | some f, some fu =>
      let tab := fu.toArray
      match makeGlyphNames (nameTabFn tab) f with
      | some r =>
        let f2 : Font := { f with outl := f.outl.install r }
        match makeGlyphNames (nameTabFn tab) f2 with
        | some r2 => showNames f2.outl.initNames ++ ";" ++ showNames r2
        | none => "panic"
      | none => "panic"
    | _, _ => "bad-case"
  else if op == "gnames.cffmake" then
    match (getField fs "nn").bind String.toNat? with
    | none => "bad-case"
    | some nn =>
    match (getField fs "names").bind (parseNames nn), (getField fs "text").bind parseNameTab,
        (getField fs "invalid").bind (fun s => parseNames (if s.isEmpty then 0 else 1) s) with
    | some names, some text, some inv =>
      let tab := text.toArray
      let textBase := fun g => (tab.find? (·.1 == g)).map (·.2)
      match cffMakeNames (fun nm => nm != [] && !inv.contains nm) textBase names with
      | some r => showNames r
      | none => "panic"
    | _, _, _ => "bad-case"
  else if op == "gnames.readback" then
    -- direct check run by the harness on the real code (C20_install, C20_stable_again, C20_unique)
    "ok"
  else if op == "gnames.pure" then
    -- direct check run by the harness on the real code: the query neither changes the font nor
    -- returns memory shared with it (the model is a function of the font's value)
    "ok"
  else if op == "gnames.stable" then
    -- direct check run by the harness on the real code: repeated calls agree (C20_stable_order, C20_stable_again)
    "ok"
  else if op == "gnames.cffstable" then
    -- direct check run by the harness on the real MakeSimple (valid, unique, stable)
    "ok"
  else if op == "gnames.cmapfirst" then
    match parseFont fs, (getField fs "fu").bind parseNameTab, (getField fs "on").bind String.toNat? with
    | some f, some fu, some on =>
      match (getField fs "out").bind (parseNames on) with
      | some out => let tab := fu.toArray; yn (cmapFirstP f (nameTabFn tab) out)
      | none => "bad-case"
    | _, _, _ => "bad-case"
  else if op == "gnames.inferred" then
    match parseFont fs, (getField fs "fu").bind parseNameTab, (getField fs "on").bind String.toNat? with
    | some f, some fu, some on =>
      match (getField fs "out").bind (parseNames on) with
      | some out => let tab := fu.toArray; yn (inferredP f (nameTabFn tab) out)
      | none => "bad-case"
    | _, _, _ => "bad-case"
  else if op == "gnames.explained" then
    match parseFont fs, (getField fs "fu").bind parseNameTab, (getField fs "on").bind String.toNat? with
    | some f, some fu, some on =>
      match (getField fs "out").bind (parseNames on) with
      | some out => let tab := fu.toArray; yn (explainedP f (nameTabFn tab) out)
      | none => "bad-case"
    | _, _, _ => "bad-case"
  else if op == "gnames.pschars" then
    -- direct predicate evaluated by the harness on the real PostScriptName(): C20_psname says "ok"
    "ok"
  else if op == "gnames.psname" then
    match (getField fs "family").bind fromHex, (getField fs "sub").bind fromHex with
    | some fam, some sub =>
      let s : List Nat := (fam ++ [(45 : UInt8)] ++ sub).map UInt8.toNat
      toHex ((psFilter Gen.psNameKeep s).map UInt8.ofNat)
    | _, _ => "bad-case"
  else
    match (getField fs "on").bind String.toNat? with
    | none => "bad-case"
    | some on =>
    match (getField fs "out").bind (parseNames on) with
    | none => "bad-case"
    | some out =>
      if op == "gnames.complete" then
        match (getField fs "n").bind String.toNat? with
        | some n => yn (completeP n out)
        | none => "bad-case"
      else if op == "gnames.unique" then yn (uniqueP out)
      else if op == "gnames.safe" then yn (out.all safeName)
      else if op == "gnames.notdef" then yn (notdefP out)
      else if op == "gnames.cffkept" then
        -- MakeSimple analogue of `kept` (C20_makesimple_kept): valid first-occurrence names stay
        match (getField fs "in").bind String.toNat? with
        | none => "bad-case"
        | some inn =>
          match (getField fs "init").bind (parseNames inn),
              (getField fs "invalid").bind (fun s => parseNames (if s.isEmpty then 0 else 1) s) with
          | some init, some inv =>
            yn ((List.range init.length).all fun i =>
              let nm := init.getD i []
              if i = 0 ∨ nm = [] ∨ inv.contains nm ∨ nm = notdef ∨ ((init.take i).drop 1).contains nm then true
              else out.getD i [] == nm)
          | _, _ => "bad-case"
      else if op == "gnames.kept" then
        match (getField fs "in").bind String.toNat? with
        | none => "bad-case"
        | some inn =>
          match (getField fs "init").bind (parseNames inn) with
          | some init => yn (keptP init out)
          | none => "bad-case"
      else "bad-op"

end SfntV.Drive.GNames
