import SfntV.Prelude.Bytes
import SfntV.Model.Conc

namespace SfntV.Drive.Conc
open SfntV SfntV.Conc

def prefixes : List String := ["conc."]

/-- `conc.pure op=<name> …` — prediction of the footprint table for the purity stream.
`conc.parallel ops=<a,b,…> threads=<N> …` — prediction of `C16_results` for N goroutines running
listed operations on one shared font ("equal": every result equals the sequential one).
`conc.race …` — the same under the race detector ("clean": equal results and no report). -/
def handle (op : String) (fs : List (String × String)) : String :=
  if op == "conc.pure" then
    match getField fs "op" with
    | some n => predictPure n
    | none => "bad-case"
  else if op == "conc.parallel" || op == "conc.race" then
    match getField fs "ops", (getField fs "threads").bind String.toNat? with
    | some os, some n =>
      let r := predictParallel (os.splitOn ",") n
      if op == "conc.race" && r == "equal" then "clean" else r
    | _, _ => "bad-case"
  else if op == "conc.hdrwrite" then
    if headerWriteFootprint.sharedWrites.isEmpty then "unchanged" else "changed"
  else if op == "conc.crossfont" then
    -- using one font (listed, confined operations only) cannot change what another font does:
    -- package-level state is part of the shared set that confined operations do not write
    if predictPure "layout" == "unchanged" && predictPure "findlookups" == "unchanged" then "equal" else "may-differ"
  else if op == "conc.selftest" then
    -- harness self-test (completeness of the snapshot the purity streams rely on): a planted write
    -- into any slice or map of the font graph changes the hash
    "complete"
  else if op == "conc.control" then
    -- positive control (diagnostic): a documented mutator must be seen by the hash
    match (getField fs "op").bind findAny with
    | some f => if f.sharedWrites.isEmpty then "unchanged" else "changed"
    | none => "unknown-op"
  else if op == "conc.racecontrol" then
    -- positive control (diagnostic): a hash-invisible write (same value) must be reported
    match getField fs "ops" with
    | some os =>
      if (os.splitOn ",").any (fun n => (findAny n).any (fun f => !f.sharedWrites.isEmpty)) then "race"
      else "clean"
    | none => "bad-case"
  else if op == "conc.raceinfo" then "info"
  else "unknown-op"

end SfntV.Drive.Conc
