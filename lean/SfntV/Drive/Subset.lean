import SfntV.Model.Subset
import SfntV.Prelude.Bytes

/-!
Line-protocol handlers for area `subset` (C10).
`subset.run`      V  model of `(*Font).Subset` under the iteration order recovered from `order=`
`subset.again`    D  second Subset call on the same font value = model on the original font
`subset.indep`    D  Font.Subset result rendered after the caller overwrote its glyph slice = model
`subset.indepcff` D  the same for (*cff.Outlines).Subset
`subset.check`    D  the property's clauses evaluated directly on the Go result `res=`
`subset.writable` V  can the subset be written (CFF encoding contiguity) and how many glyphs come back
`subset.cffrun`   V  (*cff.Outlines).Subset called directly, against the SubsetCFF model
`subset.encrt`    D  built-in encoding of the subset after Write+Read, code by code, against the property
`subset.mustwrite` D the property's claim: every subset can be written and read back (known finding replay)
-/
namespace SfntV.Drive.Subset
open SfntV SfntV.Subset

def tail1 (s : String) : String := String.ofList (s.toList.drop 1)

def natsSep (sep : String) (s : String) : Option (List Nat) :=
  if s.isEmpty then some [] else (s.splitOn sep).mapM String.toNat?

def intsSep (sep : String) (s : String) : Option (List Int) :=
  if s.isEmpty then some [] else (s.splitOn sep).mapM String.toInt?

def listSep (sep : String) (s : String) : List String :=
  if s.isEmpty then [] else s.splitOn sep

/-- `a-b` -/
def pair2 (s : String) : Option (Nat × Nat) :=
  match s.splitOn "-" with
  | [a, b] => do pure (← a.toNat?, ← b.toNat?)
  | _ => none

def parseCMapEntries (s : String) : Option CMap := (listSep "." s).mapM pair2

def parseCMaps (s : String) : Option (Option (List (String × CMap))) :=
  if s == "-" then some none else do
    let l ← (listSep "/" s).mapM fun t =>
      match t.splitOn ":" with
      | [k, es] => do pure (k, ← parseCMapEntries es)
      | _ => none
    pure (some l)

def parseLig (s : String) : Option Lig :=
  match s.splitOn ">" with
  | [ins, out] => do pure (← natsSep "." ins, ← out.toNat?)
  | _ => none

def parseEntry (s : String) : Option (Gid × List Lig) :=
  match s.splitOn ":" with
  | [f, ls] => do pure (← f.toNat?, ← (listSep "_" ls).mapM parseLig)
  | _ => none

def parseGsubSub (s : String) : Option GsubSub :=
  if s.startsWith "s" then
    match (tail1 s).splitOn ":" with
    | [d, cov] => do pure (.single (← natsSep "." cov) (← d.toNat?))
    | _ => none
  else if s.startsWith "l" then do
    pure (.ligs (← (listSep "~" (tail1 s)).mapM parseEntry))
  else none

def triple (s : String) : Option (Nat × Nat × Nat) :=
  match s.splitOn "-" with
  | [a, b, c] => do pure (← a.toNat?, ← b.toNat?, ← c.toNat?)
  | _ => none

def parsePairs (s : String) : Option Pairs :=
  if s.startsWith "p" then (listSep "." (tail1 s)).mapM triple else none

def parseLayout (sub : String → Option σ) (s : String) : Option (Option (Layout σ)) :=
  if s == "-" then some none else
  match s.splitOn "|" with
  | [fs, ls] => do
    let feats ← (listSep "," fs).mapM fun f =>
      if f.startsWith "F" then natsSep "." (tail1 f) else none
    let lookups ← (listSep "/" ls).mapM fun l =>
      if l.startsWith "L" then (listSep "+" (tail1 l)).mapM sub else none
    pure (some ⟨feats, lookups⟩)
  | _ => none

def parseComps (s : String) : Option (List (Nat × List Nat)) :=
  (listSep ";" s).mapM fun t =>
    match t.splitOn ":" with
    | [g, cs] => do pure (← g.toNat?, ← natsSep "." cs)
    | _ => none

def optNats (s : String) : Option (Option (List Nat)) :=
  if s == "-" then some none else (natsSep "," s).map some

def parseFont (fs : List (String × String)) : Option Font := do
  let kind ← getField fs "kind"
  let n ← (getField fs "n").bind String.toNat?
  let w ← intsSep "," ((getField fs "w").getD "")
  let nm ← optNats ((getField fs "nm").getD "-")
  let comps ← parseComps ((getField fs "comps").getD "")
  let cmaps ← parseCMaps ((getField fs "cmaps").getD "-")
  let np := ((getField fs "np").bind String.toNat?).getD 0
  -- private-dict id of every FD (`pv=`; FDs with equal ids share one dictionary); default identity
  let pv := ((getField fs "pv").bind (natsSep ",")).getD (List.range np)
  let fd ← natsSep "," ((getField fs "fd").getD "")
  let encS := (getField fs "enc").getD "-"
  let enc ← if encS == "-" then some none else (parseCMapEntries encS).map some
  let cid ← optNats ((getField fs "cid").getD "-")
  let gsub ← parseLayout parseGsubSub ((getField fs "gsub").getD "-")
  let gpos ← parseLayout parsePairs ((getField fs "gpos").getD "-")
  let glyphs := (List.range n).map fun i =>
    ({ payload := i, comps := (comps.lookup i).getD [], width := w.getD i 0,
       name := (nm.getD []).getD i 0 } : Glyph)
  pure {
    isCFF := kind != "ttf"
    glyphs := glyphs
    hasNames := kind != "ttf" || nm.isSome
    cmaps := cmaps
    privates := pv
    matrices := if kind == "cid" then List.range np else []
    cidKeyed := kind == "cid"
    fdSelect := fd
    encoding := enc.map fun es => (List.range 256).map fun c => (es.lookup c).getD 0
    gidToCID := cid
    gsub := gsub
    gpos := gpos }

/-! ### printing -/

def dots (l : List Nat) : String := ".".intercalate (l.map toString)

def keyNums (k : String) : List Nat := (k.splitOn ".").map fun x => x.toNat?.getD 0

def lexLe : List Nat → List Nat → Bool
  | [], _ => true
  | _ :: _, [] => false
  | a :: as, b :: bs => a < b || (a == b && lexLe as bs)

def showCMapEntries (c : CMap) : String :=
  let c := (c.filter fun e => e.2 != 0).mergeSort fun a b => a.1 ≤ b.1
  ".".intercalate (c.map fun e => s!"{e.1}-{e.2}")

def showCMaps : Option (List (String × CMap)) → String
  | none => "-"
  | some t =>
    let t := t.mergeSort fun a b => lexLe ((keyNums a.1).take 3) ((keyNums b.1).take 3)
    "/".intercalate (t.map fun kc => kc.1 ++ ":" ++ showCMapEntries kc.2)

def showLig (l : Lig) : String := dots l.1 ++ ">" ++ toString l.2

def showGsubOut : GsubOut → String
  | .multi m =>
    let m := m.mergeSort fun a b => a.1 ≤ b.1
    "m" ++ ".".intercalate (m.map fun e => s!"{e.1}-{e.2}")
  | .ligs es =>
    let es := es.mergeSort fun a b => a.1 ≤ b.1
    "l" ++ "~".intercalate (es.map fun e => toString e.1 ++ ":" ++ "_".intercalate (e.2.map showLig))

def showPairs (ps : Pairs) : String :=
  let ps := ps.mergeSort fun a b => lexLe [a.1, a.2.1] [b.1, b.2.1]
  "p" ++ ".".intercalate (ps.map fun p => s!"{p.1}-{p.2.1}-{p.2.2}")

def showLayout (sub : σ → String) : Option (Layout σ) → String
  | none => "-"
  | some l =>
    ",".intercalate (l.features.map fun f => "F" ++ dots f) ++ "|" ++
    "/".intercalate (l.lookups.map fun subs => "L" ++ "+".intercalate (subs.map sub))

def showEnc : Option (List Gid) → String
  | none => "-"
  | some e => showCMapEntries ((List.range e.length).zip e)

def showOptNats : Option (List Nat) → String
  | none => "-"
  | some l => natsToString l

def showGlyph (hasNames : Bool) (g : Glyph) : String :=
  s!"{g.payload}:{g.width}:" ++ (if hasNames then toString g.name else "-") ++ ":" ++ dots g.comps

def showSub (s : Sub) : String :=
  "G@" ++ ",".intercalate (s.glyphs.map (showGlyph s.hasNames)) ++
  ";C@" ++ showCMaps s.cmaps ++
  ";P@" ++ natsToString s.privates ++
  ";M@" ++ natsToString s.matrices ++
  ";FD@" ++ natsToString s.fdSelect ++
  ";E@" ++ showEnc s.encoding ++
  ";CID@" ++ showOptNats s.gidToCID ++
  ";GS@" ++ showLayout showGsubOut s.gsub ++
  ";GP@" ++ showLayout showPairs s.gpos

/-! ### recovering an iteration order from the glyph order Go produced -/

def posIn (order : List Gid) (g : Gid) : Nat := (order.idxOf g)

/-- rules sorted (stably) by where their output sits in the target order -/
def ruleOrder (order : List Gid) (l : List Rule) : List Rule :=
  l.mergeSort fun a b => posIn order (a.outs.headD 0) ≤ posIn order (b.outs.headD 0)

/-- the glyphs a pop of `p` would append -/
def wouldAdd (f : Font) (s : St) (p : Gid) : List Gid :=
  ((addComps s [] (f.glyph p).comps).1.glyphs).drop s.glyphs.length

/-- greedy choice of the next key `pop` must have returned: first keys that append nothing, then
the key whose appended glyphs are the shortest non-empty prefix of what the target order wants next -/
def findPops (f : Font) (target : Option (List Gid)) : Nat → St → List Gid → List Gid
  | 0, _, _ => []
  | fuel + 1, s, todo =>
    match todo with
    | [] => []
    | t0 :: _ =>
      let p :=
        match todo.find? (fun p => (wouldAdd f s p).isEmpty) with
        | some p => p
        | none =>
          match target with
          | none => t0
          | some tgt =>
            let rest := tgt.drop s.glyphs.length
            let cands := todo.filter fun p => (wouldAdd f s p).isPrefixOf rest
            match cands.mergeSort (fun a b => (wouldAdd f s a).length ≤ (wouldAdd f s b).length) with
            | c :: _ => c
            | [] => t0
      let r := addComps s (todo.filter (· != p)) (f.glyph p).comps
      p :: findPops f target fuel r.1 r.2

/-- the `pop` sequences of the successive rounds of the outer loop, recovered greedily -/
def findIters (f : Font) (ro : List Rule → List Rule) (target : Option (List Gid)) :
    Nat → St → List (List Gid)
  | 0, _ => []
  | fuel + 1, s =>
    let s1 : St := match f.gsub with
      | none => s
      | some l => (gsubClose ro s l).getD s
    let pops := if f.isCFF then [] else
      findPops f target (2 * (f.glyphs.length + s1.glyphs.length) + 4) s1 s1.glyphs
    let s2 : St := if f.isCFF then s1 else (closeGlyf f pops s1 s1.glyphs).getD s1
    if s2.glyphs.length = s.glyphs.length then [pops] else pops :: findIters f ro target fuel s2

def mkOrder (f : Font) (glyphs : List Gid) (target : Option (List Gid)) : Order :=
  let rules : List Rule → List Rule := match target with
    | some t => ruleOrder t
    | none => id
  let nRules := match f.gsub with
    | none => 0
    | some l => (rulesOf l).length
  let fuel := f.glyphs.length + nRules + (f.glyphs.map (·.comps.length)).sum + glyphs.length + 2
  ⟨fun _ => rules, findIters f rules target fuel (St.init glyphs)⟩

/-! ### the property's clauses, evaluated on a Go result (independent of the model) -/

structure Res where
  glyphs : List (Nat × Int × Option Nat × List Nat)   -- payload, width, name, comps (new ids)
  cmaps : String
  privates : List Nat
  matrices : List Nat
  fd : List Nat
  enc : String
  cid : String
  gs : String
  gp : String

def parseRes (s : String) : Option Res := do
  let secs := (s.splitOn ";").filterMap fun t =>
    match t.splitOn "@" with
    | [k, v] => some (k, v)
    | _ => none
  let gl ← (listSep "," ((getField secs "G").getD "")).mapM fun g =>
    match g.splitOn ":" with
    | [p, w, nm, cs] => do
      pure (← p.toNat?, ← w.toInt?, (if nm == "-" then none else nm.toNat?), ← natsSep "." cs)
    | _ => none
  pure {
    glyphs := gl
    cmaps := (getField secs "C").getD "?"
    privates := ← natsSep "," ((getField secs "P").getD "")
    matrices := ← natsSep "," ((getField secs "M").getD "")
    fd := ← natsSep "," ((getField secs "FD").getD "")
    enc := (getField secs "E").getD "?"
    cid := (getField secs "CID").getD "?"
    gs := (getField secs "GS").getD "?"
    gp := (getField secs "GP").getD "?" }

def idxIn (ord : List Gid) (g : Gid) : Option Nat :=
  let i := ord.idxOf g
  if i < ord.length then some i else none

/-- GSUB subtable as it should look in the subset, written from the property (a rule is kept iff
all its glyphs are in the subset; glyph ids are translated) -/
def specGsubSub (ord : List Gid) : GsubSub → Option GsubOut
  | .single cov d =>
    let m := cov.filterMap fun g =>
      match idxIn ord g, idxIn ord ((g + d) % 65536) with
      | some a, some b => some (a, b)
      | _, _ => none
    if m.isEmpty then none else some (.multi m)
  | .ligs es =>
    let es' := es.filterMap fun e =>
      match idxIn ord e.1 with
      | none => none
      | some nf =>
        let ls := e.2.filterMap fun lig =>
          match lig.1.mapM (idxIn ord), idxIn ord lig.2 with
          | some ins, some out => some (ins, out)
          | _, _ => none
        if ls.isEmpty then none else some (nf, ls)
    if es'.isEmpty then none else some (.ligs es')

def specPairs (ord : List Gid) (ps : Pairs) : Pairs :=
  ps.filterMap fun p =>
    match idxIn ord p.1, idxIn ord p.2.1 with
    | some l, some r => some (l, r, p.2.2)
    | _, _ => none

/-- first clause that fails, or none -/
def checkRes (f : Font) (glyphs : List Gid) (r : Res) : Option String :=
  let ord := r.glyphs.map (·.1)
  let n := f.glyphs.length
  if !(ord.all (· < n)) then some "payload-range" else
  if !(decide ord.Nodup) then some "duplicate-glyph" else
  if !(glyphs.isPrefixOf ord) then some "positions" else
  if !(r.glyphs.all fun g => g.2.1 == (f.glyph g.1).width &&
        (if f.hasNames then g.2.2.1 == some (f.glyph g.1).name else g.2.2.1 == none)) then
    some "width-name" else
  -- closure: components and outputs of applicable rules are present
  if !(ord.all fun o => (f.glyph o).comps.all ord.contains) then some "closure-components" else
  if !(match f.gsub with
       | none => true
       | some l => (rulesOf l).all fun ru => !(ru.ins.all ord.contains) || ru.outs.all ord.contains) then
    some "closure-ligatures" else
  -- extras are needed
  if !((ord.drop glyphs.length).all fun x =>
        (ord.any fun o => (f.glyph o).comps.contains x) ||
        (match f.gsub with
         | none => false
         | some l => (rulesOf l).any fun ru => ru.ins.all ord.contains && ru.outs.contains x)) then
    some "extras-needed" else
  -- components re-pointed
  if !(r.glyphs.all fun g =>
        (if f.isCFF then g.2.2.2 == [] else
          g.2.2.2.map (fun c => ord[c]?) == (f.glyph g.1).comps.map some)) then
    some "components" else
  -- cmap
  if !(showCMaps (f.cmaps.map fun t => t.map fun kc =>
        (kc.1, kc.2.filterMap fun e => (idxIn ord e.2).map fun i => (e.1, i))) == r.cmaps) then
    some "cmap" else
  -- CFF
  -- every glyph keeps its private dictionary and (CID) its font matrix; every font dictionary of the
  -- subset is used, and no (private dictionary, font matrix) pair occurs twice
  if f.isCFF && !(r.fd.length == ord.length &&
        ((List.range ord.length).all fun j =>
          r.privates[r.fd.getD j 0]? == some (f.privates.getD (f.fdSelect.getD (ord.getD j 0) 0) 0) &&
          (!f.cidKeyed ||
            r.matrices[r.fd.getD j 0]? == some (f.matrices.getD (f.fdSelect.getD (ord.getD j 0) 0) 0))) &&
        ((List.range r.privates.length).all fun k => r.fd.contains k || r.privates.length == 1) &&
        (if f.cidKeyed then decide (r.privates.zip r.matrices).Nodup else decide r.privates.Nodup)) then
    some "cff-private" else
  if f.isCFF && !(showOptNats (f.gidToCID.map fun t => ord.map fun o => t.getD o 0) == r.cid) then
    some "cff-cid" else
  if f.isCFF && !(showEnc (f.encoding.map fun e => e.map fun g => (idxIn ord g).getD 0) == r.enc) then
    some "cff-encoding" else
  -- layout
  if !(showLayout showPairs (f.gpos.map fun l =>
        ⟨l.features, l.lookups.map fun subs => subs.map (specPairs ord)⟩) == r.gp) then
    some "gpos" else
  if !(showLayout showGsubOut (f.gsub.map fun l =>
        ⟨l.features, l.lookups.map fun subs => subs.filterMap (specGsubSub ord)⟩) == r.gs) then
    some "gsub" else
  none

/-! ### handlers -/

@[noinline] def runModel (f : Font) (glyphs : List Gid) (target : Option (List Gid)) : Outcome Sub :=
  subset f glyphs (mkOrder f glyphs target)

def prefixes : List String := ["subset."]

def handle (op : String) (fs : List (String × String)) : String :=
  match parseFont fs, (getField fs "glyphs").bind (natsSep ",") with
  | some f, some glyphs =>
    if op == "subset.run" || op == "subset.again" || op == "subset.indep" then
      -- subset.indep: rendered after the caller's glyph slice was overwritten
      -- subset.again: the second of two Subset calls on the same font value; the model is a pure
      -- function of the font, so the expected result is the model's on the original font
      let target := match getField fs "order" with
        | some "-" => none
        | some o => natsSep "," o
        | none => none
      match runModel f glyphs target with
      | .ok s => showSub s
      | .err e => "err:" ++ e
      | .panic _ => "panic"
    else if op == "subset.check" then
      match (getField fs "res").bind parseRes with
      | none => "bad-res"
      | some r =>
        match checkRes f glyphs r with
        | none => "ok"
        | some c => "fail:" ++ c
    else if op == "subset.writable" then
      -- the order matters: where the appended extras land decides the encoding's contiguity
      let target := match getField fs "order" with
        | some "-" => none
        | some o => natsSep "," o
        | none => none
      match runModel f glyphs target with
      | .ok s =>
        match s.encoding with
        | some e => if encodingContiguous e then s!"ok:{s.glyphs.length}" else "err:encoding"
        | none => s!"ok:{s.glyphs.length}"
      | .err e => "err:" ++ e
      | .panic _ => "panic"
    else if op == "subset.cffrun" || op == "subset.indepcff" then
      -- (*cff.Outlines).Subset: same transfer as SubsetCFF, no cmap / layout tables, no closure
      if !f.isCFF then "not-cff" else
      match runModel { f with cmaps := none, gsub := none, gpos := none } glyphs none with
      | .ok s => showSub s
      | .err e => "err:" ++ e
      | .panic _ => "panic"
    else if op == "subset.encrt" then
      -- the property's clause on the built-in encoding after Write+Read, in OLD glyph ids: every
      -- code keeps the glyph it selected if that glyph is retained, every other code is unused
      -- (written from the property; the only use of the order is the writer's contiguity condition)
      match (getField fs "order").bind (natsSep ",") with
      | none => "bad-order"
      | some ord =>
        match f.encoding with
        | none => "E@-"
        | some e =>
          let e' := e.map fun g => (idxIn ord g).getD 0
          if !encodingContiguous e' then "err:encoding" else
          "E@" ++ showCMapEntries (((List.range e.length).zip e).filter fun cg =>
            ord.contains cg.2 && (idxIn ord cg.2).getD 0 != 0)
    else if op == "subset.mustwrite" then
      -- the property's claim "the subset can be written and read back", stated unconditionally
      match runModel f glyphs none with
      | .ok s => s!"ok:{s.glyphs.length}"
      | .err e => "err:" ++ e
      | .panic _ => "panic"
    else "bad-op"
  | _, _ => "bad-case"

end SfntV.Drive.Subset
