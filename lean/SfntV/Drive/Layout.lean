import SfntV.Model.LayoutFind
import SfntV.Model.LayoutKern
import SfntV.Model.LayoutLig
import SfntV.Model.LayoutPipe
import SfntV.Drive.Shape

namespace SfntV.Drive.Layout
open SfntV SfntV.Layout

def natList (sep : String) (s : String) : Option (List Nat) :=
  if s.isEmpty then some [] else (s.splitOn sep).mapM String.toNat?

def strOfHex (h : String) : Option String :=
  (fromHex h).map fun b => String.ofList (b.map fun x => Char.ofNat x.toNat)

/-- `<tag>:nil` or `<tag>:<required>:<o;o;..>`, records separated by `|` -/
def parseScripts (s : String) : Option (List (String × Option LangSys)) :=
  if s.isEmpty then some [] else
  (s.splitOn "|").mapM fun r =>
    match r.splitOn ":" with
    | [t, "nil"] => some (t, none)
    | [t, q, o] => do
      let q ← q.toNat?
      let o ← natList ";" o
      pure (t, some ⟨q, o⟩)
    | _ => none

/-- `<taghex>:<l;l;..>` separated by `|` -/
def parseFeats (s : String) : Option (List Feature) :=
  if s.isEmpty then some [] else
  (s.splitOn "|").mapM fun r =>
    match r.splitOn ":" with
    | [t, l] => do
      let t ← strOfHex t
      let l ← natList ";" l
      pure ⟨t, l⟩
    | _ => none

/-- `nil`, `-` (empty map) or `<taghex>:<0|1>,..` -/
def parseSw (s : String) : Option (Option (List (String × Bool))) :=
  if s == "nil" then some none
  else if s == "-" then some (some [])
  else
    ((s.splitOn ",").mapM fun (r : String) =>
      match r.splitOn ":" with
      | [t, v] => (strOfHex t).map fun t => (t, v == "1")
      | _ => none).map some

/-- `<a>:<b>,..` pairs of naturals -/
def parseNatMap (s : String) : Option (List (Nat × Nat)) :=
  if s.isEmpty || s == "-" then some [] else
  (s.splitOn ",").mapM fun r =>
    match r.splitOn ":" with
    | [a, b] => do
      let a ← a.toNat?
      let b ← b.toNat?
      pure (a, b)
    | _ => none

def constMatcher (c : Nat) : Matcher where
  pick l := if c < l.length then c else 0
  lt l h := by
    have : 0 < l.length := List.length_pos_iff.mpr h
    split <;> omega

structure FindCase where
  scripts : List (String × Option LangSys)
  feats : List Feature
  nl : Nat
  sw : Option (List (String × Bool))
  chosen : Nat

def parseFind (fs : List (String × String)) : Option FindCase := do
  let scripts ← (getField fs "scripts").bind parseScripts
  let feats ← (getField fs "feats").bind parseFeats
  let nl ← (getField fs "nl").bind String.toNat?
  let sw ← (getField fs "sw").bind parseSw
  let chosen ← (getField fs "chosen").bind String.toNat?
  pure ⟨scripts, feats, nl, sw, chosen⟩

/-- FindLookups itself does no defaulting: a nil map has no key -/
def swOfFind (c : FindCase) : String → Bool := switchFn (c.sw.getD [])

def pairLe (a b : Pair × Int) : Bool :=
  a.1.1 < b.1.1 || (a.1.1 == b.1.1 && a.1.2 ≤ b.1.2)

def showKMap (m : KMap) : String :=
  ",".intercalate ((m.mergeSort pairLe).map fun e => s!"{e.1.1}:{e.1.2}:{e.2}")

def showKErr : KErr → String
  | .io => "err:io"
  | .unsupported => "err:unsupported"
  | .invalid => "err:invalid"

/-- `<l>:<r>:<v>,..` -/
def parsePairs (s : String) : Option (List (Pair × Int)) :=
  if s.isEmpty then some [] else
  (s.splitOn ",").mapM fun r =>
    match r.splitOn ":" with
    | [a, b, v] => do
      let a ← a.toNat?
      let b ← b.toNat?
      let v ← v.toInt?
      pure ((a, b), v)
    | _ => none

/-- subtables `<version>:<format>:<flags>:<s1;s2;s3>:<pairs with / for , and . for :>` separated by `|` -/
def parseSubs (s : String) : Option (List KSub) :=
  if s.isEmpty then some [] else
  (s.splitOn "|").mapM fun r =>
    match r.splitOn "~" with
    | [ver, fmt, fl, se, ps] => do
      let ver ← ver.toNat?
      let fmt ← fmt.toNat?
      let fl ← fl.toNat?
      let se ← natList ";" se
      let ps ← parsePairs ps
      match se with
      | [s1, s2, s3] =>
        pure { version := ver, format := fmt, horizontal := fl % 2 == 1, minimum := fl / 2 % 2 == 1,
               crossStream := fl / 4 % 2 == 1, override := fl / 8 % 2 == 1, reserved := fl / 16,
               search := (s1, s2, s3), pairs := ps }
      | _ => none
    | _ => none

def i16ok (v : Int) : Bool := -32768 ≤ v && v ≤ 32767

/-- every prefix of the accumulation stays inside int16 for key `k` -/
def noOverflow (subs : List KSub) (k : Pair) : Bool :=
  (List.range (subs.length + 1)).all fun i => i16ok (kernSpec (subs.take i) k)

def showLigTable (t : List (Nat × List Lig)) : String :=
  "|".intercalate (t.map fun g =>
    s!"{g.1}:" ++ ";".intercalate (g.2.map fun l => ".".intercalate (l.rest.map toString) ++ s!">{l.out}"))

def showGlyphs (l : List Glyph) : String :=
  ";".intercalate (l.map fun g => s!"{g.gid}/" ++ ".".intercalate (g.text.map toString) ++ s!"/{g.adv}")

/-- `<gid>/<r.r.r>/<adv>;..` -/
def parseGlyphs (s : String) : Option (List Glyph) :=
  if s.isEmpty then some [] else
  (s.splitOn ";").mapM fun r =>
    match r.splitOn "/" with
    | [g, t, a] => do
      let g ← g.toNat?
      let t ← natList "." t
      let a ← a.toInt?
      pure ⟨g, t, a⟩
    | _ => none

def lookupNat (m : List (Nat × Nat)) (k : Nat) : Option Nat := (m.find? (·.1 == k)).map (·.2)

/-- `funit.Int16(font.GlyphWidth(gid))` from the transported table (gid → 16-bit pattern) -/
def widthFn (ng : Nat) (w : List (Nat × Nat)) : Nat → Int :=
  glyphWidth ng fun g => toI16 ((lookupNat w g).getD 0)

structure TextCase where
  fixed : Bool
  hasGsub : Bool      -- the file has its own (empty) GSUB table: nothing is synthesised
  hasGpos : Bool      -- the file has its own (empty) GPOS table: the kern table is not even read
  kern : Option Bytes
  cm : List (Nat × Nat)      -- rune → gid (the real cmap's answers for all runes involved)
  widths : List (Nat × Nat)  -- gid → advance (as uint16 pattern of funit.Int16), absent = out of range
  gsw : Option (List (String × Bool))
  psw : Option (List (String × Bool))
  text : List Nat
  ng : Nat

def parseText (fs : List (String × String)) : Option TextCase := do
  let fixed ← getField fs "fixed"
  let kern ← getField fs "kern"
  let kern ← if kern == "-" then some none else (fromHex kern).map some
  let cm ← (getField fs "map").bind parseNatMap
  let w ← (getField fs "w").bind parseNatMap
  let gsw ← (getField fs "gsw").bind parseSw
  let psw ← (getField fs "psw").bind parseSw
  let text ← (getField fs "text").bind (natList ",")
  let ng ← (getField fs "ng").bind String.toNat?
  let vs := ((getField fs "var").getD "-").splitOn "+"
  pure ⟨fixed == "1", vs.contains "gsub", vs.contains "gpos", kern, cm, w, gsw, psw, text, ng⟩

/-- the model of `sfnt.Read` (GSUB/GPOS synthesis) + `NewLayouter` + `Layout` for a font file without
GSUB, GPOS and GDEF tables.  The matcher is irrelevant: both synthesised script lists have one entry. -/
def runText (c : TextCase) : String :=
  let cmap : Nat → Nat := fun r => (lookupNat c.cm r).getD 0
  let m := constMatcher 0
  let gsub : Option (List Glyph → List Glyph) :=
    if c.hasGsub || c.fixed then none else
    match standardLigatures cmap with
    | none => none
    | some t =>
      let ll := findLookups m [("und-Latn-x-latn", some ligaLangSys)] ligaFeatures 1
        (switchFn (effective Gen.gsubDefaultFeatures c.gsw))
      some fun seq => if ll.contains 0 then applyLig t seq.length seq else seq
  let gposE : Except KErr (Option (List Glyph → List Glyph)) :=
    match (if c.hasGpos then none else c.kern) with
    | none => .ok none
    | some b =>
      match kernRead b with
      | .error e => .error e
      | .ok km =>
        let ll := findLookups m [("und-Zzzz-x-dflt", some kernLangSys)] kernFeatures 1
          (switchFn (effective Gen.gposDefaultFeatures c.psw))
        .ok (some fun seq => if ll.contains 0 then kernAdjust km seq else seq)
  match gposE with
  | .error e => showKErr e
  | .ok gpos =>
    "ok:" ++ showGlyphs (layout cmap gsub gpos (fun _ => false) (widthFn c.ng c.widths) c.text)

/-- the property's trivial case as a predicate on an observed output -/
def trivialOk (cm : Nat → Nat) (w : Nat → Int) (text : List Nat) (got : List Glyph) : Bool :=
  got.length == text.length &&
  (text.zip got).all fun (r, g) => g.gid == cm r && g.text == [r] && w g.gid == g.adv

/-! ### layout.pipeline: fonts with hand-built GSUB/GPOS/GDEF through the real engine model -/

/-- a lookup list / GDEF payload in the format of area `shape` (`-` = nil table) -/
def parseShapePayload (s : String) : Option (Option Drive.Shape.Case) :=
  if s == "-" then some none else do
    let ns ← parseNatList s
    match Drive.Shape.pCase ns with
    | some (c, []) => some (some c)
    | _ => none

/-- texts: strings separated by `;`, runes by `.` -/
def parseTexts (s : String) : Option (List (List Nat)) :=
  (s.splitOn ";").mapM (natList ".")

def parseGInfo (fs : List (String × String)) (pre : String) : Option (Option GInfo × Nat) := do
  let pl ← (getField fs (pre ++ "tab")).bind parseShapePayload
  let chosen ← (getField fs (pre ++ "chosen")).bind String.toNat?
  match pl with
  | none => pure (none, chosen)
  | some c =>
    let scripts ← (getField fs (pre ++ "scripts")).bind parseScripts
    let feats ← (getField fs (pre ++ "feats")).bind parseFeats
    pure (some ⟨scripts, feats, c.ll⟩, chosen)

@[noinline] def runPipeline (fs : List (String × String)) : Option String := do
  let (gi, gch) ← parseGInfo fs "g"
  let (pi, pch) ← parseGInfo fs "p"
  let gdc ← (getField fs "gdef").bind parseShapePayload
  let gd : Shape.Gdef := match gdc with
    | some c => c.gd
    | none => {}
  let gsw ← (getField fs "gsw").bind parseSw
  let psw ← (getField fs "psw").bind parseSw
  let cm ← (getField fs "map").bind parseNatMap
  let w ← (getField fs "w").bind parseNatMap
  let ng ← (getField fs "ng").bind String.toNat?
  let texts ← (getField fs "texts").bind parseTexts
  let gsub := mkCtx (constMatcher gch) Gen.gsubDefaultFeatures gi gsw
  let gpos := mkCtx (constMatcher pch) Gen.gposDefaultFeatures pi psw
  let outs := layoutHistory Gen.shapeNestedBudget (fun r => (lookupNat cm r).getD 0) gsub gpos gd
    (widthFn ng w) {} texts
  pure ("|".intercalate (outs.map fun o =>
    match o with
    | .ok seq => "ok:" ++ Drive.Shape.showSeq seq
    | .err e => "err:" ++ e
    | .panic _ => "panic"))

def prefixes : List String := ["layout."]

def handle (op : String) (fs : List (String × String)) : String :=
  if op == "layout.find" then
    match parseFind fs with
    | some c => natsToString (findLookups (constMatcher c.chosen) c.scripts c.feats c.nl (swOfFind c))
    | none => "bad-case"
  else if op == "layout.find.det" then
    "distinct=1"
  else if op == "layout.find.post" then
    match parseFind fs, (getField fs "got").bind (natList ",") with
    | some c, some got =>
      if c.scripts.isEmpty then (if got.isEmpty then "ok" else "bad:nonempty")
      else
        match chosen (constMatcher c.chosen) c.scripts (sortedTags c.scripts) with
        | none => if got.isEmpty then "ok" else "bad:nonempty"
        | some ls => if postOk c.feats c.nl (swOfFind c) ls got then "ok" else "bad:post"
    | _, _ => "bad-case"
  else if op == "layout.kern.read" then
    match (getField fs "data").bind fromHex with
    | some b =>
      match kernRead b with
      | .ok m => "ok:" ++ showKMap m
      | .error e => showKErr e
    | none => "bad-case"
  else if op == "layout.kern.spec" then
    match (getField fs "subs").bind parseSubs, (getField fs "data").bind fromHex,
          (getField fs "got").bind parsePairs with
    | some subs, some data, some got =>
      if encKern subs != data then "bad:encoding"
      else
        let keys := (subs.flatMap fun s => s.pairs.map (·.1)) ++ got.map (·.1)
        if !(keys.all (noOverflow subs)) then "outside:overflow"
        else if keys.all fun k => kernSpec subs k == mget got k then "ok" else "bad:value"
    | _, _, _ => "bad-case"
  else if op == "layout.kern.big" then
    -- D: a format 0 subtable listing n distinct pairs (pair i = (i/200, i%200+300) ↦ i%97−48) yields n
    -- kerning values, however large n is (the 16-bit length field cannot bound nPairs: for n > 10920
    -- it only holds 14+6n mod 65536); sampled values must be the listed ones
    match (getField fs "n").bind String.toNat? with
    | some n =>
      let samples := ([0, 1, 199, 200, n / 2, 10918, 10919, 10920, 10921] ++
        (if n ≥ 2 then [n - 2] else []) ++ (if n ≥ 1 then [n - 1] else [])).filter (· < n)
      s!"count={n};" ++ ",".intercalate (samples.map fun i => s!"{i}:{((i % 97 : Nat) : Int) - 48}")
    | none => "bad-case"
  else if op == "layout.kern.ximage" then
    -- independent implementation vs SPEC: the answers expected from x/image's Kern for the pairs asked
    match (getField fs "subs").bind parseSubs, (getField fs "kern").bind fromHex,
          (getField fs "pairs").bind parseNatMap with
    | some subs, some data, some pairs =>
      if encKern subs != data then "bad:encoding"
      else ",".intercalate (pairs.map fun p => s!"{p.1}:{p.2}:{kernSpec subs p}")
    | _, _, _ => "bad-case"
  else if op == "layout.lig" then
    match (getField fs "map").bind parseNatMap with
    | some cm =>
      match standardLigatures (fun r => (lookupNat cm r).getD 0) with
      | none => "nil"
      | some t => s!"req={ligaLangSys.required};opt={natsToString ligaLangSys.optional};" ++ showLigTable t
    | none => "bad-case"
  else if op == "layout.text" || op == "layout.textd" then
    match parseText fs with
    | some c => runText c
    | none => "bad-case"
  else if op == "layout.pipeline" then
    (runPipeline fs).getD "bad-case"
  else if op == "layout.ligd" then
    -- D: proportional (by widths) ∧ no GSUB ∧ liga enabled ⇒ the standard ligatures whose glyphs are
    -- mapped are applied, longest first: glyph ids and texts of the real output must be those of
    -- the SPEC `specLigApply` (longest match first, independent of the order of the source table)
    match (getField fs "map").bind parseNatMap, (getField fs "text").bind (natList ","),
          (getField fs "got").bind parseGlyphs with
    | some cm, some text, some got =>
      let cmap : Nat → Nat := fun r => (lookupNat cm r).getD 0
      let seq0 : List Glyph := text.map fun r => ⟨cmap r, [r], 0⟩
      let want := specLigApply (specCands cmap) seq0.length seq0
      if want.map (fun g => (g.gid, g.text)) == got.map (fun g => (g.gid, g.text)) then "ok" else "bad"
    | _, _, _ => "bad-case"
  else if op == "layout.kernadv" then
    -- D: kern-only font: advance of every glyph = hmtx width + SPEC kern value of (glyph, next glyph)
    match (getField fs "subs").bind parseSubs, (getField fs "kern").bind fromHex,
          (getField fs "gids").bind (natList ","), (getField fs "w").bind parseNatMap,
          (getField fs "ng").bind String.toNat? with
    | some subs, some data, some gids, some w, some ng =>
      if encKern subs != data then "bad:encoding"
      else
        let width := widthFn ng w
        let rec go : List Nat → List String
          | a :: b :: r => s!"{a}/{wrap16 (width a + kernSpec subs (a, b))}" :: go (b :: r)
          | [a] => [s!"{a}/{width a}"]
          | [] => []
        "ok:" ++ ";".intercalate (go gids)
    | _, _, _, _, _ => "bad-case"
  else if op == "layout.alias" then
    -- D: feature records sharing a feature table (OpenType: "offset to Feature table" per record): each
    -- record keeps its OWN tag and has the lookups of the table it points to; lookup k substitutes
    -- src[k] -> src[k]+300
    match parseFind fs, (getField fs "alias").bind parseNatMap, (getField fs "src").bind (natList ","),
          (getField fs "gids").bind (natList ",") with
    | some c, some alias, some src, some gids =>
      let feats := (List.range c.feats.length).zip c.feats |>.map fun (j, f) =>
        match alias.find? (·.1 == j) with
        | some a => (⟨f.tag, (c.feats[a.2]?.map (·.lookups)).getD []⟩ : Feature)
        | none => f
      let ll := findLookups (constMatcher c.chosen) c.scripts feats c.nl
        (switchFn (effective Gen.gsubDefaultFeatures c.sw))
      let out := gids.map fun g =>
        if ((List.range src.length).zip src).any (fun (k, sg) => sg == g && ll.contains k) then g + 300 else g
      s!"lookups={natsToString ll};gids={natsToString out}"
    | _, _, _, _ => "bad-case"
  else if op == "layout.trivial" then
    match (getField fs "map").bind parseNatMap, (getField fs "w").bind parseNatMap,
          (getField fs "text").bind (natList ","), (getField fs "got").bind parseGlyphs,
          (getField fs "ng").bind String.toNat? with
    | some cm, some w, some text, some got, some ng =>
      if trivialOk (fun r => (lookupNat cm r).getD 0) (widthFn ng w) text got then "ok" else "bad"
    | _, _, _, _, _ => "bad-case"
  else "bad-op"

end SfntV.Drive.Layout
