import SfntV.Model.TotalCmapDir
import SfntV.Model.Cmap4
import SfntV.Model.Cmap12

/-!
Line protocol of the checked-index models of the cmap directory group (property C02, ops
`tmcmapdir.*`, all verdict lines: the model's outcome must equal the real decoder's).

* `tmcmapdir.decode bytes=<hex>` → `ok:<p.e.l:len:hash;…>` (last write per key, keys sorted) |
  `err:<class>` | `panic`
* `tmcmapdir.get bytes=<hex> key=p.e.l` → `err:decode` | `err:<nosuch|macenc|unsupported|sub>` |
  `ok:f0:0:255` | `ok:m16:<low>:<high>` | `ok:ext<format>` | `panic`
* `tmcmapdir.f0 bytes=<hex> [mac=0]` → `ok:<hex of the 256 bytes>` | `err` | `panic`;
  `tmcmapdir.f0 bytes=<hex> mac=1` (Macintosh branch, bytes start with 0000) → `ok:<code:gid,…>` | `err` | `panic`
* `tmcmapdir.f6 bytes=<hex> mac=<0|1>` → `ok:<code:gid,…>` | `err` | `panic`
* `tmcmapdir.lookup0 data=<hex> r=<int>` → glyph (0 for negative runes and runes > 255); `tmcmapdir.lookup16 map=<c:g,…> r=<int>`
* `tmcmapdir.formats` → the keys of `decoders`, ascending
-/
namespace SfntV.Drive.TotalCmapDir
open SfntV SfntV.Total SfntV.Total.CmapDir
open SfntV.CmapTable (Key Table tableGet)

def prefixes : List String := ["tmcmapdir."]

def keyLe (a b : Key) : Bool :=
  a.p < b.p || (a.p == b.p && (a.e < b.e || (a.e == b.e && a.l ≤ b.l)))

def showKey (k : Key) : String := s!"{k.p}.{k.e}.{k.l}"

def hash (d : Bytes) : Nat := d.foldl (fun h x => (h * 31 + x.toNat) % 1000000007) 7

/-- canonical form of a decoded table: last write per key, sorted by key -/
def showTab (t : Table) : String :=
  let keys := ((t.map (·.1)).mergeSort keyLe).eraseDups
  ";".intercalate (keys.filterMap fun k =>
    (tableGet t k).map fun d => s!"{showKey k}:{d.length}:{hash d}")

def parseKey (s : String) : Option Key :=
  match s.splitOn "." with
  | [a, b, c] => do pure ⟨← a.toNat?, ← b.toNat?, ← c.toNat?⟩
  | _ => none

def parsePairs (s : String) : Option (List (Nat × Nat)) :=
  if s.isEmpty then some [] else
  (s.splitOn ",").mapM fun p =>
    match p.splitOn ":" with
    | [a, b] => do pure ((← a.toNat?), (← b.toNat?))
    | _ => none

/-- last write per key, ascending keys -/
def canonWrites (w : List (Nat × Nat)) : List (Nat × Nat) :=
  let arr := w.foldl (fun (a : Array Nat) p => if p.1 < a.size then a.set! p.1 p.2 else a)
    (Array.replicate 65536 0)
  (List.range 65536).filterMap fun c => if arr.getD c 0 ≠ 0 then some (c, arr.getD c 0) else none

def showPairs (l : List (Nat × Nat)) : String :=
  ",".intercalate (l.map fun p => s!"{p.1}:{p.2}")

def dec4 : Dec Sub := fun d _ =>
  match Cmap4.decode d with
  | some _ => .ok (.ext 4)
  | none => .err "malformed-subtable"

def dec12 : Dec Sub := fun d mac =>
  match Cmap12.decode d mac with
  | .ok _ => .ok (.ext 12)
  | .error _ => .err "malformed-subtable"

def showSub : Outcome Sub → String
  | .ok (.f0 _) => s!"ok:f0:{codeRange0.1}:{codeRange0.2}"
  | .ok (.m16 w) => let r := codeRange16 w; s!"ok:m16:{r.1}:{r.2}"
  | .ok (.ext f) => s!"ok:ext{f}"
  | .err e => if e == "nosuch" ∨ e == "macenc" ∨ e == "unsupported" then "err:" ++ e else "err:sub"
  | .panic _ => "panic"

def handle (op : String) (fs : List (String × String)) : String :=
  if op == "tmcmapdir.decode" then
    match (getField fs "bytes").bind fromHex with
    | some b =>
      match decode b with
      | .ok (t, _) => "ok:" ++ showTab t
      | .err e => "err:" ++ e
      | .panic _ => "panic"
    | none => "bad-case"
  else if op == "tmcmapdir.get" then
    match (getField fs "bytes").bind fromHex, (getField fs "key").bind parseKey with
    | some b, some k =>
      match decode b with
      | .ok (t, _) => showSub (get (decoders dec4 dec12) t k)
      | .err _ => "err:decode"
      | .panic _ => "panic"
    | _, _ => "bad-case"
  else if op == "tmcmapdir.f0" then
    match (getField fs "bytes").bind fromHex with
    | some b =>
      if (getField fs "mac") == some "1" then
        -- driven through Table.Get with the key (1,0,0): the bytes must carry format 0
        if b.take 2 != [0, 0] then "bad-case" else
        match decodeFormat0C2r macRoman b with
        | .ok (w, _) => "ok:" ++ showPairs (canonWrites w)
        | .err _ => "err"
        | .panic _ => "panic"
      else
      match decodeFormat0 b with
      | .ok (d, _) => "ok:" ++ toHex d
      | .err _ => "err"
      | .panic _ => "panic"
    | none => "bad-case"
  else if op == "tmcmapdir.f6" then
    match (getField fs "bytes").bind fromHex, (getField fs "mac").bind String.toNat? with
    | some b, some mac =>
      match decodeFormat6 (if mac = 1 then macRoman else id) b with
      | .ok (w, _) => "ok:" ++ showPairs (canonWrites w)
      | .err _ => "err"
      | .panic _ => "panic"
    | _, _ => "bad-case"
  else if op == "tmcmapdir.lookup0" then
    match (getField fs "data").bind fromHex, (getField fs "r").bind String.toInt? with
    | some d, some r =>
      match lookup0 d r with
      | .ok g => toString g
      | .err _ => "err"
      | .panic _ => "panic"
    | _, _ => "bad-case"
  else if op == "tmcmapdir.lookup16" then
    match (getField fs "map").bind parsePairs, (getField fs "r").bind String.toInt? with
    | some m, some r => toString (lookup16 m r)
    | _, _ => "bad-case"
  else if op == "tmcmapdir.formats" then
    natsToString ((List.range 65536).filter fun f => (decoders dec4 dec12 f).isSome)
  else "bad-op"

end SfntV.Drive.TotalCmapDir
