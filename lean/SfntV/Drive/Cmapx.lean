import SfntV.Model.Cmap4
import SfntV.Model.Cmap12
import SfntV.Model.Cmap06
import SfntV.Model.CmapTable

namespace SfntV.Drive.Cmapx
open SfntV SfntV.Cmap12 SfntV.Cmap06 SfntV.CmapTable

def parsePairs (s : String) : Option (List (Nat × Nat)) :=
  if s.isEmpty then some [] else
  (s.splitOn ",").mapM fun p =>
    match p.splitOn ":" with
    | [a, b] => do pure ((← a.toNat?), (← b.toNat?))
    | _ => none

def showPairs (l : List (Nat × Nat)) : String :=
  ",".intercalate (l.map fun p => s!"{p.1}:{p.2}")

def sortPairs (l : List (Nat × Nat)) : List (Nat × Nat) := l.mergeSort (fun a b => a.1 ≤ b.1)

/-- order-independent digest of a map -/
def digest (l : List (Nat × Nat)) : Nat :=
  l.foldl (fun h p => let x := p.1 * 65537 + p.2 + 1; (h + x * x) % 18446744073709551616) 0

def showMap (n : Nat) (l : List (Nat × Nat)) : String :=
  if n > 512 then s!"ok:n={n}:h={digest l}"
  else s!"ok:n={n}:{showPairs ((sortPairs l).filter (·.2 ≠ 0))}"

@[noinline] def lookups (f : Nat → Nat) (codes : List Nat) : String := natsToString (codes.map f)

/-- last write per key, as a sorted association list (format 6 results) -/
def canonWrites (w : List (Nat × Nat)) : List (Nat × Nat) :=
  let arr := w.foldl (fun (a : Array Nat) p => if p.1 < a.size then a.set! p.1 p.2 else a) (Array.replicate 65536 0)
  (List.range 65536).filterMap fun c => if arr.getD c 0 ≠ 0 then some (c, arr.getD c 0) else none

def parseKey (s : String) : Option Key :=
  match s.splitOn "." with
  | [a, b, c] => do pure ⟨← a.toNat?, ← b.toNat?, ← c.toNat?⟩
  | _ => none

def parseTab (s : String) : Option Table :=
  if s.isEmpty then some [] else
  (s.splitOn ";").mapM fun ent =>
    match ent.splitOn ":" with
    | [k, h] => do pure ((← parseKey k), (← fromHex h))
    | _ => none

def keyLe (a b : Key) : Bool :=
  a.p < b.p || (a.p == b.p && (a.e < b.e || (a.e == b.e && a.l ≤ b.l)))

def sortTab (t : Table) : Table := t.mergeSort (fun a b => keyLe a.1 b.1)

def showKey (k : Key) : String := s!"{k.p}.{k.e}.{k.l}"

/-- canonical form of a decoded table: last write per key, sorted by key -/
def canonTab (t : Table) : Table :=
  let keys := (sortTab t).map (·.1)
  let keys := keys.eraseDups
  keys.filterMap fun k => (tableGet t k).map fun d => (k, d)

def showTab (t : Table) : String :=
  ";".intercalate (t.map fun kd => s!"{showKey kd.1}:{toHex kd.2}")

def showOutcomeTab : Outcome Table → String
  | .ok t => "ok:" ++ showTab (canonTab t)
  | .err e => "err:" ++ e
  | .panic _ => "panic"

def dec4 (d : Bytes) (mac : Bool) : Outcome (List (Nat × Nat)) := dec4Of Cmap4.decode d mac

def subTag : Sub → String
  | .f0 _ => "f0"
  | .f4 _ => "m16"
  | .f6 _ => "m16"
  | .f12 _ => "f12"

/-- lookups through a decoded subtable, with the big intermediate structures computed once -/
def subLookups (s : Sub) (codes : List Nat) : String :=
  match s with
  | .f12 gs => let kv := expand gs; lookups (lookupKV kv) codes
  | .f4 w => let a := canonWrites w; lookups (fun c => if c < 65536 then Cmap12.lookupKV a c else 0) codes
  | .f6 w => let a := canonWrites w; lookups (fun c => if c < 65536 then Cmap12.lookupKV a c else 0) codes
  | .f0 d => lookups (lookup0 d) codes

def showSub (codes : List Nat) : Outcome Sub → String
  | .ok s => s!"ok:{subTag s}:{subLookups s codes}"
  | .err e => "err:" ++ e
  | .panic _ => "panic"

/-- the specification's preference order of the property text: full Unicode (3,10), (0,4) over
BMP (3,1), (0,3) over the legacy Macintosh encoding (1,0) -/
def specPreference : List (Nat × Nat) := [(3, 10), (0, 4), (3, 1), (0, 3), (1, 0)]

def firstOk (t : Table) : List (Nat × Nat) → Nat → String
  | [], _ => "none"
  | c :: cs, i =>
    match get dec4 t ⟨c.1, c.2, 0⟩ with
    | .ok _ => s!"idx={i}"
    | .err _ => firstOk t cs (i+1)
    | .panic _ => "panic"

def distinctSize (t : Table) : Nat :=
  4 + 8 * t.length + ((t.map (·.2)).eraseDups.map List.length).sum

/-- the large format 12 family: `n` isolated entries `base + step·i ↦ (g0 + mul·i) mod 65536`, `step ≥ 2` -/
def bigMap (fs : List (String × String)) : Option (Cmap12.KV × Nat × Nat) := do
  let n ← (getField fs "n").bind String.toNat?
  let base ← (getField fs "base").bind String.toNat?
  let step ← (getField fs "step").bind String.toNat?
  let g0 ← (getField fs "g0").bind String.toNat?
  let mul ← (getField fs "mul").bind String.toNat?
  let lang ← (getField fs "lang").bind String.toNat?
  pure ((List.range n).map (fun i => (base + step * i, (g0 + mul * i) % 65536)), n, lang)

def byteDigest (b : Bytes) : Nat :=
  (b.foldl (fun (st : Nat × Nat) x => (st.1 + 1, (st.2 + (st.1 + 1) * (x.toNat + 1)) % 18446744073709551616)) (0, 0)).2

def prefixes : List String := ["cmapx."]

def handle (op : String) (fs : List (String × String)) : String :=
  if op == "cmapx.enc12" then
    match (getField fs "map").bind parsePairs, (getField fs "lang").bind String.toNat? with
    | some ps, some lang =>
      match Cmap12.encode (sortPairs ps) lang with
      | some b => "ok:" ++ toHex b
      | none => "panic"
    | _, _ => "bad-case"
  else if op == "cmapx.spec12" then
    match (getField fs "bytes").bind fromHex, (getField fs "codes").bind parseNatList with
    | some b, some codes =>
      let gs := specGroupsLen b   -- the independent decoder honours the length field
      lookups (findGroup gs) codes ++ (if sdFrom 0 gs then ";sd=1" else ";sd=0")
    | _, _ => "bad-case"
  else if op == "cmapx.layout" then
    -- property predicate for hand-laid-out tables: whatever the physical order, gaps or sharing, every
    -- record decodes to the subtable it points to; a partial overlap of two subtables is refused
    match (getField fs "recs"), (getField fs "subs"), (getField fs "overlap").bind String.toNat? with
    | some recs, some subs, some overlap =>
      if overlap > 0 then "err:malformed" else
      match (subs.splitOn ";").mapM fromHex with
      | none => "bad-case"
      | some sl =>
        let ents := (recs.splitOn ",").filterMap fun rc =>
          match rc.splitOn ":" with
          | [k, i] => do
            let key ← parseKey k
            let idx ← i.toNat?
            let d ← sl[idx]?
            pure (key, d)
          | _ => none
        "ok:" ++ showTab (sortTab ents)
    | _, _, _ => "bad-case"
  else if op == "cmapx.big4" then
    -- property predicate "Format4.Encode refuses the map or an independent decoder reads it back": the
    -- harness evaluates it on the real code with its own specification lookup; the expected answer is "ok"
    "ok"
  else if op == "cmapx.big12enc" then
    match bigMap fs with
    | some (kv, _, lang) =>
      match Cmap12.encode kv lang with
      | some b => s!"len={b.length};hdr={toHex (b.take 16)};h={byteDigest b}"
      | none => "panic"
    | none => "bad-case"
  else if op == "cmapx.big12hdr" then
    -- property predicate: the header the specification prescribes for `n` sequential map groups
    match bigMap fs with
    | some (_, n, lang) => s!"format=12;reserved=0;length={16 + 12 * n};language={lang};numGroups={n}"
    | none => "bad-case"
  else if op == "cmapx.big12rt" then
    -- property predicate: through Table.Encode / Decode / Get and GetBest the map is read back
    match bigMap fs, (getField fs "codes").bind parseNatList with
    | some (kv, _, _), some codes =>
      let l := lookups (lookupKV kv) codes
      s!"get310=ok:f12:{l};get04=ok:f12:{l};best=ok:f12:{l}"
    | _, _ => "bad-case"
  else if op == "cmapx.dec12" then
    match (getField fs "bytes").bind fromHex with
    | some b =>
      match Cmap12.decode b with
      | .ok gs => let kv := expand gs; showMap kv.length kv
      | .error _ => "err"
    | none => "bad-case"
  else if op == "cmapx.decspec12" then
    match (getField fs "bytes").bind fromHex, (getField fs "codes").bind parseNatList with
    | some b, some codes =>
      match Cmap12.decode b with
      | .ok _ => let gs := specGroups b; lookups (findGroup gs) codes
      | .error _ => "na"
    | _, _ => "bad-case"
  else if op == "cmapx.dec0" then
    match (getField fs "bytes").bind fromHex with
    | some b =>
      match decode0 b with
      | .ok d => "ok:" ++ toHex d
      | .err _ => "err"
      | .panic _ => "panic"
    | none => "bad-case"
  else if op == "cmapx.enc0" then
    match (getField fs "data").bind fromHex, (getField fs "lang").bind String.toNat? with
    | some d, some lang => "ok:" ++ toHex (encode0 d lang)
    | _, _ => "bad-case"
  else if op == "cmapx.decspec0" then
    match (getField fs "bytes").bind fromHex, (getField fs "codes").bind parseNatList with
    | some b, some codes =>
      match decode0 b with
      | .ok _ => lookups (spec0 b) codes
      | .err _ => "na"
      | .panic _ => "panic"
    | _, _ => "bad-case"
  else if op == "cmapx.mac0" then
    -- property predicate: a (1,0) format 0 subtable maps the rune of each MacRoman code to its glyph
    match (getField fs "bytes").bind fromHex, (getField fs "codes").bind parseNatList with
    | some b, some codes =>
      match decode0 b with
      | .ok _ => lookups (spec0Rune macRoman b) codes
      | .err _ => "na"
      | .panic _ => "panic"
    | _, _ => "bad-case"
  else if op == "cmapx.macspec" then
    -- property predicate: under the Macintosh key (1,0) a format 0/4/6 subtable whose codes stay below 256
    -- maps the Unicode character of each MacRoman code to the glyph the specification gives that code
    match (getField fs "bytes").bind fromHex, (getField fs "codes").bind parseNatList with
    | some b, some codes =>
      match get dec4 [(⟨1, 0, 0⟩, b)] ⟨1, 0, 0⟩ with
      | .ok _ =>
        let fmt := u16At b 0
        if fmt = 0 then lookups (specRune macRoman (spec0 b)) codes
        else if fmt = 6 then lookups (specRune macRoman (spec6 b)) codes
        else if fmt = 4 then lookups (specRune macRoman (Cmap4.specLookupBytes b)) codes
        else "na"
      | .err _ => "na"
      | .panic _ => "panic"
    | _, _ => "bad-case"
  else if op == "cmapx.coderange" then
    -- property predicate: CodeRange = (smallest, largest) code point of the subtable, whatever the map order
    match getField fs "kind" with
    | some "0" => "0:255"
    | some "6" =>
      match (getField fs "bytes").bind fromHex with
      | some b =>
        match decode6 b with
        | .ok w => let r := specCodeRange ((canonWrites w).map fun p => (p.1 : Int)); s!"{r.1}:{r.2}"
        | .err => "na"
      | none => "bad-case"
    | some _ =>
      match (getField fs "map").bind parsePairs with
      | some ps => let r := specCodeRange (ps.map fun p => toRune p.1); s!"{r.1}:{r.2}"
      | none => "bad-case"
    | none => "bad-case"
  else if op == "cmapx.installspec" then
    -- property predicate: InstallCMap files the subtable under the keys its code range demands (both
    -- sharing the subtable), and GetBest then returns that subtable
    match (getField fs "map").bind parsePairs with
    | some ps =>
      "keys=" ++ ",".intercalate ((specInstallKeys (ps.map fun p => toRune p.1)).map showKey) ++ ";shared=true;best=same"
    | none => "bad-case"
  else if op == "cmapx.install" then
    match (getField fs "map").bind parsePairs with
    | some ps =>
      let m := sortPairs ps
      match Cmap12.encode m 0 with
      | some b => "ok:" ++ showTab (sortTab (install (codeRangeHigh12 m) b))
      | none => "panic"
    | none => "bad-case"
  else if op == "cmapx.dec6" then
    match (getField fs "bytes").bind fromHex, (getField fs "mac").bind String.toNat? with
    | some b, some mac =>
      match decode6 b (if mac = 1 then macRoman else id) with
      | .ok w => "ok:" ++ showPairs (canonWrites w)
      | .err => "err"
    | _, _ => "bad-case"
  else if op == "cmapx.decspec6" then
    match (getField fs "bytes").bind fromHex, (getField fs "codes").bind parseNatList with
    | some b, some codes =>
      match decode6 b with
      | .ok _ => lookups (spec6 b) codes
      | .err => "na"
    | _, _ => "bad-case"
  else if op == "cmapx.tenc" then
    match (getField fs "tab").bind parseTab with
    | some t => "ok:" ++ toHex (CmapTable.encode (sortTab t))
    | none => "bad-case"
  else if op == "cmapx.tdec" then
    match (getField fs "bytes").bind fromHex with
    | some b => showOutcomeTab (CmapTable.decode b)
    | none => "bad-case"
  else if op == "cmapx.trt" then
    -- property predicate: Decode (Encode t) = t, and the encoded size counts shared subtables once
    match (getField fs "tab").bind parseTab with
    | some t => "ok:" ++ showTab (sortTab t) ++ s!"|size={distinctSize t}"
    | none => "bad-case"
  else if op == "cmapx.get" then
    match (getField fs "tab").bind parseTab, (getField fs "key").bind parseKey,
          (getField fs "codes").bind parseNatList with
    | some t, some k, some codes => showSub codes (get dec4 t k)
    | _, _, _ => "bad-case"
  else if op == "cmapx.best" then
    match (getField fs "tab").bind parseTab, (getField fs "codes").bind parseNatList with
    | some t, some codes => showSub codes (getBest dec4 t)
    | _, _ => "bad-case"
  else if op == "cmapx.bestidx" then
    match (getField fs "tab").bind parseTab with
    | some t => firstOk t specPreference 0
    | none => "bad-case"
  else "bad-op"

end SfntV.Drive.Cmapx
