import SfntV.Model.TotalCmap12

/-!
Line protocol of the checked-index model of `decodeFormat12` (property C02, group `cmap12`).

* `tmcmap12.decode bytes=<hex>` (verdict) → `ok:n=<entries>;<start>-<end>:<gid>,…` (the decoded
  map as maximal runs of consecutive codes with consecutive glyph ids, sorted) | `err` | `panic`.
-/
namespace SfntV.Drive.TotalCmap12
open SfntV SfntV.Total

def prefixes : List String := ["tmcmap12."]

/-- keep the first entry of every key of a list sorted by key -/
def dedup : List (Nat × Nat) → Option Nat → Array (Nat × Nat) → Array (Nat × Nat)
  | [], _, acc => acc
  | e :: rest, prev, acc =>
    if prev == some e.1 then dedup rest prev acc else dedup rest (some e.1) (acc.push e)

/-- the map's entries sorted by key (newest write per key) -/
def canon (m : Cmap12.KV) : Array (Nat × Nat) :=
  dedup (m.mergeSort fun a b => a.1 ≤ b.1) none #[]

def showRun (s e g : Nat) : String := s!"{s}-{e}:{g}"

/-- `cur` = (first code, last code, first gid) of the open run -/
def runs : List (Nat × Nat) → Nat × Nat × Nat → Array String → Array String
  | [], cur, acc => acc.push (showRun cur.1 cur.2.1 cur.2.2)
  | e :: rest, cur, acc =>
    if e.1 = cur.2.1 + 1 ∧ e.2 = cur.2.2 + (e.1 - cur.1) then runs rest (cur.1, e.1, cur.2.2) acc
    else runs rest (e.1, e.1, e.2) (acc.push (showRun cur.1 cur.2.1 cur.2.2))

def showMap (m : Cmap12.KV) : String :=
  let es := (canon m).toList
  match es with
  | [] => "ok:n=0;"
  | e :: rest => s!"ok:n={es.length};" ++ ",".intercalate (runs rest (e.1, e.1, e.2) #[]).toList

def handle (op : String) (fs : List (String × String)) : String :=
  match (getField fs "bytes").bind fromHex with
  | none => "bad-case"
  | some b =>
    if op == "tmcmap12.decode" then
      match Cmap12.decodeFormat12 b with
      | .ok (m, _) => showMap m
      | .err _ => "err"
      | .panic _ => "panic"
    else "bad-op"

end SfntV.Drive.TotalCmap12
