import SfntV.Model.TotalGlyfLazy

/-!
Line protocol of the checked-index models of the lazy TrueType glyph decoders (property C02,
group `glyflazy`).

* `tmglyflazy.simple nc=<int16> bytes=<hex of Encoded>`: `(*SimpleGlyph).Decode` →
  `ok:<instructions hex>;<contours joined by |, points x/y/on joined by ,>` | `err` | `panic`
* `tmglyflazy.comp bytes=<hex>`: `decodeGlyphComposite` followed by `Components()` →
  `ok:<flags:gid:args hex, joined by ,>;<n | i<instructions hex>>;<component ids>` | `err` | `panic`
-/
namespace SfntV.Drive.TotalGlyfLazy
open SfntV SfntV.Total SfntV.Total.GlyfLazy

def prefixes : List String := ["tmglyflazy."]

def showPoint (p : Glyf.Point) : String := s!"{p.x}/{p.y}/{if p.on then 1 else 0}"

def showInfo (g : Glyf.GlyphInfo) : String :=
  "ok:" ++ toHex g.instr ++ ";" ++
    "|".intercalate (g.contours.map fun c => ",".intercalate (c.map showPoint))

def showComp (c : Glyf.Component) : String := s!"{c.flags}:{c.gid}:{toHex c.data}"

def handle (op : String) (fs : List (String × String)) : String :=
  match (getField fs "bytes").bind fromHex with
  | none => "bad-case"
  | some b =>
    if op == "tmglyflazy.simple" then
      match (getField fs "nc").bind String.toInt? with
      | none => "bad-case"
      | some nc =>
        if nc < -32768 ∨ nc > 32767 then "bad-case" else
        match decode (Int16.ofInt nc) b with
        | .ok (g, _) => showInfo g
        | .err _ => "err"
        | .panic _ => "panic"
    else if op == "tmglyflazy.comp" then
      match decodeGlyphComposite b with
      | .ok ((cs, ins), _) =>
        match components (some (.composite cs ins)) with
        | .ok (ids, _) =>
          let i := match ins with | none => "n" | some i => "i" ++ toHex i
          let idl := match ids with | none => "-" | some l => natsToString l
          "ok:" ++ ",".intercalate (cs.map showComp) ++ ";" ++ i ++ ";" ++ idl
        | .err _ => "err"
        | .panic _ => "panic"
      | .err _ => "err"
      | .panic _ => "panic"
    else "bad-op"

end SfntV.Drive.TotalGlyfLazy
