import SfntV.Model.TotalName
import SfntV.Model.TotalCffIndex

/-!
Line protocol of the checked-index models of group `namecff` (property C02):
`tmnamecff.name bytes=<hex>`, `tmnamecff.utf16 bytes=<hex>`, `tmnamecff.index bytes=<hex> pos=<n>`, `tmnamecff.indexat bytes=<hex> pos=<int>`.
-/
namespace SfntV.Drive.TotalNameCff
open SfntV SfntV.Total SfntV.Total.NameCff

def prefixes : List String := ["tmnamecff."]

/-- UTF-8 bytes of one scalar value -/
def utf8 (r : Nat) : List UInt8 :=
  if r < 0x80 then [UInt8.ofNat r]
  else if r < 0x800 then [UInt8.ofNat (0xC0 + r / 64), UInt8.ofNat (0x80 + r % 64)]
  else if r < 0x10000 then
    [UInt8.ofNat (0xE0 + r / 4096), UInt8.ofNat (0x80 + r / 64 % 64), UInt8.ofNat (0x80 + r % 64)]
  else
    [UInt8.ofNat (0xF0 + r / 262144), UInt8.ofNat (0x80 + r / 4096 % 64),
     UInt8.ofNat (0x80 + r / 64 % 64), UInt8.ofNat (0x80 + r % 64)]

def utf8Hex (rr : List Nat) : String := toHex (rr.flatMap utf8)

def entryLe (a b : Names.Entry) : Bool :=
  if a.plat ≠ b.plat then a.plat < b.plat
  else if a.tag ≠ b.tag then a.tag < b.tag
  else a.id ≤ b.id

/-- newest-first list of `set` calls to the final map contents -/
def dedupe : List Names.Entry → List Names.Entry → List Names.Entry
  | [], acc => acc.reverse
  | e :: rest, acc =>
    if acc.any (fun x => x.plat == e.plat && x.tag == e.tag && x.id == e.id) then dedupe rest acc
    else dedupe rest (e :: acc)

def showEntries (l : List Names.Entry) : String :=
  ",".intercalate (((dedupe l []).mergeSort entryLe).map fun e =>
    s!"{e.plat}:{e.tag}:{e.id}={utf8Hex e.val}")

def macTbl (c : UInt8) : Nat := Names.fixRune (Names.macDecodeByte c.toNat)

def showItem (s : Bytes) : String :=
  if s.length ≤ 16 then toHex s else toHex (s.take 8) ++ ".." ++ toString s.length

@[noinline] def runName (b : Bytes) : String :=
  match decode (Names.langGet Gen.appleBCP) (Names.langGet Gen.msBCP) macTbl b with
  | .ok (l, _) => "ok:" ++ showEntries l
  | .err _ => "err"
  | .panic _ => "panic"

def handle (op : String) (fs : List (String × String)) : String :=
  match (getField fs "bytes").bind fromHex with
  | none => "bad-case"
  | some b =>
    if op == "tmnamecff.name" then runName b
    else if op == "tmnamecff.utf16" then
      match utf16Decode b with
      | .ok (rr, _) => "ok:" ++ utf8Hex rr
      | .err _ => "err"
      | .panic _ => "panic"
    else if op == "tmnamecff.index" then
      match (getField fs "pos").bind String.toNat? with
      | none => "bad-case"
      | some pos =>
        match readIndex b pos with
        | .ok ((items, e), _) => s!"ok:{e};{items.length};" ++ ",".intercalate (items.map showItem)
        | .err e => "err:" ++ e
        | .panic _ => "panic"
    else if op == "tmnamecff.indexat" then
      match (getField fs "pos").bind String.toInt? with
      | none => "bad-case"
      | some pos =>
        match readIndexAt b pos with
        | .ok ((items, e), _) => s!"ok:{e};{items.length};" ++ ",".intercalate (items.map showItem)
        | .err e => "err:" ++ e
        | .panic _ => "panic"
    else "bad-op"

end SfntV.Drive.TotalNameCff
