import SfntV.Prelude.Bytes
import SfntV.Model.T2Interp
import SfntV.Model.T2Encode
import SfntV.Model.T2Compile

/-! Line-protocol handlers for the Type 2 interpreter (C05) -/
namespace SfntV.Drive.T2
open SfntV SfntV.T2

def intsToString (l : List Int) : String := ",".intercalate (l.map toString)

def hexNats (l : List Nat) : String := toHex (l.map UInt8.ofNat)

def showCmd : Cmd → String
  | .moveTo x y => s!"m:{x},{y}"
  | .lineTo x y => s!"l:{x},{y}"
  | .curveTo a b c d e f => s!"c:{a},{b},{c},{d},{e},{f}"
  | .hintMask bs => s!"h:{hexNats bs}"
  | .cntrMask bs => s!"k:{hexNats bs}"

def showGlyph (g : Glyph) : String :=
  s!"ok w={g.width} hs={intsToString g.hstem} vs={intsToString g.vstem} cmds={";".intercalate (g.cmds.map showCmd)}"

def showOut : Outcome Glyph → String
  | .ok g => showGlyph g
  | .err e => s!"err:{e}"
  | .panic p => s!"panic:{p}"

def hexToNats (s : String) : Option (List Nat) := (fromHex s).map (·.map UInt8.toNat)

/-- "idx:hex;idx:hex" -/
def parseEntries (s : String) : Option (List (Nat × List Nat)) :=
  if s.isEmpty then some [] else
  (s.splitOn ";").mapM fun e =>
    match e.splitOn ":" with
    | [i, h] => do
      let i ← i.toNat?
      let b ← hexToNats h
      pure (i, b)
    | _ => none

def mkSubrs (n : Nat) (dflt : List Nat) (ents : List (Nat × List Nat)) : List (List Nat) :=
  let arr := ents.foldl (fun (a : Array (List Nat)) e => a.setIfInBounds e.1 e.2) (Array.replicate n dflt)
  arr.toList

def parseEnv (fs : List (String × String)) : Option Env := do
  let ns ← getField fs "ns" >>= String.toNat?
  let ng ← getField fs "ng" >>= String.toNat?
  let sd ← getField fs "sd" >>= hexToNats
  let gd ← getField fs "gd" >>= hexToNats
  let se ← getField fs "subrs" >>= parseEntries
  let ge ← getField fs "gsubrs" >>= parseEntries
  let dw ← getField fs "dw" >>= parseInt?
  let nw ← getField fs "nw" >>= parseInt?
  pure { subrs := mkSubrs ns sd se, gsubrs := mkSubrs ng gd ge, defaultWidth := dw, nominalWidth := nw }

@[noinline] def runInterp (q : Quirks) (env : Env) (code : List Nat) : String :=
  showOut (interp q env code)

/-! #### C04: round trip of the Go-emitted charstring through the specification interpreter -/

def parseIntList (s : String) : Option (List Int) :=
  if s.isEmpty then some [] else (s.splitOn ",").mapM String.toInt?

/-- input command, coordinates at scale 2⁻²⁰ -/
inductive InCmd
  | pts (kind : Char) (xs : List Int)
  | mask (cntr : Bool) (bytes : List Nat)

def parseInCmd (s : String) : Option InCmd :=
  match s.splitOn ":" with
  | ["m", a] => (parseIntList a).map (InCmd.pts 'm')
  | ["l", a] => (parseIntList a).map (InCmd.pts 'l')
  | ["c", a] => (parseIntList a).map (InCmd.pts 'c')
  | ["h", a] => (hexToNats a).map (InCmd.mask false)
  | ["k", a] => (hexToNats a).map (InCmd.mask true)
  | _ => none

/-- |decoded (2⁻¹⁶ units) − input (2⁻²⁰ units)| ≤ 2⁻¹⁷ -/
def close (dec : Int) (inp : Int) : Bool := (dec * 16 - inp).natAbs ≤ 8

def closeList : List Int → List Int → Bool
  | [], [] => true
  | a :: as, b :: bs => close a b && closeList as bs
  | _, _ => false

def cmdMatches : Cmd → InCmd → Bool
  | .moveTo x y, .pts 'm' xs => closeList [x, y] xs
  | .lineTo x y, .pts 'l' xs => closeList [x, y] xs
  | .curveTo a b c d e f, .pts 'c' xs => closeList [a, b, c, d, e, f] xs
  | .hintMask bs, .mask false cs => bs == cs
  | .cntrMask bs, .mask true cs => bs == cs
  | _, _ => false

def firstDiff : Nat → List Cmd → List InCmd → Option Nat
  | _, [], [] => none
  | i, a :: as, b :: bs => if cmdMatches a b then firstDiff (i + 1) as bs else some i
  | i, _, _ => some i

@[noinline] def roundTrip (env : Env) (code : List Nat) (w : Int) (hs vs : List Int) (cmds : List InCmd) : String :=
  match SfntV.T2.interp strict env code with
  | .err e => s!"err:{e}"
  | .panic p => s!"panic:{p}"
  | .ok g =>
    if !close g.width w then s!"diff:width:{g.width}"
    else if !closeList g.hstem hs then "diff:hstem"
    else if !closeList g.vstem vs then "diff:vstem"
    else match firstDiff 0 g.cmds cmds with
      | some i => s!"diff:cmd@{i}"
      | none => "ok"

/-! #### C04: encodeArgs, edge proposals, assembly -/

def toIn : InCmd → Option T2Enc.InCmd
  | .pts 'm' [x, y] => some (.moveTo x y)
  | .pts 'l' [x, y] => some (.lineTo x y)
  | .pts 'c' [a, b, c, d, e, f] => some (.curveTo a b c d e f)
  | .mask c bs => some (.mask c bs)
  | _ => none

def parseCmds (fs : List (String × String)) : Option (List T2Enc.InCmd) :=
  (getField fs "cmds").bind fun s =>
    if s.isEmpty then some [] else (s.splitOn ";").mapM (fun c => parseInCmd c >>= toIn)

def showNum (e : T2Enc.EncNum) : String := s!"{e.val}/{hexNats e.code}"

def showEnCmd : T2Enc.EnCmd → String
  | .move dx dy => s!"m:{showNum dx},{showNum dy}"
  | .seg s => (match s with | .line _ _ => "l:" | .curve .. => "c:") ++ ",".intercalate (s.args.map showNum)
  | .mask c bs => (if c then "k:" else "h:") ++ hexNats bs

def showEdge (e : T2Enc.Edge) : String := s!"{e.to}/{hexNats e.bytes}"

/-- all runs of drawing segments of an encoded command list -/
def runsOf : Nat → List T2Enc.EnCmd → List (List T2Enc.Seg)
  | 0, _ => []
  | _, [] => []
  | f + 1, .seg s :: rest =>
    let r := T2Enc.takeSegs (.seg s :: rest)
    r.1 :: runsOf f r.2
  | f + 1, _ :: rest => runsOf f rest

def showRunEdges (ri : Nat) (segs : List T2Enc.Seg) : List String :=
  (List.range segs.length).map fun i =>
    s!"{ri}.{i}=" ++ ",".intercalate ((T2Enc.appendEdges i (segs.drop i)).map showEdge)

def enumFrom' {α : Type} : Nat → List α → List (Nat × α)
  | _, [] => []
  | i, a :: t => (i, a) :: enumFrom' (i + 1) t

def parsePath (s : String) : Option (List (Nat × Op)) :=
  if s.isEmpty then some [] else
  (s.splitOn ",").mapM fun e =>
    match e.splitOn "." with
    | [t, o] => do
      let t ← t.toNat?
      let o ← o.toNat?
      let op ← opOfCode o
      pure (t, op)
    | _ => none

def parsePaths (s : String) : Option (List (List (Nat × Op))) :=
  if s.isEmpty then some [] else (s.splitOn "/").mapM parsePath

@[noinline] def compileOps (op : String) (fs : List (String × String)) : String :=
  match parseCmds fs with
  | none => "bad-case"
  | some cmds =>
    let K := 20
    if op == "t2.encargs" then ";".intercalate ((T2Enc.encodeArgs K cmds).map showEnCmd)
    else if op == "t2.edges" then
      let ee := T2Enc.encodeArgs K cmds
      ";".intercalate ((enumFrom' 0 (runsOf (ee.length + 1) ee)).flatMap fun p => showRunEdges p.1 p.2)
    else
      match getField fs "w" >>= parseInt?, getField fs "dw" >>= parseInt?, getField fs "nw" >>= parseInt?,
            getField fs "hs" >>= parseIntList, getField fs "vs" >>= parseIntList,
            getField fs "paths" >>= parsePaths with
      | some w, some dw, some nw, some hs, some vs, some paths =>
        match T2Enc.encodeCharString K w hs vs cmds dw nw paths with
        | some b => hexNats b
        | none => "none"
      | _, _, _, _, _, _ => "bad-case"

/-! #### C05: does a charstring lie in the domain of `C05_progress` / `C05_quirks_irrelevant`? -/

/-- an integer operand in its shortest encoding at the head of the code -/
def peekInt : List Nat → Option (Int × List Nat)
  | b0 :: rest =>
    if 32 ≤ b0 ∧ b0 ≤ 246 then some ((b0 : Int) - 139, rest)
    else if 247 ≤ b0 ∧ b0 ≤ 250 then (match rest with | b1 :: r => some (((b0 : Int) - 247) * 256 + b1 + 108, r) | [] => none)
    else if 251 ≤ b0 ∧ b0 ≤ 254 then (match rest with | b1 :: r => some ((251 - (b0 : Int)) * 256 - b1 - 108, r) | [] => none)
    else if b0 = 28 then (match rest with | b1 :: b2 :: r => some (toI16 (b1 * 256 + b2), r) | _ => none)
    else none
  | [] => none

/-- "v op" / "n j roll" with a value-dependent operator: the compound token and the rest -/
def litTok (v : Int) (r : List Nat) : Option (Spec.T2.Tok × List Nat) :=
  match r with
  | 12 :: 12 :: r' => some (.lit (.div v), r')
  | 12 :: 26 :: r' => some (.lit (.sqrt v), r')
  | 12 :: 29 :: r' => some (.lit (.index v), r')
  | 12 :: 20 :: r' => some (.lit (.put v), r')
  | 12 :: 21 :: r' => some (.lit (.get v), r')
  | _ =>
    match peekInt r with
    | some (j, 12 :: 30 :: r') => some (.lit (.roll v j), r')
    | _ => none

/-- bytes → tokens of the static grammar, checking `wfTok` on the way (the mask length depends on the
grammar state); `none` = not a program of the grammar -/
def tokRun : Nat → Spec.T2.Abs → List Nat → List Spec.T2.Tok → Option (Spec.T2.Abs × List Spec.T2.Tok)
  | 0, _, _, _ => none
  | _ + 1, a, [], acc => some (a, acc.reverse)
  | f + 1, a, b0 :: rest, acc =>
    let num (t : Spec.T2.Tok) (r : List Nat) := (Spec.T2.wfTok a t).bind fun a' => tokRun f a' r (t :: acc)
    let inum (v : Int) (r : List Nat) := match litTok v r with
      | some (t, r') => num t r'
      | none => num (.int v) r
    if 32 ≤ b0 ∧ b0 ≤ 246 then inum ((b0 : Int) - 139) rest
    else if 247 ≤ b0 ∧ b0 ≤ 250 then
      match rest with
      | b1 :: r => inum (((b0 : Int) - 247) * 256 + b1 + 108) r
      | [] => none
    else if 251 ≤ b0 ∧ b0 ≤ 254 then
      match rest with
      | b1 :: r => inum ((251 - (b0 : Int)) * 256 - b1 - 108) r
      | [] => none
    else if b0 = 28 then
      match rest with
      | b1 :: b2 :: r => inum (toI16 (b1 * 256 + b2)) r
      | _ => none
    else if b0 = 255 then
      match rest with
      | b1 :: b2 :: b3 :: b4 :: r => num (.fixed (toI32 (((b1 * 256 + b2) * 256 + b3) * 256 + b4))) r
      | _ => none
    else
      let oc : Option (Nat × List Nat) :=
        if b0 = 12 then (match rest with | b1 :: r => some (12 * 256 + b1, r) | [] => none) else some (b0, rest)
      match oc with
      | none => none
      | some (c, r) =>
        match opOfCode c with
        | none => none
        | some o =>
          if o == .hintmask || o == .cntrmask then
            match Spec.T2.afterWidth a .hintmask with
            | none => none
            | some n =>
              let k := (a.nStems + n / 2 + 7) / 8
              if k ≤ r.length then num (.mask (o == .cntrmask) (r.take k)) (r.drop k) else none
          else num (.op o) r

/-- association list update that refuses a different second binding -/
def bindBody (m : List (Nat × Spec.T2.PProgram)) (i : Nat) (q : Spec.T2.PProgram) :
    Option (List (Nat × Spec.T2.PProgram)) :=
  match m.find? (·.1 == i) with
  | some (_, q') => if q' == q then some m else none
  | none => some ((i, q) :: m)

/-- bytes → tokens with calls: follows calls into the byte tables (mask lengths depend on the grammar
state), records the token-level body of every subroutine it enters -/
def tokP (lb gb : Array (List Nat)) :
    Nat → Nat → Spec.T2.Abs → List Nat → List Spec.T2.PTok →
    List (Nat × Spec.T2.PProgram) × List (Nat × Spec.T2.PProgram) →
    Option (Spec.T2.Abs × Spec.T2.PProgram × (List (Nat × Spec.T2.PProgram) × List (Nat × Spec.T2.PProgram)))
  | 0, _, _, _, _, _ => none
  | _ + 1, _, a, [], acc, m => some (a, acc.reverse, m)
  | f + 1, dep, a, b0 :: rest, acc, m =>
    if b0 = 11 ∧ rest = [] then some (a, acc.reverse, m)   -- the closing `return` of a body
    else
      let tokc (t : Spec.T2.Tok) (r : List Nat) :=
        (Spec.T2.wfTok a t).bind fun a' => tokP lb gb f dep a' r (.tok t :: acc) m
      -- an integer directly followed by callsubr / callgsubr is a call
      let intc (v : Int) (r : List Nat) :=
        match r with
        | 10 :: r' | 29 :: r' =>
          let g := r.head? == some 29
          let tbl := if g then gb else lb
          let idx := v + bias tbl.size
          if idx < 0 ∨ dep = 0 ∨ a.ended ∨ a.depth + 1 > 48 then none
          else
            match tbl[idx.toNat]? with
            | none => none
            | some body =>
              match tokP lb gb f (dep - 1) a body [] m with
              | none => none
              | some (a2, q, m2) =>
                let m3 := if g then (bindBody m2.2 idx.toNat q).map (fun x => (m2.1, x))
                          else (bindBody m2.1 idx.toNat q).map (fun x => (x, m2.2))
                match m3 with
                | none => none
                | some m3 =>
                  if a2.ended then (if r'.isEmpty then some (a2, (Spec.T2.PTok.call g idx.toNat :: acc).reverse, m3) else none)
                  else tokP lb gb f dep a2 r' (.call g idx.toNat :: acc) m3
        | _ =>
          match litTok v r with
          | some (t, r') => tokc t r'
          | none => tokc (.int v) r
      if 32 ≤ b0 ∧ b0 ≤ 246 then intc ((b0 : Int) - 139) rest
      else if 247 ≤ b0 ∧ b0 ≤ 250 then
        match rest with
        | b1 :: r => intc (((b0 : Int) - 247) * 256 + b1 + 108) r
        | [] => none
      else if 251 ≤ b0 ∧ b0 ≤ 254 then
        match rest with
        | b1 :: r => intc ((251 - (b0 : Int)) * 256 - b1 - 108) r
        | [] => none
      else if b0 = 28 then
        match rest with
        | b1 :: b2 :: r => intc (toI16 (b1 * 256 + b2)) r
        | _ => none
      else if b0 = 255 then
        match rest with
        | b1 :: b2 :: b3 :: b4 :: r => tokc (.fixed (toI32 (((b1 * 256 + b2) * 256 + b3) * 256 + b4))) r
        | _ => none
      else
        let oc : Option (Nat × List Nat) :=
          if b0 = 12 then (match rest with | b1 :: r => some (12 * 256 + b1, r) | [] => none) else some (b0, rest)
        match oc with
        | none => none
        | some (c, r) =>
          match opOfCode c with
          | none => none
          | some o =>
            if o == .hintmask || o == .cntrmask then
              match Spec.T2.afterWidth a .hintmask with
              | none => none
              | some n =>
                let k := (a.nStems + n / 2 + 7) / 8
                if k ≤ r.length then tokc (.mask (o == .cntrmask) (r.take k)) (r.drop k) else none
            else tokc (.op o) r

def tableOf (n : Nat) (m : List (Nat × Spec.T2.PProgram)) : List Spec.T2.PProgram :=
  (m.foldl (fun (a : Array Spec.T2.PProgram) e => a.setIfInBounds e.1 e.2) (Array.replicate n [])).toList

/-- is the charstring (with its byte tables) the encoding of a program `wfCheckP` accepts? -/
@[noinline] def wfFlagsP (env : Env) (code : List Nat) : String :=
  let lb := env.subrs.toArray
  let gb := env.gsubrs.toArray
  let fuel := code.length + 4 * (lb.size + gb.size) + 2000
  match tokP lb gb fuel 10 {} code [] ([], []) with
  | none => "nowf"
  | some (a, p, m) =>
    let T : Spec.T2.Tables := ⟨tableOf lb.size m.1, tableOf gb.size m.2⟩
    if a.ended && Spec.T2.encodeP T p == code && (T.env 0 0).subrs == env.subrs && (T.env 0 0).gsubrs == env.gsubrs
        && Spec.T2.wfCheckP T fuel p then
      (if Spec.T2.agreesCheckP T p then "wf agrees" else "wf")
    else "nowf"

@[noinline] def wfFlags (code : List Nat) : String :=
  match tokRun (code.length + 1) {} code [] with
  | some (a, toks) =>
    if a.ended && Spec.T2.encode toks == code then
      (if Spec.T2.agreesCheck toks then "wf agrees" else "wf")
    else "nowf"
  | none => "nowf"

/-! #### C05: whole CFF files — every glyph with the subroutines and widths of ITS Font DICT -/

/-- "n~defaultBodyHex~idx:hex,idx:hex" -/
def parseCffTable (n dflt ents : String) : Option (List (List Nat)) := do
  let n ← n.toNat?
  let d ← hexToNats dflt
  let e ← parseEntries (ents.replace "," ";")
  pure (mkSubrs n d e)

@[noinline] def cffFileSpec (gs : List (List Nat)) (fds : Array (Int × Int × List (List Nat)))
    (glyphs : List (Nat × List Nat)) : String :=
  " | ".intercalate (glyphs.map fun g =>
    match fds[g.1]? with
    | some (dw, nw, subrs) => showOut (interp strict ⟨subrs, gs, dw, nw⟩ g.2)
    | none => "bad-fd")

def handleCffFile (fs : List (String × String)) : String :=
  let gs := (getField fs "gs").bind fun s =>
    match s.splitOn "~" with
    | [n, d, e] => parseCffTable n d e
    | _ => none
  let fds := (getField fs "fds").bind fun s =>
    (s.splitOn "|").mapM fun f =>
      match f.splitOn "~" with
      | [dw, nw, _, n, d, e] => do
        let dw ← parseInt? dw
        let nw ← parseInt? nw
        let t ← parseCffTable n d e
        pure (dw, nw, t)
      | _ => none
  let glyphs := (getField fs "glyphs").bind fun s =>
    (s.splitOn ";").mapM fun g =>
      match g.splitOn ":" with
      | [i, h] => do
        let i ← i.toNat?
        let c ← hexToNats h
        pure (i, c)
      | _ => none
  match gs, fds, glyphs with
  | some gs, some fds, some glyphs => cffFileSpec gs fds.toArray glyphs
  | _, _, _ => "bad-case"

/-! #### C04: font level — the widths a written CFF file carries, read by a minimal independent CFF reading
(TN5176: header, INDEX, DICT operands; Private DICT defaultWidthX = 20, nominalWidthX = 21, Subrs = 19) -/

def beN (a : Array Nat) (pos n : Nat) : Nat :=
  (List.range n).foldl (fun acc i => acc * 256 + a.getD (pos + i) 0) 0

/-- "INDEX: count(2) offSize(1) offset[count+1] data": the objects and the position after the INDEX -/
def cffIndexAt (a : Array Nat) (pos : Nat) : Option (List (List Nat) × Nat) :=
  let count := beN a pos 2
  if count == 0 then some ([], pos + 2)
  else
    let offSize := a.getD (pos + 2) 0
    if offSize == 0 || offSize > 4 then none
    else
      let offs := (List.range (count + 1)).map fun i => beN a (pos + 3 + i * offSize) offSize
      let base := pos + 3 + (count + 1) * offSize - 1
      let objs := (List.range count).map fun i =>
        let s := offs.getD i 1
        let e := offs.getD (i + 1) 1
        (List.range (e - s)).map fun k => a.getD (base + s + k) 0
      some (objs, base + offs.getD count 1)

/-- a real DICT operand (nibbles) as a 16.16 value; a real with an exponent part (only FontMatrix entries in the
files read here) is skipped and read as 0 -/
def dictReal : List Nat → Bool → Nat → Option Nat → Bool → Option (Int × List Nat)
  | [], _, _, _, _ => none
  | b :: rest, neg, mant, frac, bad =>
    let step (st : Option (Bool × Nat × Option Nat × Bool × Bool)) (nib : Nat) :=
      match st with
      | none => none
      | some (ng, m, f, bd, fin) =>
        if fin then some (ng, m, f, bd, fin)
        else if bd then some (ng, m, f, true, nib == 15)
        else if nib ≤ 9 then some (ng, m * 10 + nib, f.map (· + 1), false, false)
        else if nib == 10 then some (ng, m, some 0, false, false)
        else if nib == 14 then some (true, m, f, false, false)
        else if nib == 15 then some (ng, m, f, false, true)
        else some (ng, m, f, true, false)
    match step (step (some (neg, mant, frac, bad, false)) (b / 16)) (b % 16) with
    | none => none
    | some (ng, m, f, bd, true) =>
      if bd then some (0, rest)
      else
        let den := 10 ^ (f.getD 0)
        let v : Int := ((m * 65536 + den / 2) / den : Nat)
        some (if ng then -v else v, rest)
    | some (ng, m, f, bd, false) => dictReal rest ng m f bd

/-- DICT → (operator, operands in 16.16 units) -/
def dictDecode : Nat → List Nat → List Int → List (Nat × List Int) → Option (List (Nat × List Int))
  | 0, _, _, _ => none
  | _, [], _, acc => some acc.reverse
  | f + 1, b0 :: rest, st, acc =>
    if 32 ≤ b0 ∧ b0 ≤ 246 then dictDecode f rest (st ++ [((b0 : Int) - 139) * 65536]) acc
    else if 247 ≤ b0 ∧ b0 ≤ 250 then
      match rest with
      | b1 :: r => dictDecode f r (st ++ [(((b0 : Int) - 247) * 256 + b1 + 108) * 65536]) acc
      | [] => none
    else if 251 ≤ b0 ∧ b0 ≤ 254 then
      match rest with
      | b1 :: r => dictDecode f r (st ++ [((251 - (b0 : Int)) * 256 - b1 - 108) * 65536]) acc
      | [] => none
    else if b0 = 28 then
      match rest with
      | b1 :: b2 :: r => dictDecode f r (st ++ [toI16 (b1 * 256 + b2) * 65536]) acc
      | _ => none
    else if b0 = 29 then
      match rest with
      | b1 :: b2 :: b3 :: b4 :: r => dictDecode f r (st ++ [toI32 (((b1 * 256 + b2) * 256 + b3) * 256 + b4) * 65536]) acc
      | _ => none
    else if b0 = 30 then
      match dictReal rest false 0 none false with
      | some (v, r) => dictDecode f r (st ++ [v]) acc
      | none => none
    else if b0 = 12 then
      match rest with
      | b1 :: r => dictDecode f r [] ((1200 + b1, st) :: acc)
      | [] => none
    else dictDecode f rest [] ((b0, st) :: acc)

def dictGet (d : List (Nat × List Int)) (op : Nat) : Option (List Int) := (d.find? (·.1 == op)).map (·.2)

/-- the advance widths of all glyphs of a simple (one Private DICT) CFF font, by the specification interpreter -/
@[noinline] def fontWidths (file : List Nat) : String :=
  let a := file.toArray
  let hdr := a.getD 2 4
  match cffIndexAt a hdr with
  | none => "bad-name-index"
  | some (_, p1) =>
    match cffIndexAt a p1 with
    | none => "bad-topdict-index"
    | some (tops, p2) =>
      match cffIndexAt a p2 with
      | none => "bad-string-index"
      | some (_, p3) =>
        match cffIndexAt a p3 with
        | none => "bad-gsubr-index"
        | some (gsubrs, _) =>
          match tops.head? >>= fun t => dictDecode (t.length + 1) t [] [] with
          | none => "bad-topdict"
          | some top =>
            -- Private DICT (size, offset) → (defaultWidthX, nominalWidthX, local subrs)
            let readPriv (pd : List Int) : Option (Int × Int × List (List Nat)) :=
              match pd with
              | [psize, poff] =>
                let po := (poff / 65536).toNat
                let ps := (psize / 65536).toNat
                let pbytes := (List.range ps).map fun k => a.getD (po + k) 0
                (dictDecode (ps + 1) pbytes [] []).map fun priv =>
                  let dw := ((dictGet priv 20).bind List.head?).getD 0
                  let nw := ((dictGet priv 21).bind List.head?).getD 0
                  let subrs := match (dictGet priv 19).bind List.head? with
                    | some so => ((cffIndexAt a (po + (so / 65536).toNat)).map (·.1)).getD []
                    | none => []
                  (dw, nw, subrs)
              | _ => none
            match dictGet top 17 with
            | some [cso] =>
              match cffIndexAt a (cso / 65536).toNat with
              | none => "bad-charstrings"
              | some (css, _) =>
                let n := css.length
                -- the Private DICT of every glyph: one for a simple font, FDArray + FDSelect for a CID-keyed font
                let privs : Option (Array (Int × Int × List (List Nat)) × (Nat → Nat)) :=
                  match dictGet top 1236, dictGet top 1237 with
                  | some [fdao], some [fdso] =>
                    match cffIndexAt a (fdao / 65536).toNat with
                    | none => none
                    | some (fdDicts, _) =>
                      let ps := fdDicts.mapM fun fd =>
                        (dictDecode (fd.length + 1) fd [] []).bind fun dd => (dictGet dd 18).bind readPriv
                      let fp := (fdso / 65536).toNat
                      let sel : Nat → Nat :=
                        if a.getD fp 255 == 0 then fun g => a.getD (fp + 1 + g) 0
                        else
                          -- format 3: nRanges, (first, fd)*, sentinel
                          let nr := beN a (fp + 1) 2
                          fun g =>
                            ((List.range nr).foldl (fun acc i =>
                              if beN a (fp + 3 + 3 * i) 2 ≤ g then a.getD (fp + 3 + 3 * i + 2) 0 else acc) 0)
                      ps.map fun l => (l.toArray, sel)
                  | _, _ => ((dictGet top 18).bind readPriv).map fun p => (#[p], fun _ => 0)
                match privs with
                | none => "bad-private"
                | some (parr, sel) =>
                  ",".intercalate ((List.range n).map fun g =>
                    match parr[sel g]? with
                    | none => "bad-fd"
                    | some (dw, nw, subrs) =>
                      match interp strict ⟨subrs, gsubrs, dw, nw⟩ (css.getD g []) with
                      | .ok gl => toString gl.width
                      | .err e => s!"err:{e}"
                      | .panic p => s!"panic:{p}")
            | _ => "no-charstrings"

def handleC04 (op : String) (fs : List (String × String)) : String :=
  if op == "t2.encnum" then
    match getField fs "n" >>= parseInt?, getField fs "k" >>= String.toNat? with
    | some n, some k =>
      let r := T2Enc.encodeNumber n k
      s!"{r.1} {hexNats r.2}"
    | _, _ => "bad-case"
  else if op == "t2.rt" then
    match getField fs "code" >>= hexToNats, getField fs "w" >>= parseInt?, getField fs "dw" >>= parseInt?,
          getField fs "nw" >>= parseInt?, getField fs "hs" >>= parseIntList, getField fs "vs" >>= parseIntList,
          (getField fs "cmds").bind (fun s => if s.isEmpty then some [] else (s.splitOn ";").mapM parseInCmd) with
    | some code, some w, some dw, some nw, some hs, some vs, some cmds =>
      roundTrip { subrs := [], gsubrs := [], defaultWidth := dw, nominalWidth := nw } code w hs vs cmds
    | _, _, _, _, _, _, _ => "bad-case"
  else "bad-op"

def prefixes : List String := ["t2."]

/-- D `t2.fontbad`: a font whose glyphs carry the stem lists of the given lengths (`hsn`, `vsn`: entries per glyph).
`(*Glyph).encodeCharString` (model `T2Enc.encodeCharString`) reports an error exactly for a stem list of odd length,
for EVERY glyph of the font: `Font.Write` must then refuse; otherwise the written font reads back with the same glyphs. -/
def fontRefusedOrFaithful (hsn vsn : List Int) : String :=
  if hsn.any (fun n => n % 2 != 0) || vsn.any (fun n => n % 2 != 0) then "refused" else "faithful"

def handle (op : String) (fs : List (String × String)) : String :=
  if op == "t2.fontbad" then
    match getField fs "hsn" >>= parseIntList, getField fs "vsn" >>= parseIntList with
    | some hsn, some vsn => fontRefusedOrFaithful hsn vsn
    | _, _ => "bad-case"
  else if op == "t2.fontw" then
    match getField fs "file" >>= hexToNats with
    | some file => fontWidths file
    | none => "bad-case"
  else if op == "t2.encnum" || op == "t2.rt" then handleC04 op fs
  else if op == "t2.encargs" || op == "t2.edges" || op == "t2.asm" then compileOps op fs
  else if op == "t2.dec" || op == "t2.spec" || op == "t2.rejects" || op == "t2.taint" then
    match parseEnv fs, getField fs "code" >>= hexToNats with
    | some env, some code =>
      if op == "t2.dec" then runInterp goQuirks env code
      else if op == "t2.spec" then runInterp strict env code
      else if op == "t2.rejects" then
        match interp strict env code with
        | .ok _ => "ok"
        | _ => "err"
      else
        match interpSt goQuirks env code with
        | .ok s => if s.inexact then "inexact" else "exact"
        | _ => "err"
    | _, _ => "bad-case"
  else if op == "t2.cfffile" then handleCffFile fs
  else if op == "t2.wf" then
    match getField fs "code" >>= hexToNats with
    | some code =>
      match parseEnv fs with
      | some env => if env.subrs.isEmpty && env.gsubrs.isEmpty then wfFlags code else wfFlagsP env code
      | none => wfFlags code
    | none => "bad-case"
  else if op == "t2.q" then
    -- diagnosis: run with an explicit quirk vector (10 characters 0/1, field order of `Quirks`)
    match parseEnv fs, getField fs "code" >>= hexToNats, getField fs "bits" with
    | some env, some code, some bits =>
      let b := fun (i : Nat) => bits.toList.getD i '0' == '1'
      runInterp ⟨b 0, b 1, b 2, b 3, b 4, b 5, b 6, b 7, b 8, b 9⟩ env code
    | _, _, _ => "bad-case"
  else if op == "t2.bias" then
    match getField fs "n" >>= String.toNat? with
    | some n => toString (bias n)
    | none => "bad-case"
  else "bad-op"

end SfntV.Drive.T2
