import SfntV.Prelude.Bytes
import SfntV.Model.T2Interp
import SfntV.Model.T2Encode

/-! Line-protocol handlers for the Type 2 interpreter (C05) -/
namespace SfntV.Drive.T2
open SfntV SfntV.T2

def intsToString (l : List Int) : String := ",".intercalate (l.map toString)

def hexNats (l : List Nat) : String := toHex (l.map UInt8.ofNat)

def showCmd : Cmd → String
  | .moveTo x y => s!"m:{x},{y}"
  | .lineTo x y => s!"l:{x},{y}"
  | .curveTo a b c d e f => s!"c:{a},{b},{c},{d},{e},{f}"
  | .hintMask bs => s!"h:{hexNats bs}"
  | .cntrMask bs => s!"k:{hexNats bs}"

def showGlyph (g : Glyph) : String :=
  s!"ok w={g.width} hs={intsToString g.hstem} vs={intsToString g.vstem} cmds={";".intercalate (g.cmds.map showCmd)}"

def showOut : Outcome Glyph → String
  | .ok g => showGlyph g
  | .err e => s!"err:{e}"
  | .panic p => s!"panic:{p}"

def hexToNats (s : String) : Option (List Nat) := (fromHex s).map (·.map UInt8.toNat)

/-- "idx:hex;idx:hex" -/
def parseEntries (s : String) : Option (List (Nat × List Nat)) :=
  if s.isEmpty then some [] else
  (s.splitOn ";").mapM fun e =>
    match e.splitOn ":" with
    | [i, h] => do
      let i ← i.toNat?
      let b ← hexToNats h
      pure (i, b)
    | _ => none

def mkSubrs (n : Nat) (dflt : List Nat) (ents : List (Nat × List Nat)) : List (List Nat) :=
  let arr := ents.foldl (fun (a : Array (List Nat)) e => a.setIfInBounds e.1 e.2) (Array.replicate n dflt)
  arr.toList

def parseEnv (fs : List (String × String)) : Option Env := do
  let ns ← getField fs "ns" >>= String.toNat?
  let ng ← getField fs "ng" >>= String.toNat?
  let sd ← getField fs "sd" >>= hexToNats
  let gd ← getField fs "gd" >>= hexToNats
  let se ← getField fs "subrs" >>= parseEntries
  let ge ← getField fs "gsubrs" >>= parseEntries
  let dw ← getField fs "dw" >>= parseInt?
  let nw ← getField fs "nw" >>= parseInt?
  pure { subrs := mkSubrs ns sd se, gsubrs := mkSubrs ng gd ge, defaultWidth := dw, nominalWidth := nw }

@[noinline] def runInterp (q : Quirks) (env : Env) (code : List Nat) : String :=
  showOut (interp q env code)

/-! #### C04: round trip of the Go-emitted charstring through the specification interpreter -/

def parseIntList (s : String) : Option (List Int) :=
  if s.isEmpty then some [] else (s.splitOn ",").mapM String.toInt?

/-- input command, coordinates at scale 2⁻²⁰ -/
inductive InCmd
  | pts (kind : Char) (xs : List Int)
  | mask (cntr : Bool) (bytes : List Nat)

def parseInCmd (s : String) : Option InCmd :=
  match s.splitOn ":" with
  | ["m", a] => (parseIntList a).map (InCmd.pts 'm')
  | ["l", a] => (parseIntList a).map (InCmd.pts 'l')
  | ["c", a] => (parseIntList a).map (InCmd.pts 'c')
  | ["h", a] => (hexToNats a).map (InCmd.mask false)
  | ["k", a] => (hexToNats a).map (InCmd.mask true)
  | _ => none

/-- |decoded (2⁻¹⁶ units) − input (2⁻²⁰ units)| ≤ 2⁻¹⁷ -/
def close (dec : Int) (inp : Int) : Bool := (dec * 16 - inp).natAbs ≤ 8

def closeList : List Int → List Int → Bool
  | [], [] => true
  | a :: as, b :: bs => close a b && closeList as bs
  | _, _ => false

def cmdMatches : Cmd → InCmd → Bool
  | .moveTo x y, .pts 'm' xs => closeList [x, y] xs
  | .lineTo x y, .pts 'l' xs => closeList [x, y] xs
  | .curveTo a b c d e f, .pts 'c' xs => closeList [a, b, c, d, e, f] xs
  | .hintMask bs, .mask false cs => bs == cs
  | .cntrMask bs, .mask true cs => bs == cs
  | _, _ => false

def firstDiff : Nat → List Cmd → List InCmd → Option Nat
  | _, [], [] => none
  | i, a :: as, b :: bs => if cmdMatches a b then firstDiff (i + 1) as bs else some i
  | i, _, _ => some i

@[noinline] def roundTrip (env : Env) (code : List Nat) (w : Int) (hs vs : List Int) (cmds : List InCmd) : String :=
  match SfntV.T2.interp strict env code with
  | .err e => s!"err:{e}"
  | .panic p => s!"panic:{p}"
  | .ok g =>
    if !close g.width w then s!"diff:width:{g.width}"
    else if !closeList g.hstem hs then "diff:hstem"
    else if !closeList g.vstem vs then "diff:vstem"
    else match firstDiff 0 g.cmds cmds with
      | some i => s!"diff:cmd@{i}"
      | none => "ok"

def handleC04 (op : String) (fs : List (String × String)) : String :=
  if op == "t2.encnum" then
    match getField fs "n" >>= parseInt?, getField fs "k" >>= String.toNat? with
    | some n, some k =>
      let r := T2Enc.encodeNumber n k
      s!"{r.1} {hexNats r.2}"
    | _, _ => "bad-case"
  else if op == "t2.rt" then
    match getField fs "code" >>= hexToNats, getField fs "w" >>= parseInt?, getField fs "dw" >>= parseInt?,
          getField fs "nw" >>= parseInt?, getField fs "hs" >>= parseIntList, getField fs "vs" >>= parseIntList,
          (getField fs "cmds").bind (fun s => if s.isEmpty then some [] else (s.splitOn ";").mapM parseInCmd) with
    | some code, some w, some dw, some nw, some hs, some vs, some cmds =>
      roundTrip { subrs := [], gsubrs := [], defaultWidth := dw, nominalWidth := nw } code w hs vs cmds
    | _, _, _, _, _, _, _ => "bad-case"
  else "bad-op"

def prefixes : List String := ["t2."]

def handle (op : String) (fs : List (String × String)) : String :=
  if op == "t2.encnum" || op == "t2.rt" then handleC04 op fs
  else if op == "t2.dec" || op == "t2.spec" || op == "t2.rejects" || op == "t2.taint" then
    match parseEnv fs, getField fs "code" >>= hexToNats with
    | some env, some code =>
      if op == "t2.dec" then runInterp goQuirks env code
      else if op == "t2.spec" then runInterp strict env code
      else if op == "t2.rejects" then
        match interp strict env code with
        | .ok _ => "ok"
        | _ => "err"
      else
        match interpSt goQuirks env code with
        | .ok s => if s.inexact then "inexact" else "exact"
        | _ => "err"
    | _, _ => "bad-case"
  else if op == "t2.q" then
    -- diagnosis: run with an explicit quirk vector (10 characters 0/1, field order of `Quirks`)
    match parseEnv fs, getField fs "code" >>= hexToNats, getField fs "bits" with
    | some env, some code, some bits =>
      let b := fun (i : Nat) => bits.toList.getD i '0' == '1'
      runInterp ⟨b 0, b 1, b 2, b 3, b 4, b 5, b 6, b 7, b 8, b 9⟩ env code
    | _, _, _ => "bad-case"
  else if op == "t2.bias" then
    match getField fs "n" >>= String.toNat? with
    | some n => toString (bias n)
    | none => "bad-case"
  else "bad-op"

end SfntV.Drive.T2
