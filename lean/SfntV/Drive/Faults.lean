import SfntV.Model.Faults
import SfntV.Model.FaultsParser

namespace SfntV.Drive.Faults
open SfntV SfntV.Header SfntV.Faults SfntV.Parser SfntV.FaultsParser

/-- `tabs=<namehex>:<length or ->,...`; the data is `length` zero bytes (only counts matter) -/
def parseTabLens (s : String) : Option (List Entry) :=
  if s.isEmpty then some [] else
  (s.splitOn ",").mapM fun t =>
    match t.splitOn ":" with
    | [n, d] => do
      let name ← fromHex n
      if d == "-" then pure ⟨name, none⟩
      else
        let len ← d.toNat?
        pure ⟨name, some (List.replicate len 0)⟩
    | _ => none

/-- `ks=a-b` (inclusive) or a comma separated list -/
def parseKs (s : String) : Option (List Nat) :=
  match s.splitOn "-" with
  | [a, b] => do
    let a ← a.toNat?
    let b ← b.toNat?
    pure (List.range' a (b + 1 - a))
  | _ => parseNatList s

def showCount (withN : Bool) (r : Nat × Bool) : String :=
  (if withN then toString r.1 else "-") ++ (if r.2 then "!" else "")

@[noinline] def runWrite (kind : String) (withN : Bool) (hdr : Nat) (bodies : List Nat) (ks : List Nat) : String :=
  ",".intercalate (ks.map fun k =>
    if kind == "short" then showCount withN (countTo (shortW k) 0 hdr bodies)
    else if kind == "atomic" then showCount withN (countTo (atomicW k) 0 hdr bodies)
    else if kind == "late" then showCount withN (countTo (lateW k) 0 hdr bodies)
    else if kind == "sloppy" then showCount withN (countTo (sloppyW k) 0 hdr bodies)
    else "bad-writer")

@[noinline] def runSections (kind : String) (lens : List Nat) (ks : List Nat) : String :=
  ",".intercalate (ks.map fun k =>
    let e :=
      if kind == "short" then sectionsErr (shortW k) 0 lens
      else if kind == "atomic" then sectionsErr (atomicW k) 0 lens
      else if kind == "late" then sectionsErr (lateW k) 0 lens
      else sectionsErr (sloppyW k) 0 lens
    if e then "!" else ".")

/-- `bytes.Reader.ReadAt` on the file `hdr ++ zeros` of total length `len` (`len ≥ hdr.length`),
without materialising the zeros: `header.Read` never looks at table contents -/
def virtReader (hdr : Bytes) (len : Nat) : ReaderAt := fun off n =>
  if off < len ∧ off + n ≤ len then
    let b := (hdr.drop off).take n
    .ok (b ++ List.replicate (n - b.length) 0)
  else .eof

def cls : Outcome α → String
  | .ok _ => "o"
  | .err "io" => "i"
  | .err "invalid" => "v"
  | .err "unsupported" => "u"
  | .err _ => "e"
  | .panic _ => "p"

/-- five reader kinds per `k` on the Go side; the model knows a source only through `ReadAt`, so
its verdict is the same for all of them, except that the section reader (third) answers accesses
at or beyond its declared length itself, and a negative offset with EOF (class "invalid") -/
def five (s t : String) : String := s ++ s ++ t ++ s ++ s

/-- `io.NewSectionReader(base, 0, len).ReadAt`: EOF at or beyond the declared length without
touching the base; a read crossing the declared length is clamped and ends in EOF at best -/
def sectReader (base : ReaderAt) (len : Nat) : ReaderAt := fun off n =>
  if off ≥ len then .eof
  else if off + n > len then (match base off (len - off) with | .ok _ => .eof | e => e)
  else base off n

@[noinline] def runRead (mode : String) (hdr : Bytes) (len : Nat) (ks : List Nat) : String :=
  "".intercalate (ks.map fun k =>
    if mode == "trunc" then
      let ra := virtReader (hdr.take k) (min k len)
      five (cls (readR Gen.headerMaxTables ra)) (cls (readRG "invalid" Gen.headerMaxTables (sectReader ra len)))
    else
      let v := virtReader hdr len
      let ra : ReaderAt := fun off n => if off + n > k then .fault else v off n
      five (cls (readR Gen.headerMaxTables ra)) (cls (readRG "invalid" Gen.headerMaxTables (sectReader ra len))))

/-- expected verdicts of the property for a file cut at `k`: every `k` below the end of the last
table must be rejected (`E`) by the seekable reader, by the two streams ending with EOF at `k`,
and by the four further reader kinds (Size() reporting the declared length, io.SectionReader with
the declared length over the short base, ReaderAt+Seek, file-like) — the model of `header.Read`
consults nothing but `ReadAt`; nothing is demanded for cuts in the padding after the last table -/
@[noinline] def runExpectTrunc (lastEnd : Nat) (ks : List Nat) : String :=
  "".intercalate (ks.map fun k => if k < lastEnd then "EEEEEEE" else "-------")

/-- expected verdicts for sources failing at `k` (a ReaderAt, four kinds of streams, four further
ReaderAt kinds): a ReaderAt of any kind must be rejected when `k` lies before the end of the last
table (later offsets are never accessed); a stream is read to its end, so one that reports a
non-EOF error before the end of the file (`k < len`) must be rejected — the model:
`readAll f (some k) = err` for `k < |f|` -/
@[noinline] def runExpectReader (lastEnd len : Nat) (ks : List Nat) : String :=
  "".intercalate (ks.map fun k =>
    if len ≤ k then "---------"
    else (if k < lastEnd then "E" else "-") ++ "EEEE" ++ (if k < lastEnd then "EEEE" else "----"))

/-! ### parser level -/

def mkOracle (chunks : List Nat) : Oracle where
  give i w a :=
    let c := if chunks.isEmpty then w else chunks.getD (i % chunks.length) 1
    max 1 (min c (min w a))
  pos := by
    intro i w a hw ha
    simp only
    omega

def parseOp (s : String) : Option Op :=
  match s.splitOn ":" with
  | ["seek", n] => n.toNat?.map Op.seek
  | ["discard", n] => n.toNat?.map Op.discard
  | ["bytes", n] => n.toNat?.map Op.bytes
  | ["read", n] => n.toNat?.map Op.read
  | ["u8"] => some .u8
  | ["u16"] => some .u16
  | ["i16"] => some .i16
  | ["u32"] => some .u32
  | ["u16s"] => some .u16s
  | ["pos"] => some .pos
  | ["size"] => some .size
  | _ => none

/-- the input both sides build from (seed, index) -/
def genByte (seed i : Nat) : UInt8 :=
  let h := ((i / 2 + seed) * 2654435761 / 65536) % 65536
  if h % 3 == 0 then (if i % 2 == 1 then UInt8.ofNat ((h / 3) % 6) else 0)
  else if i % 2 == 0 then UInt8.ofNat (h / 256) else UInt8.ofNat (h % 256)

def genInput (seed n : Nat) : Bytes := (List.range n).map (genByte seed)

def digestGo (i s : Nat) : Bytes → Nat
  | [] => s
  | x :: r => digestGo (i + 1) ((s + (i + 1) * x.toNat) % 1000003) r

def digest (b : Bytes) : String := s!"{b.length}:{digestGo 0 0 b}"

/-- `fault = true`: the source ends with a non-EOF error -/
def showOutF (fault : Bool) : Out → String
  | .unit => "unit"
  | .num n => s!"num:{n}"
  | .int i => s!"int:{i}"
  | .data b => s!"data:{digest b}"
  | .nums l => s!"nums:{natsToString l}"
  | .short b => (if fault then "fshort:" else "short:") ++ digest b
  | .eof => if fault then "fault" else "eof"

/-- model of the parser on the source ending at `k`: output and cursor after each op -/
def runFault (o : Oracle) (flen : Nat) (fault : Bool) : P → List Op → List String
  | _, [] => []
  | p, op :: ops =>
    let r := faultStep o flen p op
    s!"{showOutF fault r.2}@{r.1.cursor}" :: runFault o flen fault r.1 ops

/-- the property on the complete input: outputs of the byte view up to the first operation that
needs a byte `≥ k` (or fails on the complete input anyway), which must be an error -/
def runNeed (input : Bytes) (k : Nat) : Nat → List Op → List String
  | _, [] => []
  | c, op :: ops =>
    if k < needEnd input c op then ["ERR"]
    else
      let r := specStep input c op
      if isErr r.2 then ["ERR"] else s!"{showOutF false r.2}@{r.1}" :: runNeed input k r.1 ops

@[noinline] def runPops (input : Bytes) (fault : Bool) (chunks : List Nat) (ops : List Op) (ks : List Nat) : String :=
  "|".intercalate (ks.map fun k =>
    ";".intercalate (runFault (mkOracle chunks) input.length (fault && k < input.length) (initAt input k) ops))

@[noinline] def runPneed (input : Bytes) (ops : List Op) (ks : List Nat) : String :=
  "|".intercalate (ks.map fun k => ";".intercalate (runNeed input k 0 ops))

def prefixes : List String := ["faults."]

def handle (op : String) (fs : List (String × String)) : String :=
  match (getField fs "ks").bind parseKs with
  | none => "bad-case"
  | some ks =>
  if op == "faults.write" then
    match (getField fs "scaler").bind String.toNat?, (getField fs "tabs").bind parseTabLens,
        getField fs "w" with
    | some sc, some ts, some kind =>
      let withN := getField fs "api" != some "CFFPDF"
      match write sc ts with
      | .ok w =>
        let hdr := w.header.length
        let bodies := w.bodies.map (·.2.length)
        runWrite kind withN hdr bodies ks
      | .err _ => ",".intercalate (ks.map fun _ => showCount withN (0, true))
      | .panic _ => "panic"
    | _, _, _ => "bad-case"
  else if op == "faults.cffwrite" then
    match (getField fs "lens").bind parseNatList, getField fs "w" with
    | some lens, some kind => runSections kind lens ks
    | _, _ => "bad-case"
  else if op == "faults.hread" then
    match (getField fs "hdr").bind fromHex, (getField fs "len").bind String.toNat?, getField fs "mode" with
    | some hdr, some len, some mode => runRead mode hdr len ks
    | _, _, _ => "bad-case"
  else if op == "faults.trunc" || op == "faults.reader" then
    match (getField fs "lastend").bind String.toNat?, (getField fs "len").bind String.toNat? with
    | some le, some len => if op == "faults.trunc" then runExpectTrunc le ks else runExpectReader le len ks
    | _, _ => "bad-case"
  else if op == "faults.count" then
    -- the property: the count is what the destination took, error iff the file does not fit,
    -- success only with the whole file; "_" where the API reports no count
    match (getField fs "total").bind String.toNat? with
    | some total =>
      let c := if getField fs "api" == some "CFFPDF" || getField fs "api" == some "CFF" then "_" else "="
      "".intercalate (ks.map fun k => c ++ (if k < total then "!-" else ".T"))
    | none => "bad-case"
  else if op == "faults.genpanic" then
    -- the generator could not build a corpus item on this tree (the library panicked or refused
    -- its own output): expected is that it can
    "built"
  else if op == "faults.region" then
    -- diagnostic (beyond the property's quantifier): an unreadable region that is touched makes
    -- the read fail
    "".intercalate (ks.map fun _ => ".")
  else if op == "faults.decoder" then
    -- the property at table level: for every k and every failure variant the decoder does not
    -- return a value after one of its reads has failed (three variants per k)
    "".intercalate (ks.map fun _ => "...")
  else if op == "faults.cffread" then
    match (getField fs "len").bind String.toNat? with
    | some len => "".intercalate (ks.map fun k => if k < len then "E" else "A")
    | none => "bad-case"
  else if op == "faults.pops" || op == "faults.pneed" then
    match (getField fs "inseed").bind String.toNat?, (getField fs "len").bind String.toNat?,
        (getField fs "chunks").bind parseNatList, getField fs "kind",
        (getField fs "ops").map (fun s => if s.isEmpty then [] else s.splitOn ";") with
    | some seed, some len, some chunks, some kind, some opStrs =>
      match opStrs.mapM parseOp with
      | none => "bad-op"
      | some ops =>
        if !(ops.all fun o => decide o.ok) then "panic"
        else
          let input := genInput seed len
          if op == "faults.pops" then runPops input (kind == "fault") chunks ops ks
          else runPneed input ops ks
    | _, _, _, _, _ => "bad-case"
  else if op == "faults.tail" then
    -- the model: the directory is readable and every table is complete, so the readers accept,
    -- except the stream that fails (non-EOF) before its end: `io.ReadAll` returns that error
    match (getField fs "len").bind String.toNat?, (getField fs "probe").bind String.toNat? with
    | some len, some probe =>
      "".intercalate (ks.map fun k => if k < probe then "EEEE" else if k < len then "AAAE" else "AAAA")
    | _, _ => "bad-case"
  else "bad-op"

end SfntV.Drive.Faults
