import SfntV.Model.Faults

namespace SfntV.Drive.Faults
open SfntV SfntV.Header SfntV.Faults

/-- `tabs=<namehex>:<length or ->,...`; the data is `length` zero bytes (only counts matter) -/
def parseTabLens (s : String) : Option (List Entry) :=
  if s.isEmpty then some [] else
  (s.splitOn ",").mapM fun t =>
    match t.splitOn ":" with
    | [n, d] => do
      let name ← fromHex n
      if d == "-" then pure ⟨name, none⟩
      else
        let len ← d.toNat?
        pure ⟨name, some (List.replicate len 0)⟩
    | _ => none

/-- `ks=a-b` (inclusive) or a comma separated list -/
def parseKs (s : String) : Option (List Nat) :=
  match s.splitOn "-" with
  | [a, b] => do
    let a ← a.toNat?
    let b ← b.toNat?
    pure (List.range' a (b + 1 - a))
  | _ => parseNatList s

def showCount (withN : Bool) (r : Nat × Bool) : String :=
  (if withN then toString r.1 else "-") ++ (if r.2 then "!" else "")

@[noinline] def runWrite (kind : String) (withN : Bool) (hdr : Nat) (bodies : List Nat) (ks : List Nat) : String :=
  ",".intercalate (ks.map fun k =>
    if kind == "short" then showCount withN (countTo (shortW k) 0 hdr bodies)
    else if kind == "atomic" then showCount withN (countTo (atomicW k) 0 hdr bodies)
    else if kind == "late" then showCount withN (countTo (lateW k) 0 hdr bodies)
    else if kind == "sloppy" then showCount withN (countTo (sloppyW k) 0 hdr bodies)
    else "bad-writer")

@[noinline] def runSections (kind : String) (lens : List Nat) (ks : List Nat) : String :=
  ",".intercalate (ks.map fun k =>
    let e :=
      if kind == "short" then sectionsErr (shortW k) 0 lens
      else if kind == "atomic" then sectionsErr (atomicW k) 0 lens
      else if kind == "late" then sectionsErr (lateW k) 0 lens
      else sectionsErr (sloppyW k) 0 lens
    if e then "!" else ".")

/-- `bytes.Reader.ReadAt` on the file `hdr ++ zeros` of total length `len` (`len ≥ hdr.length`),
without materialising the zeros: `header.Read` never looks at table contents -/
def virtReader (hdr : Bytes) (len : Nat) : ReaderAt := fun off n =>
  if off < len ∧ off + n ≤ len then
    let b := (hdr.drop off).take n
    .ok (b ++ List.replicate (n - b.length) 0)
  else .eof

def cls : Outcome α → String
  | .ok _ => "o"
  | .err "io" => "i"
  | .err "invalid" => "v"
  | .err "unsupported" => "u"
  | .err _ => "e"
  | .panic _ => "p"

@[noinline] def runRead (mode : String) (hdr : Bytes) (len : Nat) (ks : List Nat) : String :=
  "".intercalate (ks.map fun k =>
    if mode == "trunc" then cls (readR Gen.headerMaxTables (virtReader (hdr.take k) (min k len)))
    else
      let v := virtReader hdr len
      cls (readR Gen.headerMaxTables (fun off n => if off + n > k then .fault else v off n)))

/-- expected verdicts of the property for fault point `k`: every `k` below the end of the last
table must be rejected (`E`) by the seekable and by the streaming reader; nothing is demanded
for the padding after the last table (`-`) -/
@[noinline] def runExpect (lastEnd : Nat) (ks : List Nat) : String :=
  "".intercalate (ks.map fun k => if k < lastEnd then "EE" else "--")

def prefixes : List String := ["faults."]

def handle (op : String) (fs : List (String × String)) : String :=
  match (getField fs "ks").bind parseKs with
  | none => "bad-case"
  | some ks =>
  if op == "faults.write" then
    match (getField fs "scaler").bind String.toNat?, (getField fs "tabs").bind parseTabLens,
        getField fs "w" with
    | some sc, some ts, some kind =>
      let withN := getField fs "api" != some "CFFPDF"
      match write sc ts with
      | .ok w =>
        let hdr := w.header.length
        let bodies := w.bodies.map (·.2.length)
        runWrite kind withN hdr bodies ks
      | .err _ => ",".intercalate (ks.map fun _ => showCount withN (0, true))
      | .panic _ => "panic"
    | _, _, _ => "bad-case"
  else if op == "faults.cffwrite" then
    match (getField fs "lens").bind parseNatList, getField fs "w" with
    | some lens, some kind => runSections kind lens ks
    | _, _ => "bad-case"
  else if op == "faults.hread" then
    match (getField fs "hdr").bind fromHex, (getField fs "len").bind String.toNat?, getField fs "mode" with
    | some hdr, some len, some mode => runRead mode hdr len ks
    | _, _, _ => "bad-case"
  else if op == "faults.trunc" || op == "faults.reader" then
    match (getField fs "lastend").bind String.toNat? with
    | some le => runExpect le ks
    | none => "bad-case"
  else if op == "faults.tail" then
    -- the model: the directory is readable and every table is complete, so the readers accept,
    -- except the stream that fails (non-EOF) before its end: `io.ReadAll` returns that error
    match (getField fs "len").bind String.toNat? with
    | some len => "".intercalate (ks.map fun k => if k < len then "AAAE" else "AAAA")
    | none => "bad-case"
  else "bad-op"

end SfntV.Drive.Faults
