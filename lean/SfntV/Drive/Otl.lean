import SfntV.Model.OtlCoverage
import SfntV.Model.OtlClassDef
import SfntV.Model.OtlLookupList
import SfntV.Model.OtlGsub
import SfntV.Model.OtlGpos
import SfntV.Model.OtlFeatureList
import SfntV.Model.OtlGdef
import SfntV.Model.OtlScriptList
import SfntV.Model.OtlGtab

namespace SfntV.Drive.Otl
open SfntV SfntV.Otl

/-- `a-b,c,d-e` → expanded list -/
def parseRuns (s : String) : Option (List Nat) :=
  if s.isEmpty then some [] else
  (s.splitOn ",").foldr (fun t acc => do
    let r ← acc
    match t.splitOn "-" with
    | [a] => do let x ← a.toNat?; pure (x :: r)
    | [a, b] => do
      let x ← a.toNat?
      let y ← b.toNat?
      pure (List.range' x (y + 1 - x) ++ r)
    | _ => none) (some [])

/-- `g:i,g:i` -/
def parsePairs (s : String) : Option (List (Nat × Int)) :=
  if s.isEmpty then some [] else
  (s.splitOn ",").mapM fun t =>
    match t.splitOn ":" with
    | [a, b] => do
      let x ← a.toNat?
      let y ← b.toInt?
      pure (x, y)
    | _ => none

def showPairs (l : List (Nat × Nat)) : String :=
  ",".intercalate (l.map fun p => s!"{p.1}:{p.2}")

def showOutcome {α} (f : α → String) : Outcome α → String
  | .ok a => "ok:" ++ f a
  | .err e => "err:" ++ e
  | .panic _ => "panic"

/-- FNV-1a, 64 bit -/
def fnv (b : Bytes) : UInt64 :=
  b.foldl (fun h x => (h ^^^ x.toUInt64) * 1099511628211) 14695981039346656037

def showBytes (b : Bytes) : String :=
  if b.length ≤ 4096 then toHex b else s!"len:{b.length};fnv:{(fnv b).toNat}"

/-! coverage -/

def covEncodeOut (rev : Outcome (List Nat)) : String :=
  match rev with
  | .ok rev =>
    match Cov.encode rev, Cov.encodeLen rev with
    | .ok b, .ok n => s!"ok:{showBytes b};len={n}"
    | _, _ => "panic"
  | _ => "panic"

def sortDedup (l : List Nat) : List Nat :=
  let s := l.mergeSort (· ≤ ·)
  s.foldr (fun x acc => match acc with
    | y :: _ => if x == y then acc else x :: acc
    | [] => [x]) []

def covProp (data : Bytes) (rev : List Nat) (len : Nat) : String :=
  let ws := bytesToWords data
  if Cov.specEntries ws != some rev.zipIdx then "fail:entries"
  else if data.length != len then "fail:len"
  else if data.length != min (4 + 2 * rev.length) (4 + 6 * Cov.numRuns rev) then "fail:minimal"
  else if ws.head? != some (if 4 + 2 * rev.length ≤ 4 + 6 * Cov.numRuns rev then 1 else 2) then "fail:format"
  else "ok"

/-! classdef: `runs=s-e:c,...` (non-overlapping explicit entries, class 0 allowed) -/

def parseClassRuns (s : String) : Option (List (Nat × Nat × Nat)) :=
  if s.isEmpty then some [] else
  (s.splitOn ",").mapM fun t =>
    match t.splitOn ":" with
    | [r, c] => do
      let cls ← c.toNat?
      match r.splitOn "-" with
      | [a] => do let x ← a.toNat?; pure (x, x, cls)
      | [a, b] => do
        let x ← a.toNat?
        let y ← b.toNat?
        pure (x, y, cls)
      | _ => none
    | _ => none

def classArray (runs : List (Nat × Nat × Nat)) : Array Nat :=
  runs.foldl (fun arr r =>
    (List.range' r.1 (r.2.1 + 1 - r.1)).foldl (fun a g => a.set! g r.2.2) arr) (Array.replicate 65536 0)

@[noinline] def cdAppend (empty : Bool) (arr : Array Nat) (lo hi : Nat) : String :=
  let f := fun g => arr.getD g 0
  let n := ClassDef.appendLenF empty f lo hi
  match ClassDef.appendF empty f lo hi with
  | .ok b => s!"ok:{showBytes b};len={n}"
  | .err e => "err:" ++ e
  | .panic _ => s!"panic;len={n}"

/-- canonical form of a decoded class table: maximal runs `s-e:c` in glyph order -/
def showClassRuns (arr : Array Nat) : String :=
  let rec go (g : Nat) (fuel : Nat) (cur : Option (Nat × Nat)) (acc : List String) : List String :=
    match fuel with
    | 0 => acc
    | fuel + 1 =>
      let c := if g < 65536 then arr.getD g 0 else 0
      let (acc, cur) :=
        match cur with
        | some (s, cc) => if c == cc then (acc, cur) else (s!"{s}-{g - 1}:{cc}" :: acc, none)
        | none => (acc, none)
      let cur := match cur with
        | some x => some x
        | none => if c != 0 then some (g, c) else none
      go (g + 1) fuel cur acc
  ",".intercalate (go 0 65537 none []).reverse

def entriesArray (es : List (Nat × Nat)) : Array Nat :=
  -- newest first: apply oldest first so that the newest wins
  es.reverse.foldl (fun a p => if p.1 < 65536 then a.set! p.1 p.2 else a) (Array.replicate 65536 0)

@[noinline] def cdCheck (ws : List Nat) (arr : Array Nat) (pts : List Nat) : Bool :=
  pts.all (fun g => ClassDef.specClass ws g == some (arr.getD g 0))

@[noinline] def cdProp (data : Bytes) (arr : Array Nat) (pts : List Nat) (len : Nat) : String :=
  if data.length != len then "fail:len"
  else if cdCheck (bytesToWords data) arr pts then "ok" else "fail:class"

/-! lookup list -/

def blob (len seed : Nat) : Bytes :=
  (List.range len).map fun k => UInt8.ofNat ((seed + k * (2 * seed + 1) + k / 256) % 256)

def parseSub (s : String) : Option LL.Sub :=
  match s.splitOn ":" with
  | ["n", l, sd] => do
    let len ← l.toNat?
    let seed ← sd.toNat?
    pure ⟨0, blob len seed⟩
  | ["h", hx] => do
    let b ← fromHex hx
    pure ⟨0, b⟩
  | ["g", g, d] => do
    let gid ← g.toNat?
    let delta ← d.toNat?
    pure ⟨1, wordsToBytes [1, 6, delta, 1, 1, gid]⟩        -- Gsub1_1{Cov:{gid}, Delta}
  | ["p", g, d] => do
    let gid ← g.toNat?
    let dx ← d.toNat?
    pure ⟨2, wordsToBytes [1, 8, 4, dx, 1, 1, gid]⟩        -- Gpos1_1{Cov:{gid:0}, Adjust:{XAdvance:dx}}
  | _ => none

def parseLookup (s : String) : Option LL.Lookup :=
  match s.splitOn "/" with
  | [t, f, m, subs] => do
    let tp ← t.toNat?
    let fl ← f.toNat?
    let mfs ← m.toNat?
    let ss ← if subs.isEmpty then some [] else (subs.splitOn "|").mapM parseSub
    pure ⟨tp, fl, mfs, ss⟩
  | _ => none

def parseLL (s : String) : Option (List LL.Lookup) :=
  if s.isEmpty then some [] else (s.splitOn ";").mapM parseLookup

/-! GSUB subtables -/

/-- `a.b.c|d|-` -/
def parseSeqs (s : String) : Option (List (List Nat)) :=
  if s.isEmpty then some [] else
  (s.splitOn "|").mapM fun t =>
    if t == "-" then some [] else (t.splitOn ".").mapM String.toNat?

def showSeqs (l : List (List Nat)) : String :=
  "|".intercalate (l.map fun r => if r.isEmpty then "-" else ".".intercalate (r.map toString))

/-- ligature sets: `out<in.in,out<|-|...` -/
def parseLigSets (s : String) : Option (List (List Gsub.Lig)) :=
  if s.isEmpty then some [] else
  (s.splitOn "|").mapM fun t =>
    if t == "-" then some [] else
    (t.splitOn ",").mapM fun q =>
      match q.splitOn "<" with
      | [o, ins] => do
        let out ← o.toNat?
        let inp ← if ins.isEmpty then some [] else (ins.splitOn ".").mapM String.toNat?
        pure ⟨inp, out⟩
      | _ => none

def showLigSets (l : List (List Gsub.Lig)) : String :=
  "|".intercalate (l.map fun set =>
    if set.isEmpty then "-" else
    ",".intercalate (set.map fun g => s!"{g.out}<" ++ ".".intercalate (g.inp.map toString)))

def sortPairs (l : List (Nat × Nat)) : List (Nat × Nat) := l.mergeSort fun a b => a.1 ≤ b.1

def showSub : Gsub.Sub → String
  | .s11 gs d => s!"1.1;cov={natsToString (sortDedup gs)};delta={d}"
  | .s12 cov subs => s!"1.2;cov={showPairs (sortPairs cov)};subs={natsToString subs}"
  | .seq tp cov seqs => s!"{tp}.1;cov={showPairs (sortPairs cov)};seqs={showSeqs seqs}"
  | .s41 cov repl => s!"4.1;cov={showPairs (sortPairs cov)};ligs={showLigSets repl}"

def encLen (b : Outcome Bytes) (n : Outcome Nat) : String :=
  match b, n with
  | .ok b, .ok n => s!"ok:{showBytes b};len={n}"
  | .panic _, .ok n => s!"panic;len={n}"
  | _, _ => "panic"

def gsubEncode (st : String) (fs : List (String × String)) : String :=
  match (getField fs "cov").bind parseRuns with
  | none => "bad-case"
  | some cov =>
    if st == "11" then
      match (getField fs "delta").bind String.toNat? with
      | some d => encLen (Gsub.encode11 cov d) (Gsub.encodeLen11 cov)
      | none => "bad-case"
    else if st == "12" then
      match (getField fs "subs").bind parseNatList with
      | some subs => encLen (Gsub.encode12 cov subs) (Gsub.encodeLen12 cov subs)
      | none => "bad-case"
    else if st == "41" then
      match (getField fs "ligs").bind parseLigSets with
      | some repl => encLen (Gsub.encode41 cov repl) (Gsub.encodeLen41 cov repl)
      | none => "bad-case"
    else
      match (getField fs "seqs").bind parseSeqs with
      | some seqs => encLen (Gsub.encodeSeq cov seqs) (Gsub.encodeLenSeq cov seqs)
      | none => "bad-case"

/-- direct predicate: the specification's substitution function on the real encoder's bytes is the
structure's: every covered glyph maps to its entry, a sample of other glyphs is not covered -/
def gsubProp (st : String) (fs : List (String × String)) : String :=
  match (getField fs "cov").bind parseRuns, (getField fs "data").bind fromHex with
  | some cov, some data =>
    let tp := if st == "11" || st == "12" then 1 else if st == "21" then 2 else 3
    let others := ([0, 1, 65535] ++ cov.flatMap (fun g => [g - 1, g + 1])).filter (fun g => !cov.contains g && g < 65536)
    let expected : Option (List (List Nat)) :=
      if st == "11" then
        (getField fs "delta").bind String.toNat? |>.map fun d => cov.map fun g => [(g + d) % 65536]
      else if st == "12" then
        (getField fs "subs").bind parseNatList |>.map fun subs => subs.map fun x => [x]
      else (getField fs "seqs").bind parseSeqs
    match expected with
    | none => "bad-case"
    | some ex =>
      if ex.length != cov.length then "bad-case"
      else if !(cov.zip ex).all (fun p => Gsub.specSubst tp data p.1 == some p.2) then "fail:covered"
      else if !others.all (fun g => Gsub.specSubst tp data g == none) then "fail:uncovered"
      else "ok"
  | _, _ => "bad-case"

/-! GPOS subtables -/

/-- `-` (nil) or eight numbers `a.b.c.d.e.f.g.h` -/
def parseVR (s : String) : Option Gpos.VR :=
  if s == "-" then some none else (s.splitOn ".").mapM String.toNat? |>.map some

def showVR : Gpos.VR → String
  | none => "-"
  | some fs => ".".intercalate (fs.map toString)

def parseVRs (s : String) : Option (List Gpos.VR) :=
  if s.isEmpty then some [] else (s.splitOn ",").mapM parseVR

/-- `first>second:vr/vr,second:vr/vr;first>...` -/
def parsePairs21 (s : String) : Option (List (Nat × Gpos.PairSet)) :=
  if s.isEmpty then some [] else
  (s.splitOn ";").mapM fun t =>
    match t.splitOn ">" with
    | [f, ps] => do
      let first ← f.toNat?
      let set ← (ps.splitOn ",").mapM fun q =>
        match q.splitOn ":" with
        | [g, vs] =>
          match vs.splitOn "/" with
          | [a, b] => do
            let sec ← g.toNat?
            let v1 ← parseVR a
            let v2 ← parseVR b
            pure (sec, v1, v2)
          | _ => none
        | _ => none
      pure (first, set)
    | _ => none

def showPairSet (ps : Gpos.PairSet) : String :=
  ",".intercalate (ps.map fun p => s!"{p.1}:{showVR p.2.1}/{showVR p.2.2}")

/-- last entry for a second glyph wins; sorted by second glyph -/
def canonPairSet (ps : Gpos.PairSet) : Gpos.PairSet :=
  let dedup := ps.foldl (fun acc p => (acc.filter fun q => q.1 != p.1) ++ [p]) []
  dedup.mergeSort fun a b => a.1 ≤ b.1

def showGposSub : Gpos.Sub → String
  | .s11 cov vr => s!"1.1;cov={showPairs (sortPairs cov)};vr={showVR vr}"
  | .s12 cov vrs => s!"1.2;cov={showPairs (sortPairs cov)};vrs={",".intercalate (vrs.map showVR)}"
  | .s21 cov sets =>
    let groups := (sortPairs cov).filterMap fun e =>
      match sets[e.2]? with
      | some ps => if ps.isEmpty then none else some s!"{e.1}>{showPairSet (canonPairSet ps)}"
      | none => none
    "2.1;" ++ ";".intercalate groups

def gposEncode (st : String) (fs : List (String × String)) : String :=
  if st == "21" then
    match (getField fs "pairs").bind parsePairs21 with
    | some ps =>
      let firsts := ps.map (·.1)
      let sets := ps.map (·.2)
      encLen (Gpos.encode21 firsts sets) (Gpos.encodeLen21 firsts sets)
    | none => "bad-case"
  else
    match (getField fs "cov").bind parseRuns with
    | none => "bad-case"
    | some cov =>
      if st == "11" then
        match (getField fs "vr").bind parseVR with
        | some vr => encLen (Gpos.encode11 cov vr) (Gpos.encodeLen11 cov vr)
        | none => "bad-case"
      else
        match (getField fs "vrs").bind parseVRs with
        | some vrs => encLen (Gpos.encode12 cov vrs) (Gpos.encodeLen12 cov vrs)
        | none => "bad-case"

/-! feature lists: `taghex:l.l.l|taghex:-` -/

def parseFL (s : String) : Option (List FL.Feature) :=
  if s.isEmpty then some [] else
  (s.splitOn "|").mapM fun t =>
    match t.splitOn ":" with
    | [tg, ls] => do
      let tag ← fromHex tg
      let lookups ← if ls == "-" then some [] else (ls.splitOn ".").mapM String.toNat?
      pure ⟨tag, lookups⟩
    | _ => none

def showFL (fl : List FL.Feature) : String :=
  "|".intercalate (fl.map fun f =>
    toHex f.tag ++ ":" ++ (if f.lookups.isEmpty then "-" else ".".intercalate (f.lookups.map toString)))

/-! GDEF: `gc=<class runs>|empty|-`, `mac=…`, `sets=-|none|<runs>;<runs>;…` (`e` = empty set) -/

@[noinline] def classPart (runs : List (Nat × Nat × Nat)) : Gdef.ClassPart :=
  let arr := classArray runs
  let lo := runs.foldl (fun a r => min a r.1) 0xFFFF
  let hi := runs.foldl (fun a r => max a r.2.1) 0
  let f := fun g => arr.getD g 0
  ⟨ClassDef.appendF runs.isEmpty f lo hi, ClassDef.appendLenF runs.isEmpty f lo hi⟩

def parseClassField (s : Option String) : Option (Option Gdef.ClassPart) :=
  match s with
  | none => none
  | some "-" => some none
  | some "empty" => some (some (classPart []))
  | some t => (parseClassRuns t).map fun r => some (classPart r)

def parseSetsField (s : Option String) : Option (Option (List (List Nat))) :=
  match s with
  | none => none
  | some "-" => some none
  | some "none" => some (some [])
  | some t => ((t.splitOn ";").mapM fun q => if q == "e" then some [] else parseRuns q).map some

def showSets (ss : List (List Nat)) : String :=
  String.join (ss.map fun s => "{" ++ natsToString (sortDedup s) ++ "}")

def showGdef (r : Gdef.Read) : String :=
  let cls := fun (o : Option (List (Nat × Nat))) => match o with
    | some es => showClassRuns (entriesArray es)
    | none => "-"
  let sets := match r.sets with
    | some ss => showSets ss
    | none => "-"
  s!"gc={cls r.gc};mac={cls r.mac};sets={sets}"

/-! script lists: `scripthex:langhex|-:required:o.o.o|-` -/

def parseSL (s : String) : Option (List SL.Entry) :=
  if s.isEmpty then some [] else
  (s.splitOn ",").mapM fun t =>
    match t.splitOn ":" with
    | [sc, lg, rq, op] => do
      let script ← fromHex sc
      let lang ← if lg == "-" then some [] else fromHex lg
      let req ← rq.toNat?
      let opt ← if op == "-" then some [] else (op.splitOn ".").mapM String.toNat?
      pure ⟨script, lang, req, opt⟩
    | _ => none

/-- Go map semantics: the last entry stored for a tag pair wins; printed sorted by (script, lang) -/
def canonSL (es : List SL.Entry) : List SL.Entry :=
  let dedup := es.foldl (fun acc e => (acc.filter fun q => !(q.script == e.script && q.lang == e.lang)) ++ [e]) []
  dedup.mergeSort fun a b => SL.tagLt a.script b.script || (a.script == b.script && SL.tagLe a.lang b.lang)

def showSL (es : List SL.Entry) : String :=
  ",".intercalate ((canonSL es).map fun e =>
    toHex e.script ++ ":" ++ (if e.lang.isEmpty then "-" else toHex e.lang) ++ s!":{e.required}:" ++
    (if e.optional.isEmpty then "-" else ".".intercalate (e.optional.map toString)))

/-! GSUB/GPOS table: the three lists in their own case-line syntaxes, `nil` for a nil list -/

def optList {α} (s : Option String) (parse : String → Option α) : Option (Option α) :=
  match s with
  | none => none
  | some "nil" => some none
  | some t => (parse t).map some

def encPart {α} (x : Option α) (enc : α → Outcome Bytes) : Outcome (Option Bytes) :=
  match x with
  | none => .ok none
  | some v =>
    match enc v with
    | .ok b => .ok (some b)
    | .err e => .err e
    | .panic s => .panic s

def showGtab (i : Gtab.Info) : String :=
  let fl := match i.features with
    | some f => showFL f
    | none => "nil"
  let ll := match i.lookups with
    | some ls => "^".intercalate (ls.map fun (l : LL.ReadLookup Gsub.Sub) =>
        s!"{l.type}/{l.flags}/{l.mfs}/" ++ "&".intercalate (l.subs.map showSub))
    | none => "nil"
  s!"sl={showSL i.scripts};fl={fl};ll={ll}"

def prefixes : List String := ["otl."]

def handle (op : String) (fs : List (String × String)) : String :=
  if op == "otl.cov.encode" then
    match getField fs "rev", getField fs "tab" with
    | some r, _ =>
      match parseRuns r with
      | some rev => covEncodeOut (.ok rev)
      | none => "bad-case"
    | none, some t =>
      match parsePairs t with
      | some m => covEncodeOut (Cov.revOf m)
      | none => "bad-case"
    | _, _ => "bad-case"
  else if op == "otl.cov.read" then
    match (getField fs "data").bind fromHex with
    | some d => showOutcome showPairs (Cov.read d)
    | none => "bad-case"
  else if op == "otl.cov.readset" then
    match (getField fs "data").bind fromHex with
    | some d => showOutcome (fun l => natsToString (sortDedup l)) (Cov.readSet d)
    | none => "bad-case"
  else if op == "otl.cov.prop" then
    match (getField fs "data").bind fromHex, (getField fs "rev").bind parseRuns,
        (getField fs "len").bind String.toNat? with
    | some d, some rev, some len => covProp d rev len
    | _, _, _ => "bad-case"
  else if op == "otl.classdef.append" then
    match (getField fs "runs").bind parseClassRuns with
    | some runs =>
      let arr := classArray runs
      let lo := runs.foldl (fun a r => min a r.1) 0xFFFF
      let hi := runs.foldl (fun a r => max a r.2.1) 0
      cdAppend runs.isEmpty arr lo hi
    | none => "bad-case"
  else if op == "otl.classdef.read" then
    match (getField fs "data").bind fromHex with
    | some d =>
      match ClassDef.read d with
      | .ok es => "ok:" ++ showClassRuns (entriesArray es)
      | .err e => "err:" ++ e
      | .panic _ => "panic"
    | none => "bad-case"
  else if op == "otl.classdef.prop" then
    match (getField fs "data").bind fromHex, (getField fs "runs").bind parseClassRuns,
        (getField fs "len").bind String.toNat? with
    | some d, some runs, some len =>
      let arr := classArray runs
      let pts := [0, 65535] ++ runs.flatMap (fun r => [r.1 - 1, r.1, r.2.1, min 65535 (r.2.1 + 1)])
      -- all glyphs for small tables; for large ones the run boundaries, thinned to ≤ ~2000 points
      let stride := pts.length / 2000 + 1
      let pts := if d.length ≤ 1024 then List.range 65536
        else (pts.zipIdx.filter (fun p => p.2 % stride == 0)).map (·.1)
      cdProp d arr pts len
    | _, _, _ => "bad-case"
  else if op == "otl.ll.encode" then
    match (getField fs "ll").bind parseLL with
    | some ll => showOutcome showBytes (LL.encode ll)
    | none => "bad-case"
  else if op == "otl.ll.prop" then
    -- direct predicate on the bytes of the real encoder (given in full, or by length+hash, in
    -- which case the model bytes are used after checking they have that hash)
    match (getField fs "ll").bind parseLL, (getField fs "ext").bind String.toNat? with
    | some ll, some ext =>
      let data : Option Bytes :=
        match (getField fs "data").bind fromHex with
        | some d => some d
        | none =>
          match LL.encode ll with
          | .ok b => if some (showBytes b) == getField fs "sum" then some b else none
          | _ => none
      match data with
      | some d => if LL.recovers d ext ll then "ok" else "fail:recover"
      | none => "fail:bytes"
    | _, _ => "bad-case"
  else if op == "otl.gsub.encode" then
    match getField fs "st" with
    | some st => gsubEncode st fs
    | none => "bad-case"
  else if op == "otl.gsub.prop" then
    match getField fs "st" with
    | some st => gsubProp st fs
    | none => "bad-case"
  else if op == "otl.ll.read" then
    match (getField fs "data").bind fromHex, (getField fs "ext").bind String.toNat? with
    | some d, some ext =>
      showOutcome (fun ls => ";".intercalate (ls.map fun (l : LL.ReadLookup Nat) =>
        s!"{l.type}/{l.flags}/{l.mfs}/" ++ "|".intercalate (l.subs.map toString))) (LL.readLL d ext)
    | _, _ => "bad-case"
  else if op == "otl.gdef.encode" then
    match parseClassField (getField fs "gc"), parseClassField (getField fs "mac"),
        parseSetsField (getField fs "sets") with
    | some gc, some mac, some sets => showOutcome showBytes (Gdef.encode gc mac sets)
    | _, _, _ => "bad-case"
  else if op == "otl.gdef.read" then
    match (getField fs "data").bind fromHex with
    | some d => showOutcome showGdef (Gdef.read d)
    | none => "bad-case"
  else if op == "otl.gtab.encode" then
    match optList (getField fs "sl") parseSL, optList (getField fs "fl") parseFL,
        optList (getField fs "ll") parseLL with
    | some sl, some fl, some ll =>
      match encPart sl SL.encode, encPart fl FL.encode, encPart ll LL.encode with
      | .ok s, .ok f, .ok l => showOutcome showBytes (Gtab.encode s f l)
      | _, _, _ => "panic"
    | _, _, _ => "bad-case"
  else if op == "otl.gtab.read" then
    match (getField fs "data").bind fromHex with
    | some d => showOutcome showGtab (Gtab.readGsub d)
    | none => "bad-case"
  else if op == "otl.sl.encode" then
    match (getField fs "sl").bind parseSL with
    | some es => showOutcome showBytes (SL.encode es)
    | none => "bad-case"
  else if op == "otl.sl.read" then
    match (getField fs "data").bind fromHex with
    | some d => showOutcome showSL (SL.read d)
    | none => "bad-case"
  else if op == "otl.fl.encode" then
    match (getField fs "fl").bind parseFL with
    | some fl => showOutcome showBytes (FL.encode fl)
    | none => "bad-case"
  else if op == "otl.fl.read" then
    match (getField fs "data").bind fromHex with
    | some d => showOutcome showFL (FL.read d)
    | none => "bad-case"
  else if op == "otl.gpos.encode" then
    match getField fs "st" with
    | some st => gposEncode st fs
    | none => "bad-case"
  else if op == "otl.gpos.read" then
    match (getField fs "type").bind String.toNat?, (getField fs "data").bind fromHex with
    | some tp, some d => showOutcome showGposSub (Gpos.readSubtable tp d)
    | _, _ => "bad-case"
  else if op == "otl.gsub.read" then
    match (getField fs "type").bind String.toNat?, (getField fs "data").bind fromHex with
    | some tp, some d => showOutcome showSub (Gsub.readSubtable tp d)
    | _, _ => "bad-case"
  else "bad-op"

end SfntV.Drive.Otl
