import SfntV.Model.OtlCoverage
import SfntV.Model.OtlClassDef
import SfntV.Model.OtlLookupList
import SfntV.Model.OtlGsub
import SfntV.Model.OtlGpos
import SfntV.Model.OtlFeatureList
import SfntV.Model.OtlGdef
import SfntV.Model.OtlScriptList
import SfntV.Model.OtlGtab
import SfntV.Model.OtlGposMark
import SfntV.Model.OtlContext

namespace SfntV.Drive.Otl
open SfntV SfntV.Otl

/-- `a-b,c,d-e` → expanded list -/
def parseRuns (s : String) : Option (List Nat) :=
  if s.isEmpty then some [] else
  (s.splitOn ",").foldr (fun t acc => do
    let r ← acc
    match t.splitOn "-" with
    | [a] => do let x ← a.toNat?; pure (x :: r)
    | [a, b] => do
      let x ← a.toNat?
      let y ← b.toNat?
      pure (List.range' x (y + 1 - x) ++ r)
    | _ => none) (some [])

/-- `g:i,g:i` -/
def parsePairs (s : String) : Option (List (Nat × Int)) :=
  if s.isEmpty then some [] else
  (s.splitOn ",").mapM fun t =>
    match t.splitOn ":" with
    | [a, b] => do
      let x ← a.toNat?
      let y ← b.toInt?
      pure (x, y)
    | _ => none

def showPairs (l : List (Nat × Nat)) : String :=
  ",".intercalate (l.map fun p => s!"{p.1}:{p.2}")

def showOutcome {α} (f : α → String) : Outcome α → String
  | .ok a => "ok:" ++ f a
  | .err e => "err:" ++ e
  | .panic _ => "panic"

/-- FNV-1a, 64 bit -/
def fnv (b : Bytes) : UInt64 :=
  b.foldl (fun h x => (h ^^^ x.toUInt64) * 1099511628211) 14695981039346656037

def showBytes (b : Bytes) : String :=
  if b.length ≤ 4096 then toHex b else s!"len:{b.length};fnv:{(fnv b).toNat}"

/-! coverage -/

def covEncodeOut (rev : Outcome (List Nat)) : String :=
  match rev with
  | .ok rev =>
    match Cov.encode rev, Cov.encodeLen rev with
    | .ok b, .ok n => s!"ok:{showBytes b};len={n}"
    | _, _ => "panic"
  | _ => "panic"

def sortDedup (l : List Nat) : List Nat :=
  let s := l.mergeSort (· ≤ ·)
  s.foldr (fun x acc => match acc with
    | y :: _ => if x == y then acc else x :: acc
    | [] => [x]) []

def covProp (data : Bytes) (rev : List Nat) (len : Nat) : String :=
  let ws := bytesToWords data
  if Cov.specEntries ws != some rev.zipIdx then "fail:entries"
  else if data.length != len then "fail:len"
  else if data.length != min (4 + 2 * rev.length) (4 + 6 * Cov.numRuns rev) then "fail:minimal"
  else if ws.head? != some (if 4 + 2 * rev.length ≤ 4 + 6 * Cov.numRuns rev then 1 else 2) then "fail:format"
  else "ok"

/-! classdef: `runs=s-e:c,...` (non-overlapping explicit entries, class 0 allowed) -/

def parseClassRuns (s : String) : Option (List (Nat × Nat × Nat)) :=
  if s.isEmpty then some [] else
  (s.splitOn ",").mapM fun t =>
    match t.splitOn ":" with
    | [r, c] => do
      let cls ← c.toNat?
      match r.splitOn "-" with
      | [a] => do let x ← a.toNat?; pure (x, x, cls)
      | [a, b] => do
        let x ← a.toNat?
        let y ← b.toNat?
        pure (x, y, cls)
      | _ => none
    | _ => none

def classArray (runs : List (Nat × Nat × Nat)) : Array Nat :=
  runs.foldl (fun arr r =>
    (List.range' r.1 (r.2.1 + 1 - r.1)).foldl (fun a g => a.set! g r.2.2) arr) (Array.replicate 65536 0)

@[noinline] def cdAppend (empty : Bool) (arr : Array Nat) (lo hi : Nat) : String :=
  let f := fun g => arr.getD g 0
  let n := ClassDef.appendLenF empty f lo hi
  match ClassDef.appendF empty f lo hi with
  | .ok b => s!"ok:{showBytes b};len={n}"
  | .err e => "err:" ++ e
  | .panic _ => s!"panic;len={n}"

/-- canonical form of a decoded class table: maximal runs `s-e:c` in glyph order -/
def showClassRuns (arr : Array Nat) : String :=
  let rec go (g : Nat) (fuel : Nat) (cur : Option (Nat × Nat)) (acc : List String) : List String :=
    match fuel with
    | 0 => acc
    | fuel + 1 =>
      let c := if g < 65536 then arr.getD g 0 else 0
      let (acc, cur) :=
        match cur with
        | some (s, cc) => if c == cc then (acc, cur) else (s!"{s}-{g - 1}:{cc}" :: acc, none)
        | none => (acc, none)
      let cur := match cur with
        | some x => some x
        | none => if c != 0 then some (g, c) else none
      go (g + 1) fuel cur acc
  ",".intercalate (go 0 65537 none []).reverse

def entriesArray (es : List (Nat × Nat)) : Array Nat :=
  -- newest first: apply oldest first so that the newest wins
  es.reverse.foldl (fun a p => if p.1 < 65536 then a.set! p.1 p.2 else a) (Array.replicate 65536 0)

@[noinline] def cdCheck (ws : List Nat) (arr : Array Nat) (pts : List Nat) : Bool :=
  pts.all (fun g => ClassDef.specClass ws g == some (arr.getD g 0))

@[noinline] def cdProp (data : Bytes) (arr : Array Nat) (pts : List Nat) (len : Nat) : String :=
  if data.length != len then "fail:len"
  else if cdCheck (bytesToWords data) arr pts then "ok" else "fail:class"

/-! lookup list -/

def blob (len seed : Nat) : Bytes :=
  (List.range len).map fun k => UInt8.ofNat ((seed + k * (2 * seed + 1) + k / 256) % 256)

def parseSub (s : String) : Option LL.Sub :=
  match s.splitOn ":" with
  | ["n", l, sd] => do
    let len ← l.toNat?
    let seed ← sd.toNat?
    pure ⟨0, blob len seed⟩
  | ["h", hx] => do
    let b ← fromHex hx
    pure ⟨0, b⟩
  | ["g", g, d] => do
    let gid ← g.toNat?
    let delta ← d.toNat?
    pure ⟨1, wordsToBytes [1, 6, delta, 1, 1, gid]⟩        -- Gsub1_1{Cov:{gid}, Delta}
  | ["p", g, d] => do
    let gid ← g.toNat?
    let dx ← d.toNat?
    pure ⟨2, wordsToBytes [1, 8, 4, dx, 1, 1, gid]⟩        -- Gpos1_1{Cov:{gid:0}, Adjust:{XAdvance:dx}}
  | _ => none

def parseLookup (s : String) : Option LL.Lookup :=
  match s.splitOn "/" with
  | [t, f, m, subs] => do
    let tp ← t.toNat?
    let fl ← f.toNat?
    let mfs ← m.toNat?
    let ss ← if subs.isEmpty then some [] else (subs.splitOn "|").mapM parseSub
    pure ⟨tp, fl, mfs, ss⟩
  | _ => none

def parseLL (s : String) : Option (List LL.Lookup) :=
  if s.isEmpty then some [] else (s.splitOn ";").mapM parseLookup

/-! GSUB subtables -/

/-- `a.b.c|d|-` -/
def parseSeqs (s : String) : Option (List (List Nat)) :=
  if s.isEmpty then some [] else
  (s.splitOn "|").mapM fun t =>
    if t == "-" then some [] else (t.splitOn ".").mapM String.toNat?

def showSeqs (l : List (List Nat)) : String :=
  "|".intercalate (l.map fun r => if r.isEmpty then "-" else ".".intercalate (r.map toString))

/-- ligature sets: `out<in.in,out<|-|...` -/
def parseLigSets (s : String) : Option (List (List Gsub.Lig)) :=
  if s.isEmpty then some [] else
  (s.splitOn "|").mapM fun t =>
    if t == "-" then some [] else
    (t.splitOn ",").mapM fun q =>
      match q.splitOn "<" with
      | [o, ins] => do
        let out ← o.toNat?
        let inp ← if ins.isEmpty then some [] else (ins.splitOn ".").mapM String.toNat?
        pure ⟨inp, out⟩
      | _ => none

def showLigSets (l : List (List Gsub.Lig)) : String :=
  "|".intercalate (l.map fun set =>
    if set.isEmpty then "-" else
    ",".intercalate (set.map fun g => s!"{g.out}<" ++ ".".intercalate (g.inp.map toString)))

def sortPairs (l : List (Nat × Nat)) : List (Nat × Nat) := l.mergeSort fun a b => a.1 ≤ b.1

def showSub : Gsub.Sub → String
  | .s11 gs d => s!"1.1;cov={natsToString (sortDedup gs)};delta={d}"
  | .s12 cov subs => s!"1.2;cov={showPairs (sortPairs cov)};subs={natsToString subs}"
  | .seq tp cov seqs => s!"{tp}.1;cov={showPairs (sortPairs cov)};seqs={showSeqs seqs}"
  | .s41 cov repl => s!"4.1;cov={showPairs (sortPairs cov)};ligs={showLigSets repl}"
  | .s81 r =>
    let covs := fun (l : List (List (Nat × Nat))) => "/".intercalate (l.map fun c => showPairs (sortPairs c))
    s!"8.1;in={showPairs (sortPairs r.input)};back={covs r.back};look={covs r.look};subs={natsToString r.subs}"

def encLen (b : Outcome Bytes) (n : Outcome Nat) : String :=
  match b, n with
  | .ok b, .ok n => s!"ok:{showBytes b};len={n}"
  | .panic _, .ok n => s!"panic;len={n}"
  | _, _ => "panic"

def gsubEncode (st : String) (fs : List (String × String)) : String :=
  match (getField fs "cov").bind parseRuns with
  | none => "bad-case"
  | some cov =>
    if st == "11" then
      match (getField fs "delta").bind String.toNat? with
      | some d => encLen (Gsub.encode11 cov d) (Gsub.encodeLen11 cov)
      | none => "bad-case"
    else if st == "12" then
      match (getField fs "subs").bind parseNatList with
      | some subs => encLen (Gsub.encode12 cov subs) (Gsub.encodeLen12 cov subs)
      | none => "bad-case"
    else if st == "81" then
      let covs := fun (k : String) => match getField fs k with
        | some t => if t.isEmpty then some [] else
            (t.splitOn "/").mapM fun q => if q == "e" then some [] else parseRuns q
        | none => none
      match covs "back", covs "look", (getField fs "subs").bind parseNatList with
      | some bk, some lk, some subs => encLen (Gsub.encode81 cov bk lk subs) (Gsub.encodeLen81 cov bk lk subs)
      | _, _, _ => "bad-case"
    else if st == "41" then
      match (getField fs "ligs").bind parseLigSets with
      | some repl => encLen (Gsub.encode41 cov repl) (Gsub.encodeLen41 cov repl)
      | none => "bad-case"
    else
      match (getField fs "seqs").bind parseSeqs with
      | some seqs => encLen (Gsub.encodeSeq cov seqs) (Gsub.encodeLenSeq cov seqs)
      | none => "bad-case"

/-- direct predicate: the specification's substitution function on the real encoder's bytes is the
structure's: every covered glyph maps to its entry, a sample of other glyphs is not covered -/
def gsubProp (st : String) (fs : List (String × String)) : String :=
  match (getField fs "cov").bind parseRuns, (getField fs "data").bind fromHex with
  | some cov, some data =>
    let tp := if st == "11" || st == "12" then 1 else if st == "21" then 2 else 3
    let others := ([0, 1, 65535] ++ cov.flatMap (fun g => [g - 1, g + 1])).filter (fun g => !cov.contains g && g < 65536)
    let expected : Option (List (List Nat)) :=
      if st == "11" then
        (getField fs "delta").bind String.toNat? |>.map fun d => cov.map fun g => [(g + d) % 65536]
      else if st == "12" then
        (getField fs "subs").bind parseNatList |>.map fun subs => subs.map fun x => [x]
      else (getField fs "seqs").bind parseSeqs
    match expected with
    | none => "bad-case"
    | some ex =>
      if ex.length != cov.length then "bad-case"
      else if !(cov.zip ex).all (fun p => Gsub.specSubst tp data p.1 == some p.2) then "fail:covered"
      else if !others.all (fun g => Gsub.specSubst tp data g == none) then "fail:uncovered"
      else "ok"
  | _, _ => "bad-case"

/-! GPOS subtables -/

/-- `-` (nil) or eight numbers `a.b.c.d.e.f.g.h` -/
def parseVR (s : String) : Option Gpos.VR :=
  if s == "-" then some none else (s.splitOn ".").mapM String.toNat? |>.map some

def showVR : Gpos.VR → String
  | none => "-"
  | some fs => ".".intercalate (fs.map toString)

def parseVRs (s : String) : Option (List Gpos.VR) :=
  if s.isEmpty then some [] else (s.splitOn ",").mapM parseVR

/-- `first>second:vr/vr,second:vr/vr;first>...` -/
def parsePairs21 (s : String) : Option (List (Nat × Gpos.PairSet)) :=
  if s.isEmpty then some [] else
  (s.splitOn ";").mapM fun t =>
    match t.splitOn ">" with
    | [f, ps] => do
      let first ← f.toNat?
      let set ← (ps.splitOn ",").mapM fun q =>
        match q.splitOn ":" with
        | [g, vs] =>
          match vs.splitOn "/" with
          | [a, b] => do
            let sec ← g.toNat?
            let v1 ← parseVR a
            let v2 ← parseVR b
            pure (sec, v1, v2)
          | _ => none
        | _ => none
      pure (first, set)
    | _ => none

def showPairSet (ps : Gpos.PairSet) : String :=
  ",".intercalate (ps.map fun p => s!"{p.1}:{showVR p.2.1}/{showVR p.2.2}")

/-- last entry for a second glyph wins; sorted by second glyph -/
def canonPairSet (ps : Gpos.PairSet) : Gpos.PairSet :=
  let dedup := ps.foldl (fun acc p => (acc.filter fun q => q.1 != p.1) ++ [p]) []
  dedup.mergeSort fun a b => a.1 ≤ b.1

def showGposSub : Gpos.Sub → String
  | .s11 cov vr => s!"1.1;cov={showPairs (sortPairs cov)};vr={showVR vr}"
  | .s12 cov vrs => s!"1.2;cov={showPairs (sortPairs cov)};vrs={",".intercalate (vrs.map showVR)}"
  | .s21 cov sets =>
    let groups := (sortPairs cov).filterMap fun e =>
      match sets[e.2]? with
      | some ps => if ps.isEmpty then none else some s!"{e.1}>{showPairSet (canonPairSet ps)}"
      | none => none
    "2.1;" ++ ";".intercalate groups

def gposEncode (st : String) (fs : List (String × String)) : String :=
  if st == "21" then
    match (getField fs "pairs").bind parsePairs21 with
    | some ps =>
      let firsts := ps.map (·.1)
      let sets := ps.map (·.2)
      encLen (Gpos.encode21 firsts sets) (Gpos.encodeLen21 firsts sets)
    | none => "bad-case"
  else
    match (getField fs "cov").bind parseRuns with
    | none => "bad-case"
    | some cov =>
      if st == "11" then
        match (getField fs "vr").bind parseVR with
        | some vr => encLen (Gpos.encode11 cov vr) (Gpos.encodeLen11 cov vr)
        | none => "bad-case"
      else
        match (getField fs "vrs").bind parseVRs with
        | some vrs => encLen (Gpos.encode12 cov vrs) (Gpos.encodeLen12 cov vrs)
        | none => "bad-case"

/-! feature lists: `taghex:l.l.l|taghex:-` -/

def parseFL (s : String) : Option (List FL.Feature) :=
  if s.isEmpty then some [] else
  (s.splitOn "|").mapM fun t =>
    match t.splitOn ":" with
    | [tg, ls] => do
      let tag ← fromHex tg
      let lookups ← if ls == "-" then some [] else (ls.splitOn ".").mapM String.toNat?
      pure ⟨tag, lookups⟩
    | _ => none

def showFL (fl : List FL.Feature) : String :=
  "|".intercalate (fl.map fun f =>
    toHex f.tag ++ ":" ++ (if f.lookups.isEmpty then "-" else ".".intercalate (f.lookups.map toString)))

/-! GPOS 2.2 / 3.1 / 4.1 / 6.1: anchors `x.y`, marks `class.x.y`, rows separated by `;` (`e` = empty row) -/

def parseAnchor (s : String) : Option GposMark.Anchor :=
  match s.splitOn "." with
  | [x, y] => do let a ← x.toNat?; let b ← y.toNat?; pure (a, b)
  | _ => none

def showAnchor (a : GposMark.Anchor) : String := s!"{a.1}.{a.2}"

def parseMarks (s : String) : Option (List GposMark.Mark) :=
  if s.isEmpty then some [] else
  (s.splitOn ",").mapM fun t =>
    match t.splitOn "." with
    | [c, x, y] => do let k ← c.toNat?; let a ← x.toNat?; let b ← y.toNat?; pure ⟨k, (a, b)⟩
    | _ => none

def parseRows (s : String) : Option (List (List GposMark.Anchor)) :=
  if s.isEmpty then some [] else
  (s.splitOn ";").mapM fun t => if t == "e" then some [] else (t.splitOn ",").mapM parseAnchor

def showRows (rs : List (List GposMark.Anchor)) : String :=
  ";".intercalate (rs.map fun r => if r.isEmpty then "e" else ",".intercalate (r.map showAnchor))

def parseEE (s : String) : Option (List GposMark.EntryExit) :=
  if s.isEmpty then some [] else
  (s.splitOn ",").mapM fun t =>
    match t.splitOn "." with
    | [a, b, c, d] => do
      let a ← a.toNat?; let b ← b.toNat?; let c ← c.toNat?; let d ← d.toNat?
      pure ((a, b), (c, d))
    | _ => none

def parseRows22 (s : String) : Option (List GposMark.Row) :=
  if s.isEmpty then some [] else
  (s.splitOn ";").mapM fun t =>
    if t == "e" then some [] else
    (t.splitOn ",").mapM fun q =>
      match q.splitOn "/" with
      | [a, b] => do let v1 ← parseVR a; let v2 ← parseVR b; pure (v1, v2)
      | _ => none

def showRows22 (rs : List GposMark.Row) : String :=
  ";".intercalate (rs.map fun r => if r.isEmpty then "e" else
    ",".intercalate (r.map fun p => showVR p.1 ++ "/" ++ showVR p.2))

@[noinline] def classPart22 (runs : List (Nat × Nat × Nat)) : GposMark.ClassPart :=
  let arr := classArray runs
  let lo := runs.foldl (fun a r => min a r.1) 0xFFFF
  let hi := runs.foldl (fun a r => max a r.2.1) 0
  let f := fun g => arr.getD g 0
  ⟨ClassDef.appendF runs.isEmpty f lo hi, ClassDef.appendLenF runs.isEmpty f lo hi⟩

def parseClass22 (s : Option String) : Option GposMark.ClassPart :=
  match s with
  | none => none
  | some "empty" => some (classPart22 [])
  | some t => (parseClassRuns t).map classPart22

def gposMarkEncode (st : String) (fs : List (String × String)) : String :=
  if st == "41" || st == "61" then
    match (getField fs "mcov").bind parseRuns, (getField fs "bcov").bind parseRuns,
        (getField fs "marks").bind parseMarks, (getField fs "bases").bind parseRows with
    | some mc, some bc, some ms, some bs =>
      encLen (GposMark.encode41 mc bc ms bs) (GposMark.encodeLen41 mc bc ms bs)
    | _, _, _, _ => "bad-case"
  else if st == "31" then
    match (getField fs "cov").bind parseRuns, (getField fs "recs").bind parseEE with
    | some cov, some recs => encLen (GposMark.encode31 cov recs) (GposMark.encodeLen31 cov recs)
    | _, _ => "bad-case"
  else
    match (getField fs "cov").bind parseRuns, parseClass22 (getField fs "c1"), parseClass22 (getField fs "c2"),
        (getField fs "rows").bind parseRows22 with
    | some cov, some c1, some c2, some rows =>
      encLen (GposMark.encode22 cov c1 c2 rows) (GposMark.encodeLen22 cov c1 c2 rows)
    | _, _, _, _ => "bad-case"

def gposMarkRead (tp : Nat) (d : Bytes) : String :=
  match bytesToWords d with
  | [] => "err:io"
  | fmt :: _ =>
    if (tp == 4 || tp == 6) && fmt == 1 then
      showOutcome (fun (r : GposMark.MarkBase) =>
        s!"{tp}.1;mcov={showPairs (sortPairs r.mcov)};bcov={showPairs (sortPairs r.bcov)};marks=" ++
        ",".intercalate (r.marks.map fun m => s!"{m.cls}.{showAnchor m.anchor}") ++ ";bases=" ++ showRows r.bases)
        (GposMark.read41 d)
    else if tp == 3 && fmt == 1 then
      showOutcome (fun (r : List (Nat × Nat) × List GposMark.EntryExit) =>
        s!"3.1;cov={showPairs (sortPairs r.1)};recs=" ++
        ",".intercalate (r.2.map fun e => showAnchor e.1 ++ "." ++ showAnchor e.2)) (GposMark.read31 d)
    else if tp == 2 && fmt == 2 then
      showOutcome (fun (r : GposMark.Read22) =>
        s!"2.2;cov={natsToString (sortDedup r.cov)};c1={showClassRuns (entriesArray r.class1)};c2={showClassRuns (entriesArray r.class2)};rows={showRows22 r.rows}")
        (GposMark.read22 d)
    else "err:invalid"

/-! contextual lookups: rule `b.b/i.i/l.l>s:l+s:l`, set = rules joined by `,` (`-` nil, `e` empty),
sets joined by `|` -/

def parseDots (s : String) : Option (List Nat) :=
  if s.isEmpty then some [] else (s.splitOn ".").mapM String.toNat?

def parseActions (s : String) : Option (List Ctx.Action) :=
  if s.isEmpty then some [] else
  (s.splitOn "+").mapM fun t =>
    match t.splitOn ":" with
    | [a, b] => do let x ← a.toNat?; let y ← b.toNat?; pure (x, y)
    | _ => none

def parseRule (s : String) : Option Ctx.Rule :=
  match s.splitOn ">" with
  | [seqs, acts] =>
    match seqs.splitOn "/" with
    | [b, i, l] => do
      let bk ← parseDots b; let inp ← parseDots i; let lk ← parseDots l; let as ← parseActions acts
      pure ⟨bk, inp, lk, as⟩
    | _ => none
  | _ => none

def parseRuleSets (s : String) : Option (List (Option (List Ctx.Rule))) :=
  if s.isEmpty then some [] else
  (s.splitOn "|").mapM fun t =>
    if t == "-" then some none
    else if t == "e" then some (some [])
    else ((t.splitOn ",").mapM parseRule).map some

def showDots (l : List Nat) : String := ".".intercalate (l.map toString)
def showActions (l : List Ctx.Action) : String := "+".intercalate (l.map fun a => s!"{a.1}:{a.2}")
def showRule (r : Ctx.Rule) : String :=
  s!"{showDots r.back}/{showDots r.input}/{showDots r.look}>{showActions r.actions}"
def showRuleSets (l : List (Option (List Ctx.Rule))) : String :=
  "|".intercalate (l.map fun s => match s with
    | none => "-"
    | some rs => if rs.isEmpty then "e" else ",".intercalate (rs.map showRule))

def parseCovList (s : Option String) : Option (List (List Nat)) :=
  match s with
  | none => none
  | some t => if t.isEmpty then some [] else
      (t.splitOn "/").mapM fun q => if q == "e" then some [] else parseRuns q

def showCovSets (l : List (List Nat)) : String :=
  "/".intercalate (l.map fun c => natsToString (sortDedup c))

@[noinline] def ctxClassPart (runs : List (Nat × Nat × Nat)) : Ctx.ClassPart :=
  let arr := classArray runs
  let lo := runs.foldl (fun a r => min a r.1) 0xFFFF
  let hi := runs.foldl (fun a r => max a r.2.1) 0
  let f := fun g => arr.getD g 0
  ⟨ClassDef.appendF runs.isEmpty f lo hi, ClassDef.appendLenF runs.isEmpty f lo hi⟩

def parseCtxClass (s : Option String) : Option Ctx.ClassPart :=
  match s with
  | none => none
  | some "empty" => some (ctxClassPart [])
  | some t => (parseClassRuns t).map ctxClassPart

def ctxEncode (st : String) (fs : List (String × String)) : String :=
  if st == "c3" then
    match parseCovList (getField fs "covs"), (getField fs "acts").bind parseActions with
    | some cs, some as => encLen (Ctx.encode3 cs as) (Ctx.encodeLen3 cs as)
    | _, _ => "bad-case"
  else if st == "C3" then
    match parseCovList (getField fs "back"), parseCovList (getField fs "input"), parseCovList (getField fs "look"),
        (getField fs "acts").bind parseActions with
    | some b, some i, some l, some as => encLen (Ctx.encodeC3 b i l as) (Ctx.encodeLenC3 b i l as)
    | _, _, _, _ => "bad-case"
  else
    match (getField fs "cov").bind parseRuns, (getField fs "sets").bind parseRuleSets with
    | some cov, some sets =>
      if st == "c1" then encLen (Ctx.encode1 cov sets) (Ctx.encodeLen1 cov sets)
      else if st == "C1" then encLen (Ctx.encodeC1 cov sets) (Ctx.encodeLenC1 cov sets)
      else if st == "c2" then
        match parseCtxClass (getField fs "cd") with
        | some cd => encLen (Ctx.encode2 cov cd sets) (Ctx.encodeLen2 cov cd sets)
        | none => "bad-case"
      else
        match parseCtxClass (getField fs "cb"), parseCtxClass (getField fs "ci"), parseCtxClass (getField fs "cl") with
        | some cb, some ci, some cl => encLen (Ctx.encodeC2 cov cb ci cl sets) (Ctx.encodeLenC2 cov cb ci cl sets)
        | _, _, _ => "bad-case"
    | _, _ => "bad-case"

def showCtx : Ctx.Sub → String
  | .c1 ch cov sets => s!"{if ch then 6 else 5}.1;cov={showPairs (sortPairs cov)};sets={showRuleSets sets}"
  | .c2 ch cov cls sets =>
    s!"{if ch then 6 else 5}.2;cov={showPairs (sortPairs cov)};classes=" ++
      "/".intercalate (cls.map fun c => showClassRuns (entriesArray c)) ++ s!";sets={showRuleSets sets}"
  | .c3 b i l as ch =>
    if ch then s!"6.3;back={showCovSets b};in={showCovSets i};look={showCovSets l};acts={showActions as}"
    else s!"5.3;covs={showCovSets i};acts={showActions as}"

/-! GDEF: `gc=<class runs>|empty|-`, `mac=…`, `sets=-|none|<runs>;<runs>;…` (`e` = empty set) -/

@[noinline] def classPart (runs : List (Nat × Nat × Nat)) : Gdef.ClassPart :=
  let arr := classArray runs
  let lo := runs.foldl (fun a r => min a r.1) 0xFFFF
  let hi := runs.foldl (fun a r => max a r.2.1) 0
  let f := fun g => arr.getD g 0
  ⟨ClassDef.appendF runs.isEmpty f lo hi, ClassDef.appendLenF runs.isEmpty f lo hi⟩

def parseClassField (s : Option String) : Option (Option Gdef.ClassPart) :=
  match s with
  | none => none
  | some "-" => some none
  | some "empty" => some (some (classPart []))
  | some t => (parseClassRuns t).map fun r => some (classPart r)

def parseSetsField (s : Option String) : Option (Option (List (List Nat))) :=
  match s with
  | none => none
  | some "-" => some none
  | some "none" => some (some [])
  | some t => ((t.splitOn ";").mapM fun q => if q == "e" then some [] else parseRuns q).map some

def showSets (ss : List (List Nat)) : String :=
  String.join (ss.map fun s => "{" ++ natsToString (sortDedup s) ++ "}")

def showGdef (r : Gdef.Read) : String :=
  let cls := fun (o : Option (List (Nat × Nat))) => match o with
    | some es => showClassRuns (entriesArray es)
    | none => "-"
  let sets := match r.sets with
    | some ss => showSets ss
    | none => "-"
  s!"gc={cls r.gc};mac={cls r.mac};sets={sets}"

/-! script lists: `scripthex:langhex|-:required:o.o.o|-` -/

def parseSL (s : String) : Option (List SL.Entry) :=
  if s.isEmpty then some [] else
  (s.splitOn ",").mapM fun t =>
    match t.splitOn ":" with
    | [sc, lg, rq, op] => do
      let script ← fromHex sc
      let lang ← if lg == "-" then some [] else fromHex lg
      let req ← rq.toNat?
      let opt ← if op == "-" then some [] else (op.splitOn ".").mapM String.toNat?
      pure ⟨script, lang, req, opt⟩
    | _ => none

/-- Go map semantics: the last entry stored for a tag pair wins; printed sorted by (script, lang) -/
def canonSL (es : List SL.Entry) : List SL.Entry :=
  let dedup := es.foldl (fun acc e => (acc.filter fun q => !(q.script == e.script && q.lang == e.lang)) ++ [e]) []
  dedup.mergeSort fun a b => SL.tagLt a.script b.script || (a.script == b.script && SL.tagLe a.lang b.lang)

def showSL (es : List SL.Entry) : String :=
  ",".intercalate ((canonSL es).map fun e =>
    toHex e.script ++ ":" ++ (if e.lang.isEmpty then "-" else toHex e.lang) ++ s!":{e.required}:" ++
    (if e.optional.isEmpty then "-" else ".".intercalate (e.optional.map toString)))

/-! GSUB/GPOS table: the three lists in their own case-line syntaxes, `nil` for a nil list -/

def optList {α} (s : Option String) (parse : String → Option α) : Option (Option α) :=
  match s with
  | none => none
  | some "nil" => some none
  | some t => (parse t).map some

def encPart {α} (x : Option α) (enc : α → Outcome Bytes) : Outcome (Option Bytes) :=
  match x with
  | none => .ok none
  | some v =>
    match enc v with
    | .ok b => .ok (some b)
    | .err e => .err e
    | .panic s => .panic s

def showGtab (i : Gtab.Info) : String :=
  let fl := match i.features with
    | some f => showFL f
    | none => "nil"
  let ll := match i.lookups with
    | some ls => "^".intercalate (ls.map fun (l : LL.ReadLookup Gsub.Sub) =>
        s!"{l.type}/{l.flags}/{l.mfs}/" ++ "&".intercalate (l.subs.map showSub))
    | none => "nil"
  s!"sl={showSL i.scripts};fl={fl};ll={ll}"

def prefixes : List String := ["otl."]

def handle (op : String) (fs : List (String × String)) : String :=
  if op == "otl.cov.encode" then
    match getField fs "rev", getField fs "tab" with
    | some r, _ =>
      match parseRuns r with
      | some rev => covEncodeOut (.ok rev)
      | none => "bad-case"
    | none, some t =>
      match parsePairs t with
      | some m => covEncodeOut (Cov.revOf m)
      | none => "bad-case"
    | _, _ => "bad-case"
  else if op == "otl.cov.read" then
    match (getField fs "data").bind fromHex with
    | some d => showOutcome showPairs (Cov.read d)
    | none => "bad-case"
  else if op == "otl.cov.readset" then
    match (getField fs "data").bind fromHex with
    | some d => showOutcome (fun l => natsToString (sortDedup l)) (Cov.readSet d)
    | none => "bad-case"
  else if op == "otl.cov.prop" then
    match (getField fs "data").bind fromHex, (getField fs "rev").bind parseRuns,
        (getField fs "len").bind String.toNat? with
    | some d, some rev, some len => covProp d rev len
    | _, _, _ => "bad-case"
  else if op == "otl.classdef.append" then
    match (getField fs "runs").bind parseClassRuns with
    | some runs =>
      let arr := classArray runs
      let lo := runs.foldl (fun a r => min a r.1) 0xFFFF
      let hi := runs.foldl (fun a r => max a r.2.1) 0
      cdAppend runs.isEmpty arr lo hi
    | none => "bad-case"
  else if op == "otl.classdef.read" then
    match (getField fs "data").bind fromHex with
    | some d =>
      match ClassDef.read d with
      | .ok es => "ok:" ++ showClassRuns (entriesArray es)
      | .err e => "err:" ++ e
      | .panic _ => "panic"
    | none => "bad-case"
  else if op == "otl.classdef.prop" then
    match (getField fs "data").bind fromHex, (getField fs "runs").bind parseClassRuns,
        (getField fs "len").bind String.toNat? with
    | some d, some runs, some len =>
      let arr := classArray runs
      let pts := [0, 65535] ++ runs.flatMap (fun r => [r.1 - 1, r.1, r.2.1, min 65535 (r.2.1 + 1)])
      -- all glyphs for small tables; for large ones the run boundaries, thinned to ≤ ~2000 points
      let stride := pts.length / 2000 + 1
      let pts := if d.length ≤ 1024 then List.range 65536
        else (pts.zipIdx.filter (fun p => p.2 % stride == 0)).map (·.1)
      cdProp d arr pts len
    | _, _, _ => "bad-case"
  else if op == "otl.ll.encode" then
    match (getField fs "ll").bind parseLL with
    | some ll => showOutcome showBytes (LL.encode ll)
    | none => "bad-case"
  else if op == "otl.ll.prop" then
    -- direct predicate on the bytes of the real encoder (given in full, or by length+hash, in
    -- which case the model bytes are used after checking they have that hash)
    match (getField fs "ll").bind parseLL, (getField fs "ext").bind String.toNat? with
    | some ll, some ext =>
      let data : Option Bytes :=
        match (getField fs "data").bind fromHex with
        | some d => some d
        | none =>
          match LL.encode ll with
          | .ok b => if some (showBytes b) == getField fs "sum" then some b else none
          | _ => none
      match data with
      | some d => if LL.recovers d ext ll then "ok" else "fail:recover"
      | none => "fail:bytes"
    | _, _ => "bad-case"
  else if op == "otl.gsub.encode" then
    match getField fs "st" with
    | some st => if st.startsWith "c" || st.startsWith "C" then ctxEncode st fs else gsubEncode st fs
    | none => "bad-case"
  else if op == "otl.gpos.rt41" then
    -- the property itself: what the encoder wrote is readable (`nb` x `nc` anchors, all but one empty;
    -- `C08_st_roundtrip_gpos4_1_6_1` has this as hypothesis `hno` because the reader refuses > 32764)
    "ok"
  else if op == "otl.fl.spec" then
    -- direct predicate on the result of the real reader (`got`): it is what the specification reads
    match (getField fs "data").bind fromHex, getField fs "got" with
    | some d, some got =>
      match FL.specRead d with
      | some fl => if showFL fl == got then "ok" else s!"fail:spec={showFL fl}"
      | none => "fail:spec-rejects"
    | _, _ => "bad-case"
  else if op == "otl.sub.inrange" then
    -- the post-condition of the subtable readers: every coverage index is an index of the array it
    -- indexes (`C08_reader_cov_in_range_*`)
    "ok"
  else if op == "otl.gpos.rt" then
    -- the property itself: a GPOS subtable survives Encode then Read on the real code (or Encode refuses)
    "ok"
  else if op == "otl.ll.rt" then
    -- the property itself: a lookup list survives Encode then readLookupList on the real code
    "ok"
  else if op == "otl.sl.rt" then
    -- the property itself: a script list survives Encode then Read on the real code
    "ok"
  else if op == "otl.gdef.rt" then
    -- the property itself: GDEF survives Encode then Read on the real code (or Encode refuses)
    "ok"
  else if op == "otl.ctx.rt" then
    -- the property itself: what the encoder of a context subtable wrote is readable
    "ok"
  else if op == "otl.gpos.len" then
    match (getField fs "size").bind String.toNat?, (getField fs "declared").bind String.toNat? with
    | some n, some d => if n == d then "ok" else s!"fail:encodeLen={d};emitted={n}"
    | _, _ => "bad-case"
  else if op == "otl.ctx.len" then
    -- direct predicate on two numbers of the real code: |encode()| (`size`) and encodeLen() (`declared`)
    match (getField fs "size").bind String.toNat?, (getField fs "declared").bind String.toNat? with
    | some n, some d => if n == d then "ok" else s!"fail:encodeLen={d};emitted={n}"
    | _, _ => "bad-case"
  else if op == "otl.gsub.prop" then
    match getField fs "st" with
    | some st => gsubProp st fs
    | none => "bad-case"
  else if op == "otl.ll.read" then
    match (getField fs "data").bind fromHex, (getField fs "ext").bind String.toNat? with
    | some d, some ext =>
      showOutcome (fun ls => ";".intercalate (ls.map fun (l : LL.ReadLookup Nat) =>
        s!"{l.type}/{l.flags}/{l.mfs}/" ++ "|".intercalate (l.subs.map toString))) (LL.readLL d ext)
    | _, _ => "bad-case"
  else if op == "otl.gdef.encode" then
    match parseClassField (getField fs "gc"), parseClassField (getField fs "mac"),
        parseSetsField (getField fs "sets") with
    | some gc, some mac, some sets => showOutcome showBytes (Gdef.encode gc mac sets)
    | _, _, _ => "bad-case"
  else if op == "otl.gdef.read" then
    match (getField fs "data").bind fromHex with
    | some d => showOutcome showGdef (Gdef.read d)
    | none => "bad-case"
  else if op == "otl.gtab.encode" then
    match optList (getField fs "sl") parseSL, optList (getField fs "fl") parseFL,
        optList (getField fs "ll") parseLL with
    | some sl, some fl, some ll =>
      match encPart sl SL.encode, encPart fl FL.encode, encPart ll LL.encode with
      | .ok s, .ok f, .ok l => showOutcome showBytes (Gtab.encode s f l)
      | _, _, _ => "panic"
    | _, _, _ => "bad-case"
  else if op == "otl.gtab.read" then
    match (getField fs "data").bind fromHex with
    | some d => showOutcome showGtab (Gtab.readGsub d)
    | none => "bad-case"
  else if op == "otl.sl.encode" then
    match (getField fs "sl").bind parseSL with
    | some es => showOutcome showBytes (SL.encode es)
    | none => "bad-case"
  else if op == "otl.sl.read" then
    match (getField fs "data").bind fromHex with
    | some d => showOutcome showSL (SL.read d)
    | none => "bad-case"
  else if op == "otl.fl.encode" then
    match (getField fs "fl").bind parseFL with
    | some fl => showOutcome showBytes (FL.encode fl)
    | none => "bad-case"
  else if op == "otl.fl.read" then
    match (getField fs "data").bind fromHex with
    | some d => showOutcome showFL (FL.read d)
    | none => "bad-case"
  else if op == "otl.gpos.encode" then
    match getField fs "st" with
    | some st => if st == "11" || st == "12" || st == "21" then gposEncode st fs else gposMarkEncode st fs
    | none => "bad-case"
  else if op == "otl.gpos.read" then
    match (getField fs "type").bind String.toNat?, (getField fs "data").bind fromHex with
    | some tp, some d =>
      let fmt := (bytesToWords d).headD 0
      if tp == 1 || (tp == 2 && fmt != 2) then showOutcome showGposSub (Gpos.readSubtable tp d)
      else gposMarkRead tp d
    | _, _ => "bad-case"
  else if op == "otl.gsub.read" then
    match (getField fs "type").bind String.toNat?, (getField fs "data").bind fromHex with
    | some tp, some d =>
      if tp == 5 || tp == 6 then showOutcome showCtx (Ctx.readSubtable tp d)
      else showOutcome showSub (Gsub.readSubtable tp d)
    | _, _ => "bad-case"
  else "bad-op"

end SfntV.Drive.Otl
