import SfntV.Model.TotalCmap4

/-!
Line protocol of the checked-index model of `decodeFormat4` (property C02, group `cmap4`).

* `tmcmap4.decode bytes=<hex>` (verdict): `ok:<code:gid list sorted by code>` | `err` | `panic`.
* `tmcmap4.lazy bytes=<hex> rs=<ints>` (verdict): decode, then `CodeRange()` and `Lookup(r)` for
  every `r`: `ok:<low>,<high>;<gids>` | `err` | `panic`.
-/
namespace SfntV.Drive.TotalCmap4
open SfntV SfntV.Total

def prefixes : List String := ["tmcmap4."]

def showPairs (l : List (Nat × Nat)) : String :=
  ",".intercalate (l.map fun p => s!"{p.1}:{p.2}")

/-- last write wins, sorted by code, zero gids dropped -/
def canonMap (l : List (Nat × Nat)) : List (Nat × Nat) :=
  let arr := l.foldl (fun (a : Array Nat) p => if p.1 < a.size then a.set! p.1 p.2 else a) (Array.replicate 65536 0)
  (List.range 65536).filterMap fun c => if arr.getD c 0 ≠ 0 then some (c, arr.getD c 0) else none

def parseInts (s : String) : List Int :=
  if s.isEmpty then [] else (s.splitOn ",").filterMap String.toInt?

def handle (op : String) (fs : List (String × String)) : String :=
  match (getField fs "bytes").bind fromHex with
  | none => "bad-case"
  | some b =>
    if op == "tmcmap4.decode" then
      match Cmap4.decodeFormat4 b with
      | .ok (m, _) => "ok:" ++ showPairs (canonMap m)
      | .err _ => "err"
      | .panic _ => "panic"
    else if op == "tmcmap4.lazy" then
      match Cmap4.decodeFormat4 b with
      | .ok (m, _) =>
        let rs := parseInts ((getField fs "rs").getD "")
        match Cmap4.codeRange m with
        | .ok (lo, hi) =>
          let gs := rs.map fun r => match Cmap4.lookup m r with
            | .ok g => toString g
            | .err _ => "err"
            | .panic _ => "panic"
          s!"ok:{lo},{hi};" ++ ",".intercalate gs
        | .err _ => "err"
        | .panic _ => "panic"
      | .err _ => "err"
      | .panic _ => "panic"
    else "bad-op"

end SfntV.Drive.TotalCmap4
