#!/bin/sh
# runall.sh [tier] — run every claimed check (4 at a time), print rc per property
tier=${1:-quick}
cd /verif
cat cfg/claimed.txt | xargs -P 4 -I{} sh -c './check {} --tier '"$tier"' > /tmp/runall_{}.out 2>&1; echo "{} rc=$? $(grep -c KNOWN-FINDING /tmp/runall_{}.out) known $(grep VIOLATION /tmp/runall_{}.out | head -2)"'
