#!/usr/bin/env python3
"""Regenerate MANIFEST.json from checkcfg.py (single source of truth for claimed properties)."""
import json, subprocess
from checkcfg import PROPS, NOT_APPLICABLE, LEVEL_TEXT, CLAIMED

hooks = subprocess.run(["git", "-C", "/repo", "log", "--format=%H %s"], capture_output=True, text=True).stdout.splitlines()
hook_commits = [l.split()[0] for l in hooks if " verif hook" in l]
checks = []
for pid in sorted(CLAIMED):
    c = PROPS[pid]
    lt = LEVEL_TEXT[pid]
    checks.append({
        "property_id": pid,
        "quick_cmd": f"./check {pid} --tier quick",
        "thorough_cmd": f"./check {pid} --tier thorough",
        "evidence_file": f"/verif/evidence/{pid}.json",
        "replay_cmd_template": f"./check {pid} --replay {{path}}",
        "engine": "lean4-proof+correspondence",
        "level_claimed": {"category": c.get("level", "proof"), "text": lt["text"], "design_ref": lt.get("design_ref", "DESIGN.md §8 " + pid)},
        "level_note": lt["note"],
        "technique": lt.get("technique", "Lean 4 theorems about a hand-written model + differential correspondence with the Go code"),
    })
m = {
    "version": 1,
    "setup_cmd": "./setup.sh",
    "hooks": {
        "guard": "verif",
        "enable": "go build -tags verif (the harness in /verif/harness is built with this tag against /repo)",
        "baseline_off_cmd": "cd /repo && GOFLAGS=-mod=mod GOPROXY=off GOSUMDB=off go test -json -vet=off -count=1 -timeout 25m ./...",
        "source_commits": hook_commits,
        "add_only": True,
    },
    "engines": [{
        "name": "lean4-proof+correspondence", "path": "/verif/check",
        "serves_properties": sorted(CLAIMED),
        "kind_free_text": "Lean 4 (core only) models + theorems in /verif/lean, facts regenerated from /repo by /verif/extract, Go harness /verif/harness running the real code, compiled Lean driver running model and spec on the same case lines; python driver /verif/check",
    }],
    "checks": checks,
    "not_applicable": [{"property_id": k, "reason": v} for k, v in sorted(NOT_APPLICABLE.items())],
    "notes": "Every check regenerates SfntV/Generated from /repo's working tree, rebuilds the proofs, audits axioms, rebuilds the harness with -tags verif against /repo and runs corpus + generated cases. See DESIGN.md.",
}
json.dump(m, open("/verif/MANIFEST.json", "w"), indent=1)
print("wrote MANIFEST.json with", len(checks), "checks;", len(m["not_applicable"]), "not applicable")
